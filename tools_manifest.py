#!/venv/bin/python
"""Regenerate /verif/MANIFEST.json from the rule modules present (keeps it valid at all times)."""
import importlib
import json
import os
import sys

sys.path.insert(0, os.path.dirname(os.path.abspath(__file__)))
PROPS = [json.loads(l) for l in open(os.path.join(os.path.dirname(__file__), "properties.jsonl"))]

checks, na = [], []
for p in PROPS:
    pid = p["id"]
    try:
        mod = importlib.import_module(f"sa.rules.{pid.lower()}")
    except ModuleNotFoundError:
        mod = None
    if mod is None or getattr(mod, "NOT_APPLICABLE", None):
        na.append({"property_id": pid, "reason": getattr(mod, "NOT_APPLICABLE", None)
                   or "no static rule implemented yet in this session (see DESIGN.md section 3 for the planned clauses)"})
        continue
    checks.append({
        "property_id": pid,
        "quick_cmd": f"./check {pid} --tier quick",
        "thorough_cmd": f"./check {pid} --tier thorough",
        "evidence_file": f"/verif/evidence/{pid}.json",
        "replay_cmd_template": "./check " + pid + " --replay {path}",
        "engine": "sa",
        "level_claimed": {
            "category": "other",
            "text": mod.LEVEL_TEXT,
            "design_ref": f"DESIGN.md section 3, {pid}",
        },
        "level_note": mod.LEVEL_NOTE,
        "technique": mod.TECHNIQUE,
    })

manifest = {
    "version": 1,
    "setup_cmd": "/venv/bin/python -B -m sa.repo",
    "hooks": {
        "guard": "PYSCRIPT_VERIF",
        "enable": "no hooks: every check parses /repo/custom_components/pyscript with the standard ast module and never imports or runs it",
        "baseline_off_cmd": "cd /repo && /venv/bin/python -m pytest -ra -q -p no:cacheprovider --timeout=900 --continue-on-collection-errors",
        "source_commits": [],
        "add_only": True,
    },
    "engines": [
        {"name": "sa", "path": "/verif/sa", "serves_properties": [c["property_id"] for c in checks],
         "kind_free_text": "repository-specific static analysis over the Python ast: abstract interpretation of function bodies "
         "(path/outcome summaries with exceptional exits), predicate-abstraction decision tables, schematic partial evaluation of "
         "interpreter handlers compared with CPython's compiler output, comparison truth tables, who-may-call/call-graph rules"},
    ],
    "checks": checks,
    "not_applicable": na,
    "notes": "technique family: static analysis only; exit 0 = all obligations hold or only listed known findings; "
             "exit 1 + VIOLATION line = unlisted violation; exit 2 + ANALYSIS-ERROR = anchor unit missing / floor not met / checker broken",
}
with open(os.path.join(os.path.dirname(__file__), "MANIFEST.json"), "w") as fd:
    json.dump(manifest, fd, indent=1)
print(f"{len(checks)} checks, {len(na)} not applicable")
