#!/bin/bash
# Run the pinned baseline suite on /repo and compare with BASELINE.json stable_pass (dev helper).
cd /repo && timeout 1800 /venv/bin/python -m pytest -q -p no:cacheprovider --timeout=900 --continue-on-collection-errors --junitxml=/tmp/baseline.junit.xml > /tmp/baseline.log 2>&1
/venv/bin/python - <<'PY'
import json, xml.etree.ElementTree as ET
base=json.load(open('/root/.vp/BASELINE.json'))['stable_pass']
passed=set()
for tc in ET.parse('/tmp/baseline.junit.xml').getroot().iter('testcase'):
    if not any(ch.tag in ('failure','error','skipped') for ch in tc):
        passed.add(tc.get('classname')+'::'+tc.get('name'))
missing=[t for t in base if t not in passed]
print("baseline:", len(base)-len(missing), "/", len(base), "missing:", missing)
PY
tail -1 /tmp/baseline.log
