#!/venv/bin/python
"""Dev helper (not a check): which functions of the package does no check consult?  Reads evidence/*.json (functions_consulted)."""
import glob, json, os, sys
sys.path.insert(0, os.path.dirname(os.path.abspath(__file__)))
from sa.repo import Program
import ast
p = Program()
seen = {}
for f in sorted(glob.glob(os.path.join(os.path.dirname(os.path.abspath(__file__)), "evidence", "C*.json"))):
    e = json.load(open(f))
    for uid in e["coverage"].get("functions_consulted", []):
        seen.setdefault(uid, []).append(e["property_id"])
rows = []
for u in p.functions():
    if u.rel.startswith("stubs/") or u.rel in ("stubs/generator.py",):
        continue
    n = (u.node.end_lineno or u.node.lineno) - u.node.lineno + 1
    rows.append((u.uid, n, seen.get(u.uid, [])))
un = [(uid, n) for uid, n, s in rows if not s]
print(f"{len(rows)} functions (stubs excluded), {len(rows) - len(un)} consulted by at least one check, {len(un)} not consulted")
for uid, n in sorted(un, key=lambda x: -x[1])[:70]:
    print(f"  {n:4d} lines  {uid}")
