"""Triage probe (not a check): state_hold keeps running across non-evaluating updates and releases the first event's arguments."""
import asyncio, time
from datetime import datetime as dt
import pytest
from probe_triggers_test import setup_script, wait_done
from homeassistant.const import EVENT_HOMEASSISTANT_STARTED

SRC = """
@state_trigger("int(pyscript.v) > 0", state_hold=0.6)
def f(value=None):
    pyscript.done = [value]
"""

@pytest.mark.parametrize("legacy", [False, True])
async def test_hold(hass, legacy, monkeypatch):
    if legacy:
        monkeypatch.setenv("NODM", "1")
    q = asyncio.Queue(0)
    hass.states.async_set("pyscript.v", "0")
    await setup_script(hass, q, dt(2024, 1, 1, 12, 0, 0), SRC)
    from custom_components.pyscript import trigger
    trigger.__dict__["dt_now"] = lambda: dt.now()   # real clock: the legacy loop re-checks wall time at hold expiry
    hass.bus.async_fire(EVENT_HOMEASSISTANT_STARTED)
    await hass.async_block_till_done()
    t0 = time.monotonic()
    hass.states.async_set("pyscript.v", "1")                      # true: hold starts
    await hass.async_block_till_done()
    await asyncio.sleep(0.15)
    hass.states.async_set("pyscript.v", "1", {"attr": 5})          # attribute-only update: no evaluation
    await hass.async_block_till_done()
    await asyncio.sleep(0.15)
    hass.states.async_set("pyscript.v", "2")                      # still true: neither restarts nor cancels
    await hass.async_block_till_done()
    res = await wait_done(q, 3)
    took = time.monotonic() - t0
    assert res == "['1']", res
    assert 0.55 <= took < 0.95, took
