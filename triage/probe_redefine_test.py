"""Triage probe (not a check): a function redefined in the same file at load time - only the latest definition may run."""
import asyncio
from datetime import datetime as dt
import pytest
from probe_triggers_test import setup_script, wait_done

SRC = """
ran = []

@event_trigger("go")
def f():
    ran.append("old")

@event_trigger("go")
def f():
    ran.append("new")

@event_trigger("fin")
def fin():
    pyscript.done = ran
"""

@pytest.mark.parametrize("legacy", [False, True])
async def test_redefine(hass, legacy, monkeypatch):
    if legacy:
        monkeypatch.setenv("NODM", "1")
    q = asyncio.Queue(0)
    await setup_script(hass, q, dt(2024, 1, 1, 12, 0, 0), SRC)
    import gc; gc.collect()
    hass.bus.async_fire("homeassistant_started"); await hass.async_block_till_done(); await asyncio.sleep(0.05)
    hass.bus.async_fire("go"); await hass.async_block_till_done(); await asyncio.sleep(0.05)
    hass.bus.async_fire("fin")
    res = await wait_done(q)
    print("RESULT", "legacy" if legacy else "new", res)
    assert res == "['new']", res
