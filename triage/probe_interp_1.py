import asyncio, sys, types
sys.path.insert(0, "/repo")
from types import SimpleNamespace
from custom_components.pyscript.const import CONFIG_ENTRY, DOMAIN
from custom_components.pyscript.eval import AstEval
from custom_components.pyscript.function import Function
from custom_components.pyscript.global_ctx import GlobalContext, GlobalContextMgr

class FakeHass:
    def __init__(self):
        self.data = {DOMAIN: {CONFIG_ENTRY: SimpleNamespace(data={})}}
        self.loop = None
        self.services = SimpleNamespace(has_service=lambda d, s: False)
        self.states = SimpleNamespace(get=lambda n: None)
        self.config = SimpleNamespace(path=lambda f: '/nonexistent/' + f)
    async def async_add_executor_job(self, f, *a):
        return f(*a)

async def run(src):
    from custom_components.pyscript.decorator import DecoratorRegistry
    if not hasattr(DecoratorRegistry, "_decorators"):
        DecoratorRegistry._decorators = {}
    g = GlobalContext("test", global_sym_table={}, manager=GlobalContextMgr)
    a = AstEval("test", global_ctx=g)
    Function.install_ast_funcs(a)
    a.parse(src)
    try:
        r = await a.eval()
        return ("ok", r, {k: v for k, v in g.global_sym_table.items() if k in ("log", "x", "y", "r")})
    except Exception as e:
        return ("exc", type(e).__name__, str(e), {k: v for k, v in g.global_sym_table.items() if k in ("log","x","y","r")})

def py(src):
    g = {}
    try:
        exec(src, g)
        return ("ok", {k: v for k, v in g.items() if k in ("log", "x", "y", "r")})
    except Exception as e:
        return ("exc", type(e).__name__, str(e), {k: v for k, v in g.items() if k in ("log","x","y","r")})

PRE = "log = []\ndef t(v):\n    log.append(v)\n    return v\n"
CASES = {
 "for-else-break": "r=[]\nfor i in [1,2]:\n    for j in [1]:\n        pass\n    else:\n        break\n    r.append(i)\nr.append('end')\n",
 "dict-order": PRE + "x = {t('k'): t('v')}\n",
 "call-order": PRE + "def f(*a, **k): return 0\nx = f(t(1), k=t(2))\ny = f(k=t(3), *[t(4)])\n",
 "compare-chain": PRE + "x = t(1) < t(2) < t(3)\n",
 "augassign-sub": PRE + "d=[0,0]\nd[t(0)] += t(5)\n",
 "uadd": "x = +True\n",
 "uadd-str": "x = +'a'\n",
 "fstring-r": "x = f\"{'a'!r}\"\n",
 "list-unpack": "[x, y] = 1, 2\n",
 "listcomp-leak": "x = 1\ntry:\n    [1/0 for x in [5]]\nexcept ZeroDivisionError:\n    pass\n",
 "class-exc": "try:\n    class A:\n        z = 1/0\nexcept ZeroDivisionError:\n    pass\ny = 5\ndef f():\n    return y\nr = f()\n",
 "compile-twice": "def mk():\n    @pyscript_compile\n    def g(a):\n        return a+1\n    return g\nr = [type(mk()).__name__, type(mk()).__name__]\n",
 "annassign-closure": "def outer():\n    x: int = 5\n    def inner():\n        return x\n    return inner\nr = outer()()\n",
 "import-closure": "def outer():\n    import math\n    def inner():\n        return math.pi\n    return inner\nr = outer()()\n",
 "matmul": "x = 1 @ 2\n",
 "with-order": PRE + "class M:\n    def __init__(self, n): self.n = n; t('init'+n)\n    def __enter__(self): t('enter'+self.n); return self\n    def __exit__(self, *a): t('exit'+self.n); return False\nwith M('a') as p, M('b') as q:\n    t('body')\n",
 "deco-default-order": PRE + "def dec(v):\n    def d(f): return f\n    return d\n@dec(t('dec'))\ndef f(a=t('default')): pass\n",
 "del-attr": "class O: pass\no = O()\no.a = 1\ndel o.a\nr = hasattr(o, 'a')\n",
 "slice-order": PRE + "l=[1,2,3,4]\nx = l[t(0):t(3):t(1)]\n",
}
async def main():
    Function.hass = FakeHass()
    names = sys.argv[1:] or list(CASES)
    for n in names:
        src = CASES[n].replace("@pyscript_compile\n", "@pyscript_compile\n")
        pysrc = src.replace("    @pyscript_compile\n", "")
        print("==", n)
        print("  pyscript:", await run(src))
        print("  cpython :", py(pysrc))
if __name__ == "__main__":
    asyncio.run(main())
