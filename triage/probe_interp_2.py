import asyncio, sys
exec(open(__import__("os").path.join(__import__("os").path.dirname(__file__), "probe_interp_1.py")).read().split("PRE =")[0])
from custom_components.pyscript.decorator import DecoratorRegistry
DecoratorRegistry._decorators = {}
PRE = "log = []\ndef t(v):\n    log.append(v)\n    return v\n"
CASES = {
 "iadd-inplace": "l=[1]\nm=l\nl+=[2]\nr=m\n",
 "deco-default-order": PRE + "def dec(v):\n    def d(f): return f\n    return d\n@dec(t('dec'))\ndef f(a=t('default')): pass\n",
 "dec-depth-leak": "def bad(f):\n    raise ValueError('x')\ntry:\n    @bad\n    def f(): pass\nexcept ValueError:\n    pass\nr = None\n",
 "class-deco-order": PRE + "def dec(v):\n    def d(c): return c\n    return d\n@dec(t('dec'))\nclass A(t(object)):\n    t('body')\n",
 "with-enter-fail": PRE + "class M:\n    def __init__(self, n, bad=False): self.n = n; self.bad = bad\n    def __enter__(self):\n        t('enter'+self.n)\n        if self.bad: raise ValueError('e')\n        return self\n    def __exit__(self, *a): t('exit'+self.n); return False\ntry:\n    with M('a'), M('b', True):\n        t('body')\nexcept ValueError:\n    pass\n",
 "with-suppress-inner": PRE + "class M:\n    def __init__(self, n, sup=False): self.n = n; self.sup = sup\n    def __enter__(self): return self\n    def __exit__(self, et, ev, tb): t(('exit'+self.n, et is None)); return self.sup\ntry:\n    with M('a'), M('b', True):\n        raise ValueError('e')\n    t('after')\nexcept ValueError:\n    t('propagated')\n",
}
async def main():
    Function.hass = FakeHass()
    for n in CASES:
        print("==", n)
        g = GlobalContext("test", global_sym_table={}, manager=GlobalContextMgr)
        a = AstEval("test", global_ctx=g)
        Function.install_ast_funcs(a)
        a.parse(CASES[n])
        try:
            await a.eval()
            print("  pyscript:", {k: v for k, v in g.global_sym_table.items() if k in ("log","r")}, "dec_eval_depth=", a.dec_eval_depth)
        except Exception as e:
            print("  pyscript exc:", type(e).__name__, e, {k: v for k, v in g.global_sym_table.items() if k in ("log","r")})
        print("  cpython :", py(CASES[n]))
asyncio.run(main())
