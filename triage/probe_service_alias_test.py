"""Triage probe (not a check): @service with several names (documented: "Multiple arguments ... register multiple names") in both subsystems."""
import asyncio
from datetime import datetime as dt
import pytest
from probe_triggers_test import setup_script

SRC = """
@service("pyscript.one", "pyscript.two")
def f(val=0):
    pyscript.got = val
"""

@pytest.mark.parametrize("legacy", [False, True])
async def test_aliases(hass, legacy, monkeypatch, caplog):
    if legacy:
        monkeypatch.setenv("NODM", "1")
    await setup_script(hass, None, dt(2024, 1, 1, 12, 0, 0), SRC)
    hass.bus.async_fire("homeassistant_started")
    await hass.async_block_till_done()
    got = (hass.services.has_service("pyscript", "one"), hass.services.has_service("pyscript", "two"))
    errs = [r.getMessage()[:200] for r in caplog.records if r.levelname in ("ERROR", "WARNING") and "service" in r.getMessage()]
    print("RESULT", "legacy" if legacy else "new", got, errs)
    assert got == (True, True), got
