"""Dev-time differential sanity check of fix commits (not a check; see README)."""
import asyncio, sys
sys.path.insert(0, "/repo")
sys.path.insert(0, "/verif/triage")
from probe_interp_1 import FakeHass, Function, run as run_ps, PRE
def py(src):
    g = {}
    try:
        exec(src, g); return ("ok", {k: v for k, v in g.items() if k in ("log","x","y","r")})
    except Exception as e:
        return ("exc", type(e).__name__, {k: v for k, v in g.items() if k in ("log","x","y","r")})
CASES = [l for l in open(sys.argv[1]).read().split("\n#--\n") if l.strip()]
async def main():
    Function.hass = FakeHass()
    bad = 0
    for src in CASES:
        src = src.replace("PRE\n", PRE)
        a = await run_ps(src); b = py(src)
        an = (a[0], a[1] if a[0]=="exc" else None, a[-1]); bn = (b[0], b[1] if b[0]=="exc" else None, b[-1])
        if an != bn:
            bad += 1; print("DIFF:", repr(src[-80:])); print("   pyscript", a); print("   cpython ", b)
    print(len(CASES), "cases", bad, "differences")
asyncio.run(main())
