import asyncio, re, os, logging
from datetime import datetime as dt
from unittest.mock import patch
import pytest
from mock_open import MockOpen
from custom_components.pyscript import trigger
from custom_components.pyscript.const import CONF_ALLOW_ALL_IMPORTS, DOMAIN, FOLDER
from custom_components.pyscript.function import Function
from custom_components.pyscript.state import State
from custom_components.pyscript.event import Event
from homeassistant.const import EVENT_STATE_CHANGED
from homeassistant.setup import async_setup_component

async def setup_script(hass, notify_q, now, source, config=None):
    conf_dir = hass.config.path(FOLDER)
    file_contents = {f"{conf_dir}/hello.py": source}
    Function.hass = None
    mock_open = MockOpen()
    for key, value in file_contents.items():
        mock_open[key].read_data = value
    def isfile_side_effect(arg):
        return arg in file_contents
    def glob_side_effect(path, recursive=None, root_dir=None, dir_fd=None, include_hidden=False):
        result = []
        path_re = path.replace("*", "[^/]*").replace(".", "\\.")
        path_re = path_re.replace("[^/]*[^/]*/", ".*")
        for this_path in file_contents:
            if re.match(path_re, this_path):
                result.append(this_path)
        return result
    if not config:
        config = {DOMAIN: {CONF_ALLOW_ALL_IMPORTS: True}}
    with (
        patch("custom_components.pyscript.os.path.isdir", return_value=True),
        patch("custom_components.pyscript.glob.iglob") as mock_glob,
        patch("custom_components.pyscript.global_ctx.open", mock_open),
        patch("custom_components.pyscript.trigger.dt_now", return_value=now),
        patch("custom_components.pyscript.open", mock_open),
        patch("homeassistant.config.load_yaml_config_file", return_value=config),
        patch("custom_components.pyscript.install_requirements", return_value=None),
        patch("custom_components.pyscript.watchdog_start", return_value=None),
        patch("custom_components.pyscript.os.path.getmtime", return_value=1000),
        patch("custom_components.pyscript.global_ctx.os.path.getmtime", return_value=1000),
        patch("custom_components.pyscript.os.path.isfile") as mock_isfile,
    ):
        mock_isfile.side_effect = isfile_side_effect
        mock_glob.side_effect = glob_side_effect
        assert await async_setup_component(hass, "pyscript", config)
    trigger.__dict__["dt_now"] = lambda: now
    if notify_q:
        async def state_changed(event):
            if event.data["entity_id"] == "pyscript.done":
                await notify_q.put(event.data["new_state"].state)
        hass.bus.async_listen(EVENT_STATE_CHANGED, state_changed)

async def wait_done(q, t=3):
    return await asyncio.wait_for(q.get(), timeout=t)

@pytest.mark.parametrize("legacy", [False, True])
async def test_exc_logging(hass, caplog, legacy, monkeypatch):
    if legacy:
        monkeypatch.setenv("NODM", "1")
    q = asyncio.Queue(0)
    await setup_script(hass, q, dt(2020, 7, 1, 11, 0, 0), """
@event_trigger("boom")
def f():
    1/0
@event_trigger("fin")
def g():
    pyscript.done = "x"
""")
    hass.bus.async_fire("homeassistant_started"); await hass.async_block_till_done()
    hass.bus.async_fire("boom"); await hass.async_block_till_done()
    hass.bus.async_fire("fin")
    await wait_done(q)
    recs = [(r.name, r.getMessage()[:300]) for r in caplog.records if "ZeroDivision" in r.getMessage() or "run_coro" in r.getMessage()]
    print("LEGACY" if legacy else "NEW", "EXC RECORDS:", recs)

@pytest.mark.parametrize("legacy", [False, True])
async def test_time_active_mixed(hass, caplog, legacy, monkeypatch):
    if legacy:
        monkeypatch.setenv("NODM", "1")
    q = asyncio.Queue(0)
    # now = 11:00; positive window 10-12 and negated window 10:30-11:30 -> excluded
    await setup_script(hass, q, dt(2020, 7, 1, 11, 0, 0), """
seq = []
@event_trigger("ev")
@time_active("range(10:00, 12:00)", "not range(10:30, 11:30)")
def f():
    seq.append("ran")
@event_trigger("fin")
def g():
    pyscript.done = str(seq)
""")
    hass.bus.async_fire("homeassistant_started"); await hass.async_block_till_done()
    hass.bus.async_fire("ev"); await hass.async_block_till_done()
    await asyncio.sleep(0.05)
    hass.bus.async_fire("fin")
    print("LEGACY" if legacy else "NEW", "TIME_ACTIVE mixed ->", await wait_done(q))

@pytest.mark.parametrize("legacy", [False, True])
async def test_wait_until_cancel_leak(hass, caplog, legacy, monkeypatch):
    if legacy:
        monkeypatch.setenv("NODM", "1")
    q = asyncio.Queue(0)
    await setup_script(hass, q, dt(2020, 7, 1, 11, 0, 0), """
@event_trigger("go")
def f():
    task.unique("w")
    pyscript.done = "waiting"
    task.wait_until(state_trigger="pyscript.zz == '1'", event_trigger="never_ev")
@event_trigger("kill")
def g():
    task.unique("w")
    pyscript.done = "killed"
""")
    hass.bus.async_fire("homeassistant_started"); await hass.async_block_till_done()
    before = (dict((k, len(v)) for k, v in State.notify.items()), dict(hass.bus.async_listeners()).get("never_ev"))
    hass.bus.async_fire("go"); await wait_done(q)
    await asyncio.sleep(0.05)
    during = (dict((k, len(v)) for k, v in State.notify.items()), dict(hass.bus.async_listeners()).get("never_ev"))
    hass.bus.async_fire("kill"); await wait_done(q)
    await asyncio.sleep(0.1); await hass.async_block_till_done()
    after = (dict((k, len(v)) for k, v in State.notify.items()), dict(hass.bus.async_listeners()).get("never_ev"))
    print("LEGACY" if legacy else "NEW", "WAIT_UNTIL before/during/after:", before, during, after)

@pytest.mark.parametrize("legacy", [False, True])
async def test_notify_del_leak(hass, caplog, legacy, monkeypatch):
    if legacy:
        monkeypatch.setenv("NODM", "1")
    q = asyncio.Queue(0)
    await setup_script(hass, q, dt(2020, 7, 1, 11, 0, 0), """
@state_trigger("pyscript.a == '1' and pyscript.a.old == '0' and pyscript.a.attr1 == 3 and pyscript.b == '2' and pyscript.c == '3' and pyscript.d == '4'")
def f():
    pass
@event_trigger("redef")
def g():
    global f
    del f
    pyscript.done = "deleted"
""")
    hass.bus.async_fire("homeassistant_started"); await hass.async_block_till_done()
    await asyncio.sleep(0.05)
    during = dict((k, len(v)) for k, v in State.notify.items())
    hass.bus.async_fire("redef"); await wait_done(q)
    import gc; gc.collect()
    await asyncio.sleep(0.1); await hass.async_block_till_done()
    after = dict((k, len(v)) for k, v in State.notify.items())
    print("LEGACY" if legacy else "NEW", "NOTIFY during/after:", during, after)

async def test_lambda_open(hass, caplog):
    q = asyncio.Queue(0)
    await setup_script(hass, q, dt(2020, 7, 1, 11, 0, 0), """
f = lambda: open
g = lambda: __import__("os")
@event_trigger("fin")
def h():
    pyscript.done = str(f()) + " " + str(g().__name__)
""", config={DOMAIN: {CONF_ALLOW_ALL_IMPORTS: False}})
    hass.bus.async_fire("homeassistant_started"); await hass.async_block_till_done()
    hass.bus.async_fire("fin")
    print("LAMBDA ->", await wait_done(q))

async def test_service_owner(hass, caplog):
    q = asyncio.Queue(0)
    await setup_script(hass, q, dt(2020, 7, 1, 11, 0, 0), """
keep = []
@service("pyscript.foo")
def foo2():
    pass
@event_trigger("go")
def setup():
    @service("pyscript.foo")
    def foo():
        pass
    keep.append(foo)
    pyscript.done = "x"
""")
    hass.bus.async_fire("homeassistant_started"); await hass.async_block_till_done()
    hass.bus.async_fire("go"); await wait_done(q)
    await asyncio.sleep(0.05)
    print("SERVICE OWNER:", [r.getMessage()[:200] for r in caplog.records if "already defined" in r.getMessage() or "can't register" in r.getMessage()])
