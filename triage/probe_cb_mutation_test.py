"""Triage probe (not a check): a done callback that removes another done callback of the finishing task."""
import asyncio
from datetime import datetime as dt
import pytest
from probe_triggers_test import setup_script, wait_done

SRC = """
seen = []

def cb1(t):
    seen.append("cb1")
    task.remove_done_callback(t, cb2)

def cb2():
    seen.append("cb2")

def cb3():
    seen.append("cb3")

def worker():
    task.sleep(0.01)

@event_trigger("go")
def start():
    t = task.create(worker)
    task.add_done_callback(t, cb1, t)
    task.add_done_callback(t, cb2)
    task.add_done_callback(t, cb3)
    task.wait({t})
    task.sleep(0.05)
    pyscript.done = seen
"""

@pytest.mark.parametrize("legacy", [False])
async def test_cb_mutation(hass, legacy, caplog):
    q = asyncio.Queue(0)
    await setup_script(hass, q, dt(2024, 1, 1, 12, 0, 0), SRC)
    hass.bus.async_fire("homeassistant_started"); await hass.async_block_till_done()
    hass.bus.async_fire("go")
    res = await wait_done(q)
    errs = [r.getMessage()[:160] for r in caplog.records if "RuntimeError" in r.getMessage() or "changed size" in r.getMessage()]
    print("RESULT", res, errs)
    assert "cb3" in res, res
