import pytest
@pytest.fixture(autouse=True)
def auto_enable_custom_integrations(enable_custom_integrations):
    yield
