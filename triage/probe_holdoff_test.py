"""Triage probe (not a check): hold_off reference time must only move when an occurrence is accepted by all guards."""
import asyncio
from datetime import datetime as dt
import pytest
from probe_triggers_test import setup_script, wait_done
from homeassistant.const import EVENT_HOMEASSISTANT_STARTED

SRC = """
seq = 0
@state_trigger("pyscript.v")
@time_active(hold_off=5)
@state_active("pyscript.ok == '1'")
def f(value=None):
    global seq
    seq += 1
    pyscript.done = [seq, value]
"""

@pytest.mark.parametrize("legacy", [False, True])
async def test_holdoff_reference(hass, legacy, monkeypatch):
    if legacy:
        monkeypatch.setenv("NODM", "1")
    q = asyncio.Queue(0)
    await setup_script(hass, q, dt(2024, 1, 1, 12, 0, 0), SRC)
    hass.bus.async_fire(EVENT_HOMEASSISTANT_STARTED)
    await hass.async_block_till_done()
    hass.states.async_set("pyscript.ok", "0")
    hass.states.async_set("pyscript.v", "1")     # rejected by @state_active
    await hass.async_block_till_done()
    await asyncio.sleep(0.05)
    hass.states.async_set("pyscript.ok", "1")
    hass.states.async_set("pyscript.v", "2")     # first occurrence that qualifies: must run (nothing accepted before)
    await hass.async_block_till_done()
    assert await wait_done(q, 2) == "[1, '2']"
