"""Triage probe (not a check): `from m import C` followed by a rebinding of C in the importer must not rebind m.C."""
import asyncio
import re
from unittest.mock import patch
from mock_open import MockOpen
import pytest
from custom_components.pyscript.const import DOMAIN, FOLDER
from homeassistant.setup import async_setup_component

FILES = {
    "main.py": """
import m
from m import C, which
r = []
try:
    r.append(isinstance(m.C(), m.C))
except Exception as e:
    r.append(type(e).__name__ + ": " + str(e)[:60])
try:
    r.append(isinstance(C(), C))
except Exception as e:
    r.append(type(e).__name__)
C = 5
r.append(which())
pyscript.result = r
""",
    "modules/m.py": """
class C:
    x = 1

def which():
    return "class" if isinstance(C, type) else repr(C)
""",
}


async def test_import_cell(hass, caplog):
    conf_dir = hass.config.path(FOLDER)
    file_contents = {f"{conf_dir}/{k}": v for k, v in FILES.items()}
    mock_open = MockOpen()
    for key, value in file_contents.items():
        mock_open[key].read_data = value

    def glob_side_effect(path, recursive=None, root_dir=None, dir_fd=None, include_hidden=False):
        path_re = path.replace("*", "[^/]*").replace(".", "\\.")
        path_re = path_re.replace("[^/]*[^/]*/", ".*")
        return [p for p in file_contents if re.match(path_re, p)]

    conf = {"allow_all_imports": True}
    with (
        patch("custom_components.pyscript.os.path.isdir", return_value=True),
        patch("custom_components.pyscript.glob.iglob") as mock_glob,
        patch("custom_components.pyscript.global_ctx.open", mock_open),
        patch("custom_components.pyscript.open", mock_open),
        patch("homeassistant.util.yaml.loader.open", mock_open),
        patch("homeassistant.config.load_yaml_config_file", return_value={"pyscript": conf}),
        patch("custom_components.pyscript.watchdog_start", return_value=None),
        patch("custom_components.pyscript.install_requirements", return_value=None),
        patch("custom_components.pyscript.os.path.getmtime", return_value=1000),
        patch("custom_components.pyscript.global_ctx.os.path.getmtime", return_value=1000),
        patch("custom_components.pyscript.os.path.isfile") as mock_isfile,
        patch("custom_components.pyscript.global_ctx.os.path.isfile") as mock_isfile2,
    ):
        mock_isfile.side_effect = lambda p: p in file_contents
        mock_isfile2.side_effect = lambda p: p in file_contents
        mock_glob.side_effect = glob_side_effect
        assert await async_setup_component(hass, "pyscript", {DOMAIN: conf})
        await hass.async_block_till_done()
        st = hass.states.get("pyscript.result")
        errs = [r.getMessage()[:200] for r in caplog.records if r.levelname == "ERROR"]
        print("RESULT", st and st.state, errs[:2])
        assert st is not None and st.state == "[True, True, 'class']", st
