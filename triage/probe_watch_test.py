"""Triage probe (not a check): an any-change trigger with watch= must not fire for changes of the merely watched name."""
import asyncio
from datetime import datetime as dt
import pytest
from probe_triggers_test import setup_script, wait_done
from homeassistant.const import EVENT_HOMEASSISTANT_STARTED

SRC = """
@state_trigger("pyscript.a", watch=["pyscript.a", "pyscript.b"])
def f(var_name=None, value=None):
    pyscript.done = [var_name, value]
"""

@pytest.mark.parametrize("legacy", [False, True])
async def test_watch_only(hass, legacy, monkeypatch):
    if legacy:
        monkeypatch.setenv("NODM", "1")
    q = asyncio.Queue(0)
    await setup_script(hass, q, dt(2024, 1, 1, 12, 0, 0), SRC)
    hass.bus.async_fire(EVENT_HOMEASSISTANT_STARTED)
    await hass.async_block_till_done()
    hass.states.async_set("pyscript.b", "1")      # not an any-change name: must not run
    await hass.async_block_till_done()
    await asyncio.sleep(0.05)
    hass.states.async_set("pyscript.a", "7")      # any-change name: runs
    await hass.async_block_till_done()
    assert await wait_done(q, 2) == "['pyscript.a', '7']"
