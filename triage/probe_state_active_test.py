"""Triage probe (not a check): @state_active expressions with falsy non-bool values must reject the occurrence in both subsystems."""
import asyncio
from datetime import datetime as dt
import pytest
from probe_triggers_test import setup_script, wait_done

SRC = """
@event_trigger("go")
@state_active("int(pyscript.gate)")
def gated():
    pyscript.ran = int(pyscript.ran) + 1

@event_trigger("fin")
def fin():
    pyscript.done = pyscript.ran
"""

@pytest.mark.parametrize("legacy", [False, True])
async def test_state_active_zero(hass, legacy, monkeypatch):
    if legacy:
        monkeypatch.setenv("NODM", "1")
    q = asyncio.Queue(0)
    hass.states.async_set("pyscript.gate", "0")
    hass.states.async_set("pyscript.ran", "0")
    await setup_script(hass, q, dt(2024, 1, 1, 12, 0, 0), SRC)
    hass.bus.async_fire("homeassistant_started"); await hass.async_block_till_done()
    hass.bus.async_fire("go"); await hass.async_block_till_done()
    await asyncio.sleep(0.05)
    hass.bus.async_fire("fin")
    res = await wait_done(q)
    assert res == "0", f"{'legacy' if legacy else 'new'}: gated ran {res} time(s) although @state_active evaluated to 0"
