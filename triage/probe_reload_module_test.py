"""Triage probe (not a check): pyscript.reload with global_ctx=<module> re-runs the importers; are they started again?"""
import asyncio
import re
from unittest.mock import patch
from mock_open import MockOpen
import pytest
from custom_components.pyscript.const import DOMAIN, FOLDER
from custom_components.pyscript.global_ctx import GlobalContextMgr
from homeassistant.setup import async_setup_component

FILES = {
    "main.py": """
import m1

@event_trigger("ping")
def on_ping():
    pyscript.count = int(pyscript.count) + m1.STEP
""",
    "modules/m1.py": "STEP = 1\n",
}


@pytest.mark.parametrize("legacy", [False, True])
async def test_reload_module_by_name(hass, caplog, monkeypatch, legacy):
    if legacy:
        monkeypatch.setenv("NODM", "1")
    conf_dir = hass.config.path(FOLDER)
    file_contents = {f"{conf_dir}/{k}": v for k, v in FILES.items()}
    mock_open = MockOpen()
    for key, value in file_contents.items():
        mock_open[key].read_data = value

    def glob_side_effect(path, recursive=None, root_dir=None, dir_fd=None, include_hidden=False):
        path_re = path.replace("*", "[^/]*").replace(".", "\\.")
        path_re = path_re.replace("[^/]*[^/]*/", ".*")
        return [p for p in file_contents if re.match(path_re, p)]

    conf = {"allow_all_imports": True}
    with (
        patch("custom_components.pyscript.os.path.isdir", return_value=True),
        patch("custom_components.pyscript.glob.iglob") as mock_glob,
        patch("custom_components.pyscript.global_ctx.open", mock_open),
        patch("custom_components.pyscript.open", mock_open),
        patch("homeassistant.util.yaml.loader.open", mock_open),
        patch("homeassistant.config.load_yaml_config_file", return_value={"pyscript": conf}),
        patch("custom_components.pyscript.watchdog_start", return_value=None),
        patch("custom_components.pyscript.install_requirements", return_value=None),
        patch("custom_components.pyscript.os.path.getmtime", return_value=1000),
        patch("custom_components.pyscript.global_ctx.os.path.getmtime", return_value=1000),
        patch("custom_components.pyscript.os.path.isfile") as mock_isfile,
        patch("custom_components.pyscript.global_ctx.os.path.isfile") as mock_isfile2,
    ):
        mock_isfile.side_effect = lambda p: p in file_contents
        mock_isfile2.side_effect = lambda p: p in file_contents
        mock_glob.side_effect = glob_side_effect
        hass.states.async_set("pyscript.count", "0")
        assert await async_setup_component(hass, "pyscript", {DOMAIN: conf})
        hass.bus.async_fire("homeassistant_started"); await hass.async_block_till_done(); await asyncio.sleep(0.05)
        hass.bus.async_fire("ping"); await hass.async_block_till_done(); await asyncio.sleep(0.05)
        assert hass.states.get("pyscript.count").state == "1"
        await hass.services.async_call("pyscript", "reload", {"global_ctx": "modules.m1"}, blocking=True)
        await hass.async_block_till_done(); await asyncio.sleep(0.05)
        hass.bus.async_fire("ping"); await hass.async_block_till_done(); await asyncio.sleep(0.05)
        got = hass.states.get("pyscript.count").state
        print("RESULT", "legacy" if legacy else "new", "count after reload by module name and a second ping:", got, "contexts:", sorted(GlobalContextMgr.contexts))
        assert got == "2", f"importer not running after reload of its module (count={got})"
