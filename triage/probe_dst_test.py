"""Triage probe (not a check): new-subsystem @time_trigger cron across a DST fall-back fires when the wall clock shows the cron instant.
Harness adapted from seeded/C06d/test_demo.py (virtual clock in America/Los_Angeles)."""
import sys
from datetime import datetime as dt
import pytest
sys.path.insert(0, "/verif/seeded/C06d")
from test_demo import run_time_trigger, pyscript_time  # noqa: F401,E402


@pytest.mark.asyncio
async def test_cron_wall_clock_after_fall_back(pyscript_time):
    calls = await run_time_trigger(["cron(0 12 * * *)"], dt(2019, 11, 2, 18, 0, 0), 3)
    assert [wall for wall, _ in calls] == [dt(2019, 11, 3, 12, 0), dt(2019, 11, 4, 12, 0), dt(2019, 11, 5, 12, 0)], calls


@pytest.mark.asyncio
async def test_cron_midnight_after_fall_back(pyscript_time):
    calls = await run_time_trigger(["cron(0 0 * * *)"], dt(2019, 11, 3, 0, 0, 0), 2)
    assert [wall for wall, _ in calls] == [dt(2019, 11, 4, 0, 0), dt(2019, 11, 5, 0, 0)], calls
