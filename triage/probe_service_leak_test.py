"""Triage probe (not a check): services registered by a function whose decorator set then fails are released when the file goes away."""
import re
from unittest.mock import patch
from mock_open import MockOpen
import pytest
from custom_components.pyscript.const import DOMAIN, FOLDER
from custom_components.pyscript.function import Function
from homeassistant.setup import async_setup_component

OWNER = """
@service("pyscript.shared")
def shared_impl(val=0):
    pyscript.owner_got = val
"""
SECOND = {
    "refused alias": """
@service("pyscript.second_only", "pyscript.shared")
def second_impl(val=0):
    pyscript.second_got = val
""",
    "guard without trigger": """
@service("pyscript.second_only")
@state_active("True")
def second_impl(val=0):
    pyscript.second_got = val
""",
    "duplicate alias": """
@service("pyscript.second_only", "pyscript.second_only")
def second_impl(val=0):
    pyscript.second_got = val
""",
    "later decorator invalid": """
@service("pyscript.second_only")
@state_trigger(1)
def second_impl(val=0):
    pyscript.second_got = val
""",
}


@pytest.mark.parametrize("legacy", [False, True])
@pytest.mark.parametrize("case", sorted(SECOND))
async def test_leak(hass, caplog, monkeypatch, legacy, case):
    if legacy:
        monkeypatch.setenv("NODM", "1")
    conf_dir = hass.config.path(FOLDER)
    file_contents = {f"{conf_dir}/owner.py": OWNER}
    mock_open = MockOpen()
    for key, value in file_contents.items():
        mock_open[key].read_data = value

    def set_file(name, source):
        path = f"{conf_dir}/{name}"
        if source is None:
            file_contents.pop(path, None)
            return
        file_contents[path] = source
        mock_open[path].read_data = source

    def glob_side_effect(path, recursive=None, root_dir=None, dir_fd=None, include_hidden=False):
        path_re = path.replace("*", "[^/]*").replace(".", "\\.")
        path_re = path_re.replace("[^/]*[^/]*/", ".*")
        return [p for p in file_contents if re.match(path_re, p)]

    conf = {}
    with (
        patch("custom_components.pyscript.os.path.isdir", return_value=True),
        patch("custom_components.pyscript.glob.iglob") as mock_glob,
        patch("custom_components.pyscript.global_ctx.open", mock_open),
        patch("custom_components.pyscript.open", mock_open),
        patch("homeassistant.util.yaml.loader.open", mock_open),
        patch("homeassistant.config.load_yaml_config_file", return_value={"pyscript": conf}),
        patch("custom_components.pyscript.watchdog_start", return_value=None),
        patch("custom_components.pyscript.os.path.getmtime", return_value=1000),
        patch("custom_components.pyscript.global_ctx.os.path.getmtime", return_value=1000),
        patch("custom_components.pyscript.os.path.isfile") as mock_isfile,
    ):
        mock_isfile.side_effect = lambda p: p in file_contents
        mock_glob.side_effect = glob_side_effect
        assert await async_setup_component(hass, "pyscript", {DOMAIN: conf})
        set_file("second.py", SECOND[case])
        await hass.services.async_call("pyscript", "reload", {}, blocking=True)
        await hass.async_block_till_done()
        before = hass.services.has_service("pyscript", "second_only")
        set_file("second.py", None)
        await hass.services.async_call("pyscript", "reload", {}, blocking=True)
        await hass.async_block_till_done()
        after = hass.services.has_service("pyscript", "second_only")
        print(f"RESULT legacy={legacy} case={case}: registered after failed definition={before}, after file removal={after}, "
              f"owner={Function.service2global_ctx.get('pyscript.second_only')}, cnt={Function.service_cnt.get('pyscript.second_only')}")
        assert not after, "pyscript.second_only still registered although its file is gone"
