"""Entry point: /verif/check <Cnn> [--tier quick|thorough] [--replay file]."""

from __future__ import annotations

import argparse
import importlib
import json
import os
import sys
import traceback

from .repo import AnalysisError
from .report import Ctx, finish


def run_property(prop: str, tier: str) -> int:
    mod = importlib.import_module(f"sa.rules.{prop.lower()}")
    ctx = Ctx(prop, tier)
    explanation = mod.run(ctx)
    if tier == "thorough":
        if hasattr(mod, "thorough"):
            extra = mod.thorough(ctx)
            if extra:
                explanation += " " + extra
        from . import selftest
        explanation += " " + selftest.run(ctx)
    seed = int(os.environ.get("VERIF_SEED", "0") or 0)
    return finish(ctx, explanation, seed=seed)


class _Quiet:
    """stdout wrapper: a reader that closes the pipe early (``| head``) must not turn the run into an internal error."""

    def __init__(self, fd):
        self.fd = fd
        self.dead = False

    def write(self, s):
        if not self.dead:
            try:
                return self.fd.write(s)
            except BrokenPipeError:
                self.dead = True
        return len(s)

    def flush(self):
        if not self.dead:
            try:
                self.fd.flush()
            except BrokenPipeError:
                self.dead = True

    def __getattr__(self, name):
        return getattr(self.fd, name)


def main(argv=None) -> int:
    sys.stdout = _Quiet(sys.stdout)
    ap = argparse.ArgumentParser()
    ap.add_argument("prop")
    ap.add_argument("--tier", default=os.environ.get("VERIF_TIER", "quick"), choices=["quick", "thorough"])
    ap.add_argument("--replay")
    args = ap.parse_args(argv)
    prop = args.prop.upper()
    try:
        if args.replay:
            with open(args.replay, encoding="utf-8") as fd:
                rep = json.load(fd)
            print(f"replaying {rep['rule']} on {rep['unit']}: {rep['message']}")
            code = run_property(rep["property"], "quick")
            if code == 0:
                print("no longer violated")
            return code
        return run_property(prop, args.tier)
    except AnalysisError as exc:
        print(f"ANALYSIS-ERROR property={prop}: {exc}")
        return 2
    except Exception:  # pylint: disable=broad-except
        print(f"ANALYSIS-ERROR property={prop}: internal error\n{traceback.format_exc()}")
        return 2


if __name__ == "__main__":
    rc = main()
    try:
        sys.stdout.flush()
    finally:
        if getattr(sys.stdout, "dead", False):
            os._exit(rc)
    sys.exit(rc)
