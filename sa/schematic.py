"""E3 - schematic partial evaluation of interpreter handlers.

A *shape* is written as ordinary Python source (``"a0 < a1 < a2"``).  It is parsed with ``ast`` and turned
into a tree of :class:`NodeV` values whose classes and field shapes are concrete while the operands named
``a<N>`` (expressions), ``s<N>`` (statements) are *leaves*: ``self.aeval(leaf)`` is not followed, it
yields the event ``("eval", leaf)`` and an opaque value.  The handler of ``AstEval`` selected by the
repository's own dispatch formula is then abstractly interpreted on the shape (see absint) and the ordered
events of every path are returned.  The same source is compiled by the host CPython and the order of its
``LOAD_NAME`` instructions is the reference evaluation order.
"""

from __future__ import annotations

import ast
import dis
import re

from .absint import (
    NONE, App, Cfg, ClassV, Const, DictV, ExcV, FuncV, Interp, ListV, NodeV, ObjV, Out, Policy, Sym,
)
from .repo import AnalysisError, Program, const_set, dotted

LEAF_RE = re.compile(r"^[asi]\d+$")
MARKERS = (None, "EvalReturn", "EvalBreak", "EvalContinue")


def is_leaf(v):
    return isinstance(v, NodeV) and v.fields.get("$leaf") is not None


def to_nodev(node, path="arg"):
    """Convert a real ast node into a schematic NodeV tree."""
    if isinstance(node, ast.Name) and LEAF_RE.match(node.id):
        return NodeV("Name", {"$leaf": Const(node.id), "id": Const(node.id), "ctx": NodeV(type(node.ctx).__name__, {}, path + ".ctx")}, node.id)
    if isinstance(node, ast.Expr) and isinstance(node.value, ast.Name) and re.match(r"^s\d+$", node.value.id):
        return NodeV("Expr", {"$leaf": Const(node.value.id), "$stmt": Const(True)}, node.value.id)
    fields = {}
    for name in node._fields:
        val = getattr(node, name, None)
        fields[name] = _conv(val, f"{path}.{name}")
    for name in ("lineno", "col_offset"):
        if hasattr(node, name):
            fields[name] = Const(getattr(node, name))
    return NodeV(type(node).__name__, fields, path)


def _conv(val, path):
    if isinstance(val, ast.AST):
        return to_nodev(val, path)
    if isinstance(val, list):
        return ListV([_conv(v, f"{path}[{i}]") for i, v in enumerate(val)])
    return Const(val)


def shape_expr(src):
    return to_nodev(ast.parse(src, mode="eval").body)


def shape_stmt(src):
    mod = ast.parse(src)
    if len(mod.body) != 1:
        raise ValueError("one statement expected")
    return to_nodev(mod.body[0])


def shape_stmt_in_func(src, kind="FunctionDef"):
    """A statement that only compiles inside a function/loop: return the first statement of kind."""
    mod = ast.parse(src)
    for n in ast.walk(mod):
        if type(n).__name__ == kind:
            return to_nodev(n)
    raise ValueError(kind)


# ----------------------------------------------------------------------
class HandlerPolicy(Policy):
    """Semantics for abstractly interpreting ``AstEval`` / ``EvalFunc`` methods on schematic nodes."""

    inline_depth = 12
    inline_classes = {"AstEval", "EvalFunc", "EvalFuncVar", "EvalAttrSet", "EvalLocalVar", "EvalReturn", "EvalStopFlow"}
    construct_classes = ("EvalAttrSet", "EvalFunc", "EvalFuncVar", "EvalLocalVar")
    loop_unroll = 2
    max_cfgs = 50000
    emit_setitem = True
    emit_getitem = True

    def __init__(self, program: Program, rel="eval.py", raise_at_eval=False, raise_at_call=False, stmt_markers=MARKERS,
                 opaque_methods=("call_func", "log_exception", "get_names", "ast_attribute_collapse", "loopvar_scope_save", "loopvar_scope_restore")):
        super().__init__(program)
        self.rel = rel
        self.raise_at_eval = raise_at_eval
        self.raise_at_call = raise_at_call
        self.stmt_markers = stmt_markers
        self.opaque_methods = set(opaque_methods)
        self.module = program.module(rel)
        self.mod_funcs = {s.name: s for s in self.module.body if isinstance(s, (ast.FunctionDef, ast.AsyncFunctionDef))}
        self.mod_consts = {}
        for s in self.module.body:
            if isinstance(s, ast.Assign) and len(s.targets) == 1 and isinstance(s.targets[0], ast.Name):
                cs = const_set(s.value)
                if cs is not None:
                    self.mod_consts[s.targets[0].id] = Const(frozenset(cs))
                elif isinstance(s.value, (ast.Dict, ast.Call, ast.BinOp, ast.Set, ast.Tuple, ast.List, ast.DictComp, ast.SetComp, ast.ListComp)):
                    # module level lookup table (e.g. operator tables keyed by ast classes) or a set built from other constants
                    sub = Interp(Policy(program), rel)
                    env = {k: (ListV([Const(x) for x in sorted(v.v, key=repr)], "set") if isinstance(v, Const) and isinstance(v.v, frozenset) else v)
                           for k, v in self.mod_consts.items()}
                    try:
                        r = sub.ev(s.value, Cfg(env=env), Out())
                    except AnalysisError:
                        r = []
                    if len(r) == 1:
                        v = r[0][1]
                        if isinstance(v, ListV) and v.kind == "set" and all(isinstance(x, Const) for x in v.items):
                            v = Const(frozenset(x.v for x in v.items))
                        if isinstance(v, (Const, DictV)):
                            self.mod_consts[s.targets[0].id] = v

    # -- names -----------------------------------------------------------
    def global_name(self, name, interp):
        if name in self.program.classes:
            return ClassV(name)
        if name in self.mod_funcs:
            return FuncV(self.mod_funcs[name], name=name)
        if name in self.mod_consts:
            return self.mod_consts[name]
        return None

    # -- calls -----------------------------------------------------------
    def call(self, interp, node, fname, fval, args, kwargs, cfg, out):
        # self.aeval(leaf)  -> event
        if isinstance(fval, FuncV) and fval.name.endswith(".aeval") and args and is_leaf(args[0]):
            leaf = args[0]
            if getattr(self, "snapshot", False) and leaf.fields.get("$stmt") is not None and isinstance(fval.recv, ObjV):
                cfg = cfg.emit(("snapshot", cfg.heap.get(f"{fval.recv.oid}.sym_table")))
                extra = getattr(self, "snapshot_attrs", ())
                if extra:
                    cfg = cfg.emit(("snapshot_attrs", tuple((a, cfg.heap.get(f"{fval.recv.oid}.{a}")) for a in extra)))
            cfg = cfg.emit(("eval", leaf.path))
            if self.raise_at_eval:
                out.add("raise", cfg.set("$exc", ExcV("Exception", f"eval {leaf.path}")))
            if leaf.fields.get("$stmt") is not None:
                return [(cfg, Sym(("val", leaf.path, k))) for k in self.stmt_markers]
            if leaf.path.startswith("i"):
                return [(cfg, ListV([Sym(("item", leaf.path, 0)), Sym(("item", leaf.path, 1))], "list"))]
            return [(cfg, Sym(("val", leaf.path)))]
        if getattr(self, "plain_ast_name", False) and isinstance(fval, FuncV) and fval.name.endswith(".ast_name"):
            pass
        elif isinstance(fval, FuncV) and fval.name.endswith(".ast_name") and args and isinstance(args[0], NodeV) \
                and not is_leaf(args[0]) and isinstance(args[0].fields.get("ctx"), NodeV):
            if args[0].fields["ctx"].cls == "Load" and isinstance(args[0].fields.get("id"), Const):
                name = args[0].fields["id"].v
                return [(cfg.emit(("load", name)), Sym(("var", name)))]
            if args[0].fields["ctx"].cls != "Load":
                return None  # inline: returns the identifier
        if isinstance(fval, FuncV) and fval.recv is not None and not fval.closure:
            rc = fval.recv.cls if isinstance(fval.recv, ObjV) else getattr(fval.recv, "name", None)
            if rc not in self.inline_classes:
                label = fval.name
                cfg = cfg.emit(("call", label, tuple(args), tuple(kwargs.items())))
                return [(cfg, App("res", (Const(label), *args)))]
        if getattr(self, "decorator_unknown", False) and fname and fname.endswith("get_decorator_by_expr"):
            return [(cfg, NONE)]
        if isinstance(fval, FuncV) and fval.name.split(".")[-1] in self.opaque_methods:
            short = fval.name.split(".")[-1]
            cfg = cfg.emit(("call", short, tuple(args), tuple(kwargs.items())))
            if short == "call_func" and self.raise_at_call and args:
                out.add("raise", cfg.set("$exc", ExcV("Exception", f"call {args[0]!r}")))
            return [(cfg, App("res", (Const(short), *args)))]
        if fname == "compile":
            return [(cfg, App("compile", tuple(args[:1])))]
        if fname == "exec" and getattr(self, "exec_havoc", False) and len(args) == 3 and isinstance(args[2], DictV):
            fdef = cfg.env.get("arg")
            if isinstance(fdef, NodeV) and isinstance(fdef.fields.get("name"), Const):
                name = fdef.fields["name"]
                newd = args[2].set(name, Sym(("native", name.v)))
                cfg = interp.store_back(node.args[2], newd, cfg.emit(("exec", name.v)))
                return [(cfg, NONE)]
        if fname == "sys.exc_info":
            return [(cfg, App("excinfo", ()))]
        if isinstance(fval, Sym) and fval.tag[0] == "g" and fval.tag[1].startswith("operator.") and not kwargs:
            op = OPERATOR_FUNCS.get(fval.tag[1][9:])
            if op is not None:
                return [(cfg, App(op, tuple(args)))]
        # ast.X(...) constructors build schematic nodes
        if fname and fname.startswith("ast.") and hasattr(ast, fname[4:]) and isinstance(getattr(ast, fname[4:]), type):
            cls = getattr(ast, fname[4:])
            fields = {}
            for f, a in zip(cls._fields, args):
                fields[f] = a
            fields.update(kwargs)
            path = f"{fname[4:]}({', '.join(_pp(fields.get(f)) for f in cls._fields if f in fields)})"
            return [(cfg, NodeV(fname[4:], fields, path))]
        if fname == "iter" and len(args) == 1 and isinstance(args[0], ListV):
            return [(cfg, ListV(args[0].items, "iter"))]
        if fname in ("int", "float", "abs") and len(args) == 1 and isinstance(args[0], Const) and not kwargs:
            return None  # a conversion of a known constant (`int(any(...))`) is folded by the engine
        if fname in ("any", "all") and len(args) == 1 and isinstance(args[0], ListV) and not kwargs \
                and all(interp.static_truth(x, cfg) is not None for x in args[0].items):
            return None  # decided by the engine: a fold over values whose truth is known
        if fname in ("tuple", "list", "set") and len(args) == 1 and isinstance(args[0], DictV) and not kwargs and not any(isinstance(k, App) for k, _ in args[0].items):
            return None  # the keys of a known dictionary
        if fname in PURE_BUILTINS and not (args and isinstance(args[0], (ListV, Const)) and fname in ("tuple", "list", "set", "reversed", "str", "sorted", "frozenset")):
            if not (fname in ("tuple", "list", "set") and not args):
                return [(cfg, App(fname, (*args, *[App("kw", (Const(k), v)) for k, v in kwargs.items()])))]
        # constructing repository classes: keep as structured application
        if isinstance(fval, ClassV):
            if fval.name in ("EvalReturn", "EvalBreak", "EvalContinue"):
                return [(cfg, App("new", (fval, *args)))]
            if fval.name in self.construct_classes:
                init = interp.lookup_method(fval.name, "__init__")
                if init is not None:
                    self._oid = getattr(self, "_oid", 0) + 1
                    obj = ObjV(f"{fval.name}#{node.lineno}.{self._oid}", fval.name)
                    res = interp.inline(node, FuncV(init, recv=obj, name=f"{fval.name}.__init__"), args, kwargs, cfg, out)
                    return [(c, obj) for c, _ in res]
            if fval.name in ("set", "list", "dict", "tuple", "str", "int", "float", "bool", "type", "frozenset", "bytes", "object"):
                return None
            if fval.name in self.program.classes or fval.name in Interp.BUILTIN_CLASSES:
                return [(cfg, App("new", (fval, *args, *[App("kw", (Const(k), v)) for k, v in sorted(kwargs.items())])))]

        if fname in PURE_BUILTINS and not (args and isinstance(args[0], ListV) and fname in ("tuple", "list", "set", "reversed")):
            if fname in ("tuple", "list", "set") and not args:
                return None
            return [(cfg, App(fname, (*args, *[App("kw", (Const(k), v)) for k, v in sorted(kwargs.items())])))]
        if fname == "setattr" and len(args) == 3:
            return [(cfg.emit(("setattr", args[0], args[1], args[2])), NONE)]
        if fname == "delattr" and len(args) == 2:
            return [(cfg.emit(("delattr", args[0], args[1])), NONE)]
        return None

    def call_raises(self, interp, node, fname, fval, cfg):
        return ()

    def on_store_attr(self, interp, base, attr, val, cfg, node):
        if isinstance(base, NodeV) and base.fields.get("$copy") is None:
            return cfg.emit(("ast_mutation", base.path, attr, getattr(node, "lineno", 0)))
        return cfg

    def await_raises(self, interp, node, cfg):
        return ()

    def resolve(self, interp, fname, fval, cfg):
        return None

    # unknown calls become events so that store/effect order is visible
    def on_unknown_call(self, fname, args):
        return ("call", fname, tuple(args))

    # -- tests -------------------------------------------------------------
    def isinstance(self, interp, val, clsnames, cfg):
        if isinstance(val, Sym) and val.tag and val.tag[0] == "val":
            kind = val.tag[2] if len(val.tag) > 2 else None
            res = False
            for n in clsnames:
                if n in ("EvalStopFlow", "EvalReturn", "EvalBreak", "EvalContinue"):
                    if kind is not None and (n == "EvalStopFlow" or n == kind):
                        res = True
                elif n in ("EvalName", "EvalLocalVar", "EvalAttrSet"):
                    continue
                elif n in ("EvalFunc", "EvalFuncVar"):
                    return None
                else:
                    return None
            return res
        if isinstance(val, App) and val.op == "new" and isinstance(val.args[0], ClassV):
            return any(interp.class_is_sub(val.args[0].name, n) or val.args[0].name == n for n in clsnames)
        if isinstance(val, (App, Sym)) and all(n in ("EvalName", "EvalLocalVar", "EvalAttrSet") for n in clsnames):
            if not (isinstance(val, Sym) and val.tag[0] in ("attr", "g")):
                return False
        return None

    def truth(self, interp, val, cfg):
        if isinstance(val, Sym) and val.tag and val.tag[0] == "val" and len(val.tag) > 2 and val.tag[2] is not None:
            return True
        return None


OPERATOR_FUNCS = {
    "add": "add", "sub": "sub", "mul": "mult", "matmul": "matmult", "truediv": "div", "mod": "mod", "pow": "pow",
    "lshift": "lshift", "rshift": "rshift", "or_": "bitor", "xor": "bitxor", "and_": "bitand", "floordiv": "floordiv",
    "iadd": "iadd", "isub": "isub", "imul": "imult", "imatmul": "imatmult", "itruediv": "idiv", "imod": "imod",
    "ipow": "ipow", "ilshift": "ilshift", "irshift": "irshift", "ior": "ibitor", "ixor": "ibitxor", "iand": "ibitand",
    "ifloordiv": "ifloordiv", "not_": "not", "neg": "usub", "pos": "uadd", "invert": "invert",
    "eq": "eq", "ne": "noteq", "lt": "lt", "le": "lte", "gt": "gt", "ge": "gte", "is_": "is", "is_not": "isnot",
    "contains": "contains", "getitem": "getitem",
}

PURE_BUILTINS = {
    "slice", "tuple", "str", "set", "list", "repr", "ascii", "format", "iter", "reversed", "id", "hex", "sorted",
    "frozenset", "int", "float", "abs", "min", "max", "sum", "any", "all",
}


def _pp(v):
    if isinstance(v, NodeV):
        return v.path
    if isinstance(v, ListV):
        return "[" + ", ".join(_pp(x) for x in v.items) + "]"
    return repr(v)


class EventInterp(Interp):
    """Interp that records every un-inlined call as an event (so effects are ordered with evaluations)."""

    def call(self, node, fname, fval, args, kwargs, cfg, out):
        fname = self.held_name(node, fname, fval, cfg)
        r = self.policy.call(self, node, fname, fval, args, kwargs, cfg, out)
        if r is not None:
            return r
        r = self.builtin_call(node, fname, fval, args, kwargs, cfg, out)
        if r is not None:
            return r
        target = fval if isinstance(fval, FuncV) else self.policy.resolve(self, fname, fval, cfg)
        if isinstance(target, FuncV) and self.depth < self.policy.inline_depth and self.can_inline(target):
            return self.inline(node, target, args, kwargs, cfg, out)
        label = fname
        if isinstance(fval, App) and fval.op == "getattr":
            label = _label(fval)
        elif isinstance(fval, FuncV):
            label = fval.name
        cfg = cfg.emit(("call", label, tuple(args), tuple(kwargs.items())))
        for ex in self.policy.call_raises(self, node, fname, fval, cfg):
            out.add("raise", cfg.set("$exc", ExcV(ex, f"call {label}")))
        if isinstance(fval, ClassV):
            return [(cfg, App("new", (fval, *args)))]
        return [(cfg, App("res", (Const(label), *args, *[App("kw", (Const(k), v)) for k, v in sorted(kwargs.items())])))]


def _label(v):
    if isinstance(v, App) and v.op == "getattr":
        return f"{_label(v.args[0])}.{v.args[1].v}"
    if isinstance(v, Sym):
        if v.tag[0] == "attr":
            return f"{v.tag[1]}.{v.tag[2]}"
        if v.tag[0] == "g":
            return v.tag[1]
    if isinstance(v, ObjV):
        return v.oid
    return repr(v)


# ----------------------------------------------------------------------
MODULE_SCOPE = {
    "self.curr_func": NONE,
    "self.sym_table": DictV(((Const("$symtab"), Const("local")), (Const("x"), Sym(("var", "x"))),
                             (Const("y"), Sym(("var", "y"))), (Const("z"), Sym(("var", "z"))),
                             (Const("__annotations__"), DictV(((Const("$annotations"), Const(True)),))))),
    "self.global_sym_table": DictV(((Const("$symtab"), Const("global")),)),
    "self.local_sym_table": DictV(()),
    "self.sym_table_stack": ListV(()),
    "self.dec_eval_depth": Const(0),
}


def run_handler(program: Program, shape: NodeV, policy: HandlerPolicy | None = None, method=None,
                extra_args=None, cfg=None, heap=None):
    """Abstractly run ``AstEval.aeval(shape)`` (or a named method) -> Out."""
    policy = policy or HandlerPolicy(program)
    interp = EventInterp(policy, "eval.py")
    self_v = ObjV("self", "AstEval")
    if method is None:
        fn = program.func("eval.py::AstEval.aeval")
        args = {"self": self_v, "arg": shape, "undefined_check": Const(True)}
    else:
        fn = program.func(f"eval.py::AstEval.{method}")
        names = [a.arg for a in fn.args.args]
        args = {"self": self_v}
        vals = [shape] + list(extra_args or [])
        for n, v in zip(names[1:], vals):
            args[n] = v
        ndef = len(fn.args.defaults)
        for i, a in enumerate(fn.args.args):
            if a.arg not in args:
                j = i - (len(fn.args.args) - ndef)
                if j >= 0 and isinstance(fn.args.defaults[j], ast.Constant):
                    args[a.arg] = Const(fn.args.defaults[j].value)
    interp.call_stack.append(fn)
    if cfg is None:
        cfg = Cfg(heap=dict(MODULE_SCOPE if heap is None else heap))
    out = interp.run_function(fn, args, cfg)
    return out


def eval_seq(trace):
    return tuple(e[1] for e in trace if e[0] == "eval")


def traces(out: Out, kinds=("return",)):
    res = []
    for k in kinds:
        for c in out.get(k):
            res.append((k, c))
    return res


# ----------------------------------------------------------------------
# CPython reference: order of LOAD_NAME of the leaf names in the compiled probe
# ----------------------------------------------------------------------
def cpython_load_order(src, mode="eval"):
    code = compile(src, "<probe>", mode)
    order = []

    def rec(co):
        for ins in dis.get_instructions(co):
            if ins.opname in ("LOAD_NAME", "LOAD_GLOBAL", "LOAD_FAST", "LOAD_DEREF", "LOAD_FAST_CHECK") and LEAF_RE.match(str(ins.argval)):
                order.append(ins.argval)
            elif ins.opname == "LOAD_FAST_LOAD_FAST":
                for n in ins.argval:
                    if LEAF_RE.match(str(n)):
                        order.append(n)
        for c in co.co_consts:
            if hasattr(c, "co_code"):
                pass  # nested code objects are entered explicitly by callers

    rec(code)
    return order
