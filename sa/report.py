"""E6 - obligations, findings, known-findings handling, evidence and exit protocol."""

from __future__ import annotations

import hashlib
import json
import os
import re
import time

from .repo import PKG_REL, AnalysisError, Program, norm

VERIF = os.path.dirname(os.path.dirname(os.path.abspath(__file__)))
KNOWN_FILE = os.path.join(VERIF, "known_findings.jsonl")
EVID_DIR = os.environ.get("VERIF_EVIDENCE_DIR") or os.path.join(VERIF, "evidence")  # (the override is a development aid for runs against scratch trees)


def _slug(s: str) -> str:
    return re.sub(r"[^A-Za-z0-9_.-]+", "_", s)[:80]


class Finding:
    def __init__(self, rule, unit, key, msg, rel=None, line=0, detail=None):
        self.rule = rule
        self.unit = unit
        self.key = key  # normalised construct text: line-number free
        self.msg = msg
        self.rel = rel
        self.line = line
        self.detail = detail or {}

    @property
    def ident(self):
        return f"{self.rule}|{self.unit}|{self.key}"

    def as_dict(self, prop):
        return {
            "property": prop,
            "rule": self.rule,
            "unit": self.unit,
            "key": self.key,
            "where": f"{PKG_REL}/{self.rel}:{self.line}" if self.rel else None,
            "message": self.msg,
            "detail": self.detail,
        }


class Ctx:
    """Collects obligations for one property run."""

    def __init__(self, prop: str, tier: str, program: Program | None = None):
        self.prop = prop
        self.tier = tier
        self.t0 = time.time()
        self.program = program or Program()
        self.obligations = 0
        self.discharged = 0
        self.findings: list[Finding] = []
        self.samples: list = []
        self.nontrivial: set = set()
        self.rules: dict[str, dict] = {}
        self.notes: list[str] = []
        self.skipped: list[str] = []
        self.assumptions: list[str] = [
            "exceptional exits are modelled at awaits, raises and calls outside a reviewed no-raise table; "
            "memory errors and signals are ignored",
            "dynamic dispatch is limited to the getattr(self, '<prefix>'+cls) families of the interpreter, "
            "resolved exactly; monkey patching is ignored",
            "third-party semantics (Home Assistant, croniter, asyncio, voluptuous) are trusted",
            "decides the structural clauses named in coverage.explanation, not the run-time behaviour as a whole",
        ]
        self.extra: dict = {}

    # -- obligations ----------------------------------------------------
    def rule(self, rid: str, text: str, floor: int = 0):
        self.rules[rid] = {"text": text, "floor": floor, "instances": 0, "violations": 0}

    def ok(self, rid, unit, what, node=None, rel=None, nontrivial=True, sample=None):
        self._count(rid, unit, what, nontrivial)
        self.discharged += 1
        if sample is not None or len(self.samples) < 400:
            self.samples.append(
                {"rule": rid, "unit": unit, "obligation": what, "verdict": "holds",
                 **({"facts": sample} if sample is not None else {}),
                 **({"where": self._where(rel, node)} if node is not None and rel else {})}
            )

    def fail(self, rid, unit, key, msg, node=None, rel=None, detail=None):
        self._count(rid, unit, key, True)
        self.rules[rid]["violations"] += 1
        line = getattr(node, "lineno", 0) if node is not None else 0
        if rel is None and unit and "::" in unit:
            rel = unit.split("::")[0]
        f = Finding(rid, unit, key, msg, rel=rel, line=line, detail=detail)
        self.findings.append(f)
        self.samples.append(
            {"rule": rid, "unit": unit, "obligation": key, "verdict": "VIOLATED", "message": msg,
             "where": self._where(rel, node)}
        )

    def check(self, cond, rid, unit, what, msg=None, node=None, rel=None, key=None, detail=None, sample=None):
        if cond:
            self.ok(rid, unit, what, node=node, rel=rel, sample=sample)
        else:
            self.fail(rid, unit, key or what, msg or f"obligation not met: {what}", node=node, rel=rel, detail=detail)
        return bool(cond)

    def skip(self, rid, unit, why):
        self.skipped.append(f"{rid} {unit}: {why}")

    def note(self, text):
        self.notes.append(text)

    def _where(self, rel, node):
        if rel is None:
            return None
        return f"{PKG_REL}/{rel}:{getattr(node, 'lineno', 0) if node is not None else 0}"

    def _count(self, rid, unit, what, nontrivial):
        if rid not in self.rules:
            self.rules[rid] = {"text": "", "floor": 0, "instances": 0, "violations": 0}
        self.rules[rid]["instances"] += 1
        self.obligations += 1
        if nontrivial:
            self.nontrivial.add((rid, unit, what))

    def floors(self):
        for rid, info in self.rules.items():
            if info["instances"] < info["floor"]:
                raise AnalysisError(
                    f"rule {rid} matched {info['instances']} instances, below the floor {info['floor']} "
                    f"confirmed by hand - the rule would pass vacuously"
                )


# ----------------------------------------------------------------------
def load_known():
    entries = []
    if os.path.exists(KNOWN_FILE):
        with open(KNOWN_FILE, encoding="utf-8") as fd:
            for ln in fd:
                ln = ln.strip()
                if ln.startswith("{"):  # '#' comments and 'fixed: property=... <commit> <what>' lines suppress nothing
                    entries.append(json.loads(ln))
    return entries


def finish(ctx: Ctx, explanation: str, level: str = "other", seed: int = 0) -> int:
    """Write evidence, print KNOWN-FINDING / VIOLATION lines, return exit code."""
    ctx.floors()
    known = [e for e in load_known() if e.get("property") == ctx.prop and e.get("status") == "known"]
    known_ids = {f"{e['rule']}|{e['unit']}|{e['key']}": e for e in known}
    new, listed = [], []
    for f in ctx.findings:
        (listed if f.ident in known_ids else new).append(f)
    os.makedirs(os.path.join(EVID_DIR, "replay"), exist_ok=True)
    seen = set()
    for f in listed:
        if f.ident in seen:
            continue
        seen.add(f.ident)
        e = known_ids[f.ident]
        print(f"KNOWN-FINDING: property={ctx.prop} {f.rule} {f.unit}: {e.get('what', f.msg)}")
    code = 0
    for f in new:
        code = 1
        h = hashlib.sha1(f.ident.encode()).hexdigest()[:10]
        path = os.path.join(EVID_DIR, "replay", f"{ctx.prop}-{_slug(f.rule)}-{h}.json")
        with open(path, "w", encoding="utf-8") as fd:
            json.dump(f.as_dict(ctx.prop), fd, indent=1)
        where = f"{PKG_REL}/{f.rel}:{f.line}" if f.rel else "?"
        print(f"{where}: [{f.rule}] {f.unit}: {f.msg}")
        print(f"VIOLATION property={ctx.prop} replay={path}")
    stale = [k for k in known_ids if k not in {f.ident for f in ctx.findings}]
    for k in stale:
        ctx.note(f"known finding no longer reported (repaired or construct changed): {k}")
        print(f"NOTE: property={ctx.prop} listed known finding not reproduced: {k}")
    stats = ctx.program.stats()
    evidence = {
        "property_id": ctx.prop,
        "tier": ctx.tier,
        "seed": seed,
        "level": level,
        "coverage": {
            "explanation": explanation,
            "obligations": ctx.obligations,
            "discharged": ctx.discharged,
            "evaluations": ctx.obligations,
            "distinct_nontrivial": len(ctx.nontrivial),
            "rule": "one evaluation per rule instance (site/unit/valuation/path) found in /repo's current source; "
            "an instance is non-trivial when the construct it constrains exists in the unit (not a vacuous match); "
            "distinct = distinct (rule, unit, construct) triples",
            "rules": ctx.rules,
            "samples": ctx.samples[:120],
            "units_analysed": stats,
            "functions_consulted": ctx.program.consulted(),
            "skipped_instances": ctx.skipped,
            "known_findings_reported": sorted(seen),
            "new_violations": [f.as_dict(ctx.prop) for f in new],
            "notes": ctx.notes,
            "exhaustive": False,
            "checker_cmd": f"/verif/check {ctx.prop} --tier {ctx.tier}",
            "trusted_base": ["CPython ast/compile/dis/symtable of /venv/bin/python", "the reference tables in /verif/sa/rules"],
            **ctx.extra,
        },
        "assumptions": ctx.assumptions,
        "wall_s": round(time.time() - ctx.t0, 3),
        "violations": len(new),
    }
    with open(os.path.join(EVID_DIR, f"{ctx.prop}.json"), "w", encoding="utf-8") as fd:
        json.dump(evidence, fd, indent=1, default=str)
    nviol = len(new)
    print(
        f"{ctx.prop}: {ctx.obligations} obligations, {ctx.discharged} discharged, "
        f"{len(listed)} known, {nviol} new violations, {len(ctx.skipped)} skipped, "
        f"{stats['functions']} functions in {stats['modules']} modules, {evidence['wall_s']}s"
    )
    return code
