"""E7 - the checker tested both ways (thorough tier).

For the property under check, every *breaking* case (the independently seeded changes kept under /verif/seeded plus hand-written
single-instance breaks) is applied to a scratch copy of the package and the property's rules must report a new violation;
every *benign* case (behaviour-preserving rewrite of a construct the rules look at) must leave the rules silent.
A self-test failure means the checker is broken: ANALYSIS-ERROR (exit 2), never a violation of the property.
Scratch copies live under $TMPDIR (outside /repo and /verif) and are removed immediately.
"""

from __future__ import annotations

import glob
import importlib
import json
import os
import shutil
import subprocess
import tempfile

from .repo import PKG_REL, AnalysisError, Program, repo_root
from .report import Ctx, load_known

VERIF = os.path.dirname(os.path.dirname(os.path.abspath(__file__)))

# hand-written cases: (property, kind, label, relative file, old text, new text)
CASES = [
    # ---- breaking (one instance broken; must fire) --------------------------------------------------------------------
    ("C01", "break", "sub operands swapped", "eval.py", "return (await self.aeval(arg0)) - (await self.aeval(arg1))", "return (await self.aeval(arg1)) - (await self.aeval(arg0))"),
    ("C01", "break", "<= implemented as <", "eval.py", "return (await self.aeval(arg0)) <= (await self.aeval(arg1))", "return (await self.aeval(arg0)) < (await self.aeval(arg1))"),
    ("C01", "break", "slice step ignored", "eval.py", "step = (await self.aeval(arg.step)) if arg.step else None", "step = None"),
    ("C01", "break", "subscript index before value", "eval.py", "        var = await self.aeval(arg.value)\n        if isinstance(arg.ctx, ast.Load):\n            return var[await self.aeval(arg.slice)]",
     "        idx = await self.aeval(arg.slice)\n        var = await self.aeval(arg.value)\n        if isinstance(arg.ctx, ast.Load):\n            return var[idx]"),
    ("C02", "break", "if-else branch drops markers", "eval.py", "            for arg1 in arg.orelse:\n                val = await self.aeval(arg1)\n                if isinstance(val, EvalStopFlow):\n                    return val\n        return val",
     "            for arg1 in arg.orelse:\n                val = await self.aeval(arg1)\n        return val"),
    ("C02", "break", "if branches swapped", "eval.py", "        if await self.aeval(arg.test):\n            for arg1 in arg.body:", "        if not await self.aeval(arg.test):\n            for arg1 in arg.body:"),
    ("C03", "break", "curr_func not restored", "eval.py", "            ast_ctx.curr_func = prev_func\n", "            pass\n"),
    ("C03", "break", "With no longer binds locals", "eval.py", 'elif cls_name in {"With", "AsyncWith"}:', 'elif cls_name in {"AsyncWith"}:'),
    ("C06", "break", "cron candidate selected with >", "trigger.py", "if next_time is None or val < next_time:", "if next_time is None or val > next_time:"),
    ("C07", "break", "window end exclusive", "trigger.py", "this_match = start <= now <= end", "this_match = start <= now < end"),
    ("C09", "break", "TrigInfo.stop forgets the event subscription", "trigger.py", "            if self.event_trigger is not None:\n                Event.notify_del(self.event_trigger[0], self.notify_q)\n            if self.mqtt_trigger is not None:\n                Mqtt.notify_del(self.mqtt_trigger[0], self.notify_q)\n            if self.webhook_trigger is not None:\n                Webhook.notify_del(self.webhook_trigger[0], self.notify_q)\n            if self.task:",
     "            if self.mqtt_trigger is not None:\n                Mqtt.notify_del(self.mqtt_trigger[0], self.notify_q)\n            if self.webhook_trigger is not None:\n                Webhook.notify_del(self.webhook_trigger[0], self.notify_q)\n            if self.task:"),
    ("C11", "break", "evaluator context written from trigger code", "trigger.py", "        Function.install_ast_funcs(action_ast_ctx)\n        task_unique_func = None", "        Function.install_ast_funcs(action_ast_ctx)\n        action_ast_ctx.global_ctx = self.global_ctx\n        task_unique_func = None"),
    ("C12", "break", "service removed when count is still 1 owner short", "function.py", "if cls.service_cnt.get(key, 0) > 1:", "if cls.service_cnt.get(key, 0) > 0:"),
    ("C13", "break", "other tasks cancelled without our_tasks test", "function.py", "elif task != curr_task and task in cls.our_tasks:", "elif task != curr_task:"),
    ("C14", "break", "task context not forgotten", "function.py", "                cls.task2context.pop(task, None)\n", ""),
    ("C15", "break", "mqtt subscription not released", "trigger.py", "            if mqtt_trigger is not None:\n                Mqtt.notify_del(mqtt_trigger[0], notify_q)\n", ""),
    ("C16", "break", "kwargs merged into HA's mapping without copy", "state.py", "            new_attributes = new_attributes.copy()\n            new_attributes.update(kwargs)", "            new_attributes.update(kwargs)"),
    ("C17", "break", "allow-list checked on the top-level package only", "eval.py", "and imp.name not in ALLOWED_IMPORTS", 'and imp.name.split(".")[0] not in ALLOWED_IMPORTS'),
    ("C18", "break", "trigger function call unprotected (legacy)", "trigger.py", "            try:\n                await ast_ctx.call_func(func, None, **kwargs)\n            except Exception as e:\n                ast_ctx.log_exception(e)", "            await ast_ctx.call_func(func, None, **kwargs)"),
    ("C19", "break", "short frame form used for 256 bytes", "jupyter_kernel.py", "            if len_part <= 255:", "            if len_part <= 256:"),
    ("C19", "break", "signature check returns early", "jupyter_kernel.py", "        check_sig = self.msg_sign(msg_frames)\n        if check_sig != m_signature:", "        return identities, msg\n        check_sig = self.msg_sign(msg_frames)\n        if check_sig != m_signature:"),
    ("C20", "break", "foreign package reinstalled", "requirements.py", "            elif package in pyscript_installed_packages and Version(version_to_install) != Version(\n                pkg_installed_version\n            ):", "            elif Version(version_to_install) != Version(\n                pkg_installed_version\n            ):"),
    ("C08", "break", "mqtt un-subscribe handle dropped uncalled", "mqtt.py", "            cls.notify_remove[topic]()\n", ""),
    ("C10", "break", "app_config exposed without a copy", "global_ctx.py", 'self.global_sym_table["pyscript.app_config"] = app_config.copy()', 'self.global_sym_table["pyscript.app_config"] = app_config'),
    ("C11", "break", "set_global_ctx forgets the scope stack", "eval.py", "        if len(self.sym_table_stack) > 0:\n            self.sym_table_stack[0] = self.global_sym_table\n", ""),
    ("C13", "break", "name claimed by tasks pyscript did not start", "function.py", "            if curr_task in cls.our_tasks:\n                if name in cls.unique_name2task:", "            if True:\n                if name in cls.unique_name2task:"),
    ("C14", "break", "task.cancel no longer checks our_tasks", "function.py", "        if task not in cls.our_tasks:\n            raise TypeError(f\"{task} is not a user-started task\")\n        cls.reaper_cancel(task)", "        cls.reaper_cancel(task)"),
    ("C07", "break", "state_active returns the raw value", "decorators/state.py", "return bool(await self.check_expression_vars(active_vars))", "return await self.check_expression_vars(active_vars)"),
    ("C06", "break", "wake-up re-check against the adjusted target", "decorators/timing.py", "timeout = (time_next - now).total_seconds()", "timeout = (time_next_adj - now).total_seconds()"),
    ("C09", "break", "failed decorator set not rolled back", "eval.py", "                    self.log_exception(e)\n                    # release services registered before the decorators failed\n                    func.trigger_stop()\n", "                    self.log_exception(e)\n"),
    ("C12", "break", "wrong-typed option dropped (service.call)", "function.py", "            if keyword in kwargs and type(kwargs[keyword]) in typ:\n                hass_args[keyword] = kwargs.pop(keyword)\n            elif default:\n                hass_args[keyword] = default\n\n        return await cls.hass_services_async_call(domain, name, kwargs, **hass_args)",
     "            value = kwargs.pop(keyword, default)\n            if type(value) in typ:\n                hass_args[keyword] = value\n\n        return await cls.hass_services_async_call(domain, name, kwargs, **hass_args)"),
    ("C15", "break", "start loop over a snapshot", "decorator_abc.py", "        for decorator in self._decorators:\n            _LOGGER.debug(\"Starting decorator: %s\", decorator)", "        for decorator in list(self._decorators):\n            _LOGGER.debug(\"Starting decorator: %s\", decorator)"),
    ("C17", "break", "single-file candidate uses the dotted name", "global_ctx.py", '                    f"modules/{module_path}.py",\n', '                    f"modules/{module_name}.py",\n'),
    ("C19", "break", "closed subscriber kept", "jupyter_kernel.py", "            self.iopub_socket.discard(iopub_socket)\n", ""),
    ("C20", "break", "record edited in place", "requirements.py", "config_entry.data.get(CONF_INSTALLED_PACKAGES, {}).copy()", "config_entry.data.get(CONF_INSTALLED_PACKAGES, {})"),
    # ---- benign (behaviour preserving; must stay silent) -----------------------------------------------------------------
    ("C01", "benign", "operands bound to locals first", "eval.py", "        return (await self.aeval(arg0)) - (await self.aeval(arg1))", "        lhs = await self.aeval(arg0)\n        rhs = await self.aeval(arg1)\n        return lhs - rhs"),
    ("C02", "benign", "negated test with swapped branches", "eval.py", "        return await self.aeval(arg.body) if (await self.aeval(arg.test)) else await self.aeval(arg.orelse)", "        return await self.aeval(arg.orelse) if not (await self.aeval(arg.test)) else await self.aeval(arg.body)"),
    ("C03", "benign", "restores reordered", "eval.py", "            ast_ctx.curr_func = prev_func\n            ast_ctx.user_locals = save_user_locals\n", "            ast_ctx.user_locals = save_user_locals\n            ast_ctx.curr_func = prev_func\n"),
    ("C06", "benign", "candidate comparison written as not >=", "trigger.py", "if next_time is None or val < next_time:", "if next_time is None or not (val >= next_time):"),
    ("C07", "benign", "window comparison mirrored", "trigger.py", "this_match = start <= now <= end", "this_match = end >= now >= start"),
    ("C12", "benign", "count test written as >= 2", "function.py", "if cls.service_cnt.get(key, 0) > 1:", "if cls.service_cnt.get(key, 0) >= 2:"),
    ("C13", "benign", "guard order swapped", "function.py", "elif task != curr_task and task in cls.our_tasks:", "elif task in cls.our_tasks and task != curr_task:"),
    ("C14", "benign", "context removed with del under a membership test", "function.py", "                cls.task2context.pop(task, None)\n", "                if task in cls.task2context:\n                    cls.task2context.pop(task)\n"),
    ("C15", "benign", "early return inside the try/finally", "trigger.py", "                    if time_left <= 0:\n                        ret = {\"trigger_type\": \"timeout\"}\n                        break", "                    if time_left <= 0:\n                        return {\"trigger_type\": \"timeout\"}"),
    ("C16", "benign", "copy written as dict()", "state.py", "            new_attributes = new_attributes.copy()\n            new_attributes.update(kwargs)", "            new_attributes = dict(new_attributes)\n            new_attributes.update(kwargs)"),
    ("C19", "benign", "threshold written as < 256", "jupyter_kernel.py", "            if len_part <= 255:", "            if len_part < 256:"),
    ("C08", "benign", "handle popped and called", "event.py", "            cls.notify_remove[event_type]()\n            _LOGGER.debug(\"event.notify_del(%s) -> removing event listener\", event_type)\n            del cls.notify[event_type]\n            del cls.notify_remove[event_type]",
     "            cls.notify_remove.pop(event_type)()\n            _LOGGER.debug(\"event.notify_del(%s) -> removing event listener\", event_type)\n            del cls.notify[event_type]"),
    ("C10", "benign", "copy written as dict()", "global_ctx.py", 'self.global_sym_table["pyscript.app_config"] = app_config.copy()', 'self.global_sym_table["pyscript.app_config"] = dict(app_config)'),
    ("C11", "benign", "set_global_ctx branches merged", "eval.py", "        if self.sym_table == self.global_sym_table:\n            self.global_sym_table = global_ctx.get_global_sym_table()\n            self.sym_table = self.global_sym_table\n        else:\n            self.global_sym_table = global_ctx.get_global_sym_table()",
     "        at_top = self.sym_table == self.global_sym_table\n        self.global_sym_table = global_ctx.get_global_sym_table()\n        if at_top:\n            self.sym_table = self.global_sym_table"),
    ("C13", "benign", "claim written with setdefault", "function.py", "                if curr_task not in cls.unique_task2name:\n                    cls.unique_task2name[curr_task] = set()\n                cls.unique_task2name[curr_task].add(name)", "                cls.unique_task2name.setdefault(curr_task, set()).add(name)"),
    ("C14", "benign", "task.cancel guard written positively", "function.py", "        if task not in cls.our_tasks:\n            raise TypeError(f\"{task} is not a user-started task\")\n        cls.reaper_cancel(task)", "        if task in cls.our_tasks:\n            cls.reaper_cancel(task)\n        else:\n            raise TypeError(f\"{task} is not a user-started task\")"),
    ("C07", "benign", "state_active truth written as not not", "decorators/state.py", "return bool(await self.check_expression_vars(active_vars))", "return not not (await self.check_expression_vars(active_vars))"),
    ("C15", "benign", "start loop over a snapshot with a status check", "decorator_abc.py", "        for decorator in self._decorators:\n            _LOGGER.debug(\"Starting decorator: %s\", decorator)", "        for decorator in list(self._decorators):\n            if self.status is not DecoratorManagerStatus.RUNNING:\n                break\n            _LOGGER.debug(\"Starting decorator: %s\", decorator)"),
    ("C19", "benign", "closed subscriber removed with remove()", "jupyter_kernel.py", "            self.iopub_socket.discard(iopub_socket)\n", "            if iopub_socket in self.iopub_socket:\n                self.iopub_socket.remove(iopub_socket)\n"),
    ("C20", "benign", "record copied with dict()", "requirements.py", "config_entry.data.get(CONF_INSTALLED_PACKAGES, {}).copy()", "dict(config_entry.data.get(CONF_INSTALLED_PACKAGES, {}))"),
    ("C12", "benign", "split test written with isinstance-free membership swapped", "function.py", "            if keyword in kwargs and type(kwargs[keyword]) in typ:\n                hass_args[keyword] = kwargs.pop(keyword)\n            elif default:\n                hass_args[keyword] = default\n\n        return await cls.hass_services_async_call(domain, name, kwargs, **hass_args)",
     "            if type(kwargs.get(keyword)) in typ and keyword in kwargs:\n                hass_args[keyword] = kwargs.pop(keyword)\n            elif default:\n                hass_args[keyword] = default\n\n        return await cls.hass_services_async_call(domain, name, kwargs, **hass_args)"),
    ("C20", "benign", "comparison sides swapped", "requirements.py", "                elif Version(current_pinned_version) < Version(new_version):", "                elif Version(new_version) > Version(current_pinned_version):"),
    # ---- round 4: breaks of the new rules -----------------------------------------------------------------------------
    ("C01", "break", "iteration errors converted to TypeError again", "eval.py", "            except TypeError:\n                raise TypeError(\"cannot unpack non-iterable object\")  # pylint: disable=raise-missing-from\n            # an exception raised while iterating belongs to the script and propagates unchanged\n            vals = [*val_iter]",
     "                vals = [*val_iter]\n            except Exception:\n                raise TypeError(\"cannot unpack non-iterable object\")  # pylint: disable=raise-missing-from"),
    ("C03", "break", "declarations no longer static", "eval.py", "        self.global_names = set(global_names)\n        self.nonlocal_names = set(nonlocal_names)\n", ""),
    ("C05", "break", "start-up check subject to state_hold_false again", "decorators/state.py", "await self._check_new_state(trig_ok, startup=True)", "await self._check_new_state(trig_ok)"),
    ("C06", "break", "start-up time reset inside the wait loop", "trigger.py", "            startup_time = None\n            while True:\n                ret = None\n", "            while True:\n                startup_time = None\n                ret = None\n"),
    ("C07", "break", "trigger_time taken from any trigger type", "decorators/timing.py", "if data.func_args.get(\"trigger_type\") == \"time\" and isinstance(", "if isinstance("),
    ("C08", "break", "filter evaluations no longer serialised", "decorators/base.py", "            async with self._eval_lock:\n                return await self._ast_expression.eval(state_vars)", "            return await self._ast_expression.eval(state_vars)"),
    ("C09", "break", "watch set aliased", "trigger.py", "self.state_trig_ident = set(self.state_user_watch)", "self.state_trig_ident = self.state_user_watch"),
    ("C12", "break", "registration keyed by spelling", "function.py", "        # Home Assistant lower-cases service names: every spelling is the same service\n        key = f\"{domain}.{service}\".lower()", "        key = f\"{domain}.{service}\""),
    ("C13", "break", "context and name joined by a dot", "function.py", "return f\"{ctx.get_global_ctx_name()}/{name}\"", "return f\"{ctx.get_global_ctx_name()}.{name}\""),
    ("C14", "break", "service run started without its evaluator", "decorators/service.py", "func_args), ast_ctx=ast_ctx)", "func_args))"),
    ("C15", "break", "timeout=0 treated as no timeout", "decorator.py", "if (timeout := kwargs.get(\"timeout\")) is not None:", "if timeout := kwargs.get(\"timeout\"):"),
    ("C16", "break", "attribute with a false value cannot be deleted", "state.py", "            if parts[2] not in new_attr:", "            if not new_attr.get(parts[2]):"),
    ("C17", "break", "expression scope starts empty", "eval.py", "self.local_sym_table = self.local_sym_table_base.copy()", "self.local_sym_table = {}"),
    ("C19", "break", "broadcast walks the live subscriber set", "jupyter_kernel.py", "for this_stream in list(stream) if isinstance(stream, set) else [stream]:", "for this_stream in stream if isinstance(stream, set) else [stream]:"),
    ("C20", "break", "package name not stripped", "requirements.py", "pkg_name = parts[0].strip()", "pkg_name = parts[0]"),
    ("C11", "break", "done callback keeps the file-level evaluator", "trigger.py", "Function.task_add_done_callback(task, None, callback, *args, **kwargs)", "Function.task_add_done_callback(task, callback.get_ast_ctx() if type(callback) is EvalFuncVar else None, callback, *args, **kwargs)"),
    ("C10", "break", "flag comparison forgets to refresh", "__init__.py", "        old_entry = hass.data[DOMAIN][CONFIG_ENTRY_OLD]\n        hass.data[DOMAIN][CONFIG_ENTRY_OLD] = config_save\n", "        old_entry = hass.data[DOMAIN][CONFIG_ENTRY_OLD]\n"),
    ("C18", "break", "frame position read from the frame object", "eval.py", "            target = tb.tb_lasti // 2", "            target = frame.f_lasti // 2"),
    ("C04", "break", "method names compared as attributes again", "trigger.py", "            if callable(new_attr) or callable(old_attr):", "            if False:"),
    ("C02", "break", "handler name deleted unconditionally", "eval.py", "                                self.sym_table.pop(handler.name, None)", "                                del self.sym_table[handler.name]"),
    # ---- round 4: behaviour-preserving twins ----------------------------------------------------------------------------
    ("C01", "benign", "non-iterable error raised with from None", "eval.py", "                raise TypeError(\"cannot unpack non-iterable object\")  # pylint: disable=raise-missing-from\n            # an exception raised while iterating", "                raise TypeError(\"cannot unpack non-iterable object\") from None\n            # an exception raised while iterating"),
    ("C08", "benign", "lock taken through a local alias", "decorators/base.py", "            async with self._eval_lock:\n                return await self._ast_expression.eval(state_vars)", "            lock = self._eval_lock\n            async with lock:\n                return await self._ast_expression.eval(state_vars)"),
    ("C12", "benign", "names lower-cased one by one", "function.py", "        # Home Assistant lower-cases service names: every spelling is the same service\n        key = f\"{domain}.{service}\".lower()", "        key = f\"{domain.lower()}.{service.lower()}\""),
    ("C13", "benign", "another separator that no context name contains", "function.py", "return f\"{ctx.get_global_ctx_name()}/{name}\"", "return f\"{ctx.get_global_ctx_name()}|{name}\""),
    ("C14", "benign", "evaluator registered after the task is created", "decorators/service.py", "        task = Function.create_task(do_service_call(self.dm.eval_func, ast_ctx, func_args), ast_ctx=ast_ctx)\n", "        task = Function.create_task(do_service_call(self.dm.eval_func, ast_ctx, func_args))\n        Function.task_done_callback_ctx(task, ast_ctx)\n"),
    ("C15", "benign", "timeout test without the walrus", "decorator.py", "        if (timeout := kwargs.get(\"timeout\")) is not None:", "        timeout = kwargs.get(\"timeout\")\n        if timeout is not None:"),
    ("C17", "benign", "base table copied with dict()", "eval.py", "self.local_sym_table = self.local_sym_table_base.copy()", "self.local_sym_table = dict(self.local_sym_table_base)"),
    ("C19", "benign", "snapshot taken as a tuple", "jupyter_kernel.py", "for this_stream in list(stream) if isinstance(stream, set) else [stream]:", "for this_stream in tuple(stream) if isinstance(stream, set) else (stream,):"),
    ("C09", "benign", "watch set copied through a list", "trigger.py", "self.state_trig_ident = set(self.state_user_watch)", "self.state_trig_ident = set(list(self.state_user_watch))"),
    ("C07", "benign", "occurrence-time test with the type checked first", "decorators/timing.py", "            if data.func_args.get(\"trigger_type\") == \"time\" and isinstance(\n                data.func_args.get(\"trigger_time\"), dt.datetime\n            ):", "            if isinstance(data.func_args.get(\"trigger_time\"), dt.datetime) and data.func_args.get(\"trigger_type\") == \"time\":"),
    ("C16", "benign", "absence test written with keys()", "state.py", "            if parts[2] not in new_attr:", "            if parts[2] not in new_attr.keys():"),
    # rounds 5/6 rules
    ("C01", "break", "unpack serves targets from the assigned object when it is a tuple", "eval.py", "            vals = [*val_iter]", "            vals = val if isinstance(val, tuple) else [*val_iter]"),
    ("C01", "benign", "unpack snapshot written with list()", "eval.py", "            vals = [*val_iter]", "            vals = list(val_iter)"),
    ("C02", "break", "non-manager reported as AttributeError again", "eval.py", "        except AttributeError as exc:\n            protocol =", "        except KeyError as exc:\n            protocol ="),
    ("C03", "break", "call_func takes func by keyword again", "eval.py", "    async def call_func(self, func, func_name, /, *args, **kwargs):", "    async def call_func(self, func, func_name, *args, **kwargs):"),
    ("C04", "break", "four-part old names dropped from the subscription", "state.py", "            if len(parts) != 2 and len(parts) != 3 and not (len(parts) == 4 and parts[2] == \"old\"):\n                # (DOMAIN", "            if len(parts) != 2 and len(parts) != 3:\n                # (DOMAIN"),
    ("C05", "break", "any-change matches gated by hold_false again", "decorators/state.py", "                await self._check_new_state(trig_ok, any_change=any_change)", "                await self._check_new_state(trig_ok)"),
    ("C08", "break", "event data merged over the trigger's own arguments", "event.py", "        func_args = {\n            **event.data,\n            \"trigger_type\": \"event\",\n            \"event_type\": event.event_type,\n            \"context\": event.context,\n        }", "        func_args = {\n            \"trigger_type\": \"event\",\n            \"event_type\": event.event_type,\n            \"context\": event.context,\n            **event.data,\n        }"),
    ("C09", "break", "trigger task error path runs stop()", "trigger.py", "            if self.state_trig_ident:\n                State.notify_del(self.state_trig_ident, self.notify_q)\n            if self.event_trigger is not None:\n                Event.notify_del(self.event_trigger[0], self.notify_q)\n            if self.mqtt_trigger is not None:\n                Mqtt.notify_del(self.mqtt_trigger[0], self.notify_q)\n            if self.webhook_trigger is not None:\n                Webhook.notify_del(self.webhook_trigger[0], self.notify_q)\n            return", "            self.stop()\n            return"),
    ("C10", "break", "closure search stops at the first level", "__init__.py", "                    if imp_name not in reached:\n                        reached.add(imp_name)\n                        todo.append(imp_name)", "                    if imp_name not in reached:\n                        reached.add(imp_name)"),
    ("C11", "break", "star import ignores __all__ again", "eval.py", "                star_names = mod.__dict__.get(\"__all__\")\n                if star_names is None:\n", "                star_names = None\n                if star_names is None:\n"),
    ("C12", "break", "built-in service names compared case-sensitively (new subsystem)", "decorators/service.py", "        if any(name.lower() in (SERVICE_RELOAD, SERVICE_JUPYTER_KERNEL_START) for _, name in self.services):", "        if any(name in (SERVICE_RELOAD, SERVICE_JUPYTER_KERNEL_START) for _, name in self.services):"),
    ("C13", "break", "kill_me cancels a foreign caller again", "function.py", "                    if task != curr_task and curr_task in cls.our_tasks:", "                    if task != curr_task:"),
    ("C14", "break", "waiter gathers without return_exceptions", "function.py", "                            await asyncio.gather(*aws, return_exceptions=True)", "                            await asyncio.gather(*aws)"),
    ("C14", "benign", "waiter collects with asyncio.wait", "function.py", "                            await asyncio.gather(*aws, return_exceptions=True)", "                            await asyncio.wait(aws)"),
    ("C15", "break", "shutdown word active inside a wait", "decorators/timing.py", "            self.run_on_shutdown = for_function", "            self.run_on_shutdown = True"),
    ("C16", "break", "state lookup before the function lookup", "eval.py", "            if Function.get(arg.id):\n                return Function.get(arg.id)\n            num_dots = arg.id.count(\".\")", "            num_dots = arg.id.count(\".\")\n            if num_dots == 1 and State.exist(arg.id):\n                return State.get(arg.id)\n            if Function.get(arg.id):\n                return Function.get(arg.id)"),
    ("C17", "break", "relative import falls back to installed modules", "eval.py", "        if not mod and arg.level > 0:\n", "        if not mod and arg.level > 9:\n"),
    ("C18", "break", "formatter fails on a SyntaxError without offset", "eval.py", "                    self.col_offset = (self.exc.offset or 1) - 1", "                    self.col_offset = self.exc.offset - 1"),
    ("C19", "break", "error path sends idle without flushing stdout", "jupyter_kernel.py", "                # what the cell printed before it failed is sent before idle, as for a cell that succeeds\n                await self.flush_stdout()\n", ""),
    ("C20", "break", "requirement files read without BOM handling", "requirements.py", "encoding=\"utf-8-sig\"", "encoding=\"utf-8\""),
    ("C20", "benign", "blank-stripping written as lstrip/rstrip", "requirements.py", "pkg_name = parts[0].strip()", "pkg_name = parts[0].lstrip().rstrip()"),
]


def _scratch():
    root = tempfile.mkdtemp(prefix="pyscript-verif-")
    dst = os.path.join(root, PKG_REL)
    shutil.copytree(os.path.join(repo_root(), PKG_REL), dst, ignore=shutil.ignore_patterns("__pycache__"))
    return root


def _new_violations(prop, root):
    mod = importlib.import_module(f"sa.rules.{prop.lower()}")
    old = os.environ.get("VERIF_REPO")
    os.environ["VERIF_REPO"] = root
    try:
        if hasattr(mod, "_PROGRAM"):
            mod._PROGRAM = None
        ctx = Ctx(prop, "quick", Program(root))
        mod.run(ctx)
    finally:
        if old is None:
            os.environ.pop("VERIF_REPO", None)
        else:
            os.environ["VERIF_REPO"] = old
    known = {f"{e['rule']}|{e['unit']}|{e['key']}" for e in load_known() if e.get("property") == prop and e.get("status") == "known"}
    return [f for f in ctx.findings if f.ident not in known]


def run(ctx):
    """Run the self-test catalogue of ctx.prop; returns a summary string, raises AnalysisError when the checker misbehaves."""
    prop = ctx.prop
    results = []
    problems = []
    # seeded changes of this property
    for d in sorted(glob.glob(os.path.join(VERIF, "seeded", prop + "*"))):
        meta_p = os.path.join(d, "meta.json")
        if not os.path.exists(meta_p):
            continue
        meta = json.load(open(meta_p))
        patch = os.path.join(d, "patch_ported.diff" if os.path.exists(os.path.join(d, "patch_ported.diff")) else "patch.diff")
        expect = meta.get("check_result_on_current_tree", {}).get("detected")
        if expect is None:
            continue
        root = _scratch()
        try:
            r = subprocess.run(["patch", "-p1", "-s", "-f", "-i", patch], cwd=root, capture_output=True, text=True)
            if r.returncode != 0:
                results.append({"case": os.path.basename(d), "kind": "seeded", "outcome": "stale (patch no longer applies)"})
                continue
            fired = _new_violations(prop, root)
        finally:
            shutil.rmtree(root, ignore_errors=True)
        ok = bool(fired) == bool(expect)
        results.append({"case": os.path.basename(d), "kind": "seeded-breaking" if expect else "seeded-neutralised", "fired": sorted({f.rule for f in fired}), "ok": ok})
        if not ok:
            problems.append(f"seeded change {os.path.basename(d)}: expected {'a violation' if expect else 'silence'}, rules fired: {sorted({f.rule for f in fired})}")
    # behaviour-preserving refactorings written by independent sub-agents (seeded/benign): the property's own four per round, and every one that
    # made this property's check raise a false alarm at first contact (seeded/benign/first_contact*.json) - all must stay silent
    bdir = os.path.join(VERIF, "seeded", "benign")
    wanted = {os.path.basename(d) for d in glob.glob(os.path.join(bdir, prop + "_[rst][0-9]"))}
    for fc in glob.glob(os.path.join(bdir, "first_contact*.json")):
        wanted |= set(json.load(open(fc)).get("first_contact_false_alarms", {}).get(prop, []))
    for name in sorted(wanted):
        patch = os.path.join(bdir, name, "patch.diff")
        if not os.path.exists(patch):
            continue
        root = _scratch()
        try:
            r = subprocess.run(["patch", "-p1", "-s", "-f", "-i", patch], cwd=root, capture_output=True, text=True)
            if r.returncode != 0:
                results.append({"case": name, "kind": "benign-refactoring", "outcome": "stale (patch no longer applies)"})
                continue
            try:
                fired = _new_violations(prop, root)
                err = None
            except AnalysisError as exc:
                fired, err = [], str(exc)
        finally:
            shutil.rmtree(root, ignore_errors=True)
        ok = not fired and err is None
        results.append({"case": name, "kind": "benign-refactoring", "fired": sorted({f.rule for f in fired}), "ok": ok})
        if not ok:
            problems.append(f"behaviour-preserving refactoring {name}: " + (f"analysis error: {err[:160]}" if err else f"false alarm from {sorted({f.rule for f in fired})}: {fired[0].msg[:160]}"))
    for p, kind, label, rel, old, new in CASES:
        if p != prop:
            continue
        root = _scratch()
        try:
            path = os.path.join(root, PKG_REL, rel)
            src = open(path, encoding="utf-8").read()
            if src.count(old) != 1:
                results.append({"case": label, "kind": kind, "outcome": "stale (anchor text changed)"})
                continue
            open(path, "w", encoding="utf-8").write(src.replace(old, new))
            try:
                compile(open(path).read(), path, "exec")
            except SyntaxError as exc:
                raise AnalysisError(f"self-test case '{label}' does not compile: {exc}") from exc
            fired = _new_violations(prop, root)
        finally:
            shutil.rmtree(root, ignore_errors=True)
        ok = bool(fired) if kind == "break" else not fired
        results.append({"case": label, "kind": kind, "fired": sorted({f.rule for f in fired}), "ok": ok})
        if not ok:
            problems.append(f"{kind} case '{label}': " + ("no rule fired" if kind == "break" else f"false alarm from {sorted({f.rule for f in fired})}: {fired[0].msg[:160]}"))
    ctx.extra["selftest"] = results
    if problems:
        raise AnalysisError("checker self-test failed: " + "; ".join(problems))
    n_b = sum(1 for r in results if r.get("ok") and r["kind"] in ("break", "seeded-breaking"))
    n_s = sum(1 for r in results if r.get("ok") and r["kind"] in ("benign", "seeded-neutralised", "benign-refactoring"))
    stale = sum(1 for r in results if "outcome" in r)
    return f"Self-test (thorough): {n_b} breaking variants detected, {n_s} behaviour-preserving variants silent, {stale} stale."
