"""Scenario harness for the legacy trigger loop (TrigInfo.trigger_watch): one occurrence of one source is delivered and the
loop is abstractly interpreted until it asks for the next notification.  Used by several properties (kwargs merge, filter
input, @state_active input, ...) so that the rules state *what reaches the function* instead of matching source text."""

from __future__ import annotations

import ast

from .absint import NONE, Const, DictV, ExcV, ListV, ObjV, Sym
from .flow import FlowPolicy, exits, run_flow

WATCH = "trigger.py::TrigInfo.trigger_watch"
KINDS = ("state", "event", "mqtt", "webhook", "time")


def occurrence(kind):
    """(notification tuple as put on the queue by the source, the argument dictionary of the occurrence)."""
    if kind == "state":
        args = DictV([(Const("trigger_type"), Const("state")), (Const("var_name"), Const("d.e")), (Const("value"), Const("new")), (Const("old_value"), Const("old"))])
        new_vars = DictV([(Const("d.e"), Const("new")), (Const("d.e.old"), Const("old"))])
        return ListV([Const("state"), ListV([new_vars, args])], "tuple"), args, new_vars
    key = {"event": "event_type", "mqtt": "topic", "webhook": "webhook_id"}[kind]
    args = DictV([(Const("trigger_type"), Const(kind)), (Const(key), Const("k")), (Const("payload"), Const("p"))])
    return ListV([Const(kind), args], "tuple"), args, DictV([])


RAISES = object()  # filter_value: the trigger's expression raises when it is evaluated


def watch_occurrence(program, kind, filter_value=None, active_value=None, user_kwargs=None, heap_over=None):
    """Deliver one occurrence of ``kind`` to trigger_watch.

    filter_value: None = the trigger has no expression; otherwise the value its expression evaluates to.
    active_value: None = no @state_active; otherwise the value of its expression.
    user_kwargs: the decorator's kwargs={...} dictionary (DictV) or None.
    Returns a list of records {runs: [argument dictionary given to call_action], filter_inputs, active_inputs, var_get, change_inputs (arguments of the change predicates), ended}."""
    note, occ_args, occ_vars = occurrence(kind) if kind != "time" else (None, None, DictV([]))

    def deliver(cfg, out, via_wait_for):
        seen = cfg.heap.get("$got", Const(0)).v
        if seen >= 1:
            out.add("raise", cfg.set("$exc", ExcV("CancelledError", "end of scenario")))
            return []
        cfg = cfg.hset("$got", Const(seen + 1))
        if kind == "time":
            if not via_wait_for:
                out.add("raise", cfg.set("$exc", ExcV("CancelledError", "end of scenario (no deadline)")))
                return []
            out.add("raise", cfg.set("$exc", ExcV("TimeoutError", "time trigger due")))
            return []
        return [(cfg, note)]

    def qget(interp, node, a, k, cfg, out):
        if isinstance(getattr(node, "_parent", None), ast.Call):
            return [(cfg, Sym(("coro",)))]
        return deliver(cfg, out, False)

    def rec(slot, value):
        def f(interp, node, a, k, cfg, out):
            lst = cfg.heap.get(slot, ListV(()))
            return [(cfg.hset(slot, ListV(lst.items + (ListV(tuple(a), "tuple"),))), value(a) if callable(value) else value)]
        return f

    def call_expr(interp, node, a, k, cfg, out):
        # the trigger's own expression (the scenario object `fexpr`) asked for its value: recorded as (expression, values)
        lst = cfg.heap.get("$filter", ListV(()))
        cfg = cfg.hset("$filter", ListV(lst.items + (ListV((ObjV("fexpr", "AstEval"), *a), "tuple"),)))
        if filter_value is RAISES:
            out.add("raise", cfg.set("$exc", ExcV("ZeroDivisionError", "the trigger's own expression")))
            return []
        return [(cfg, Const(filter_value))]

    def dtnow(interp, node, a, k, cfg, out):
        return [(cfg, Const(__import__("datetime").datetime(2024, 1, 1, 12, 0, cfg.heap.get("$got", Const(0)).v)))]

    summ = {"self.notify_q.get": qget, "asyncio.wait_for": lambda i, n, a, k, c, o: deliver(c, o, True), "dt_now": dtnow,
            "time.monotonic": lambda i, n, a, k, c, o: [(c, Const(100.0))],
            "ident_any_values_changed": rec("$changed", Const(filter_value is None)), "ident_values_changed": rec("$changed", Const(True)),
            "<fexpr>.eval": call_expr, "<aexpr>.eval": rec("$active", Const(active_value)),
            "<fexpr>.log_exception": lambda i, n, a, k, c, o: [(c, NONE)], "<aexpr>.log_exception": lambda i, n, a, k, c, o: [(c, NONE)],
            "State.notify_var_get": rec("$varget", lambda a: DictV([(Const("$from"), a[1] if len(a) > 1 else NONE)])),
            "State.notify_add": rec("$subscribed", Const(True)), "Event.notify_add": lambda i, n, a, k, c, o: [(c, NONE)],
            "Mqtt.notify_add": lambda i, n, a, k, c, o: [(c, NONE)], "Webhook.notify_add": lambda i, n, a, k, c, o: [(c, NONE)],
            "self.active_expr.get_names": lambda i, n, a, k, c, o: [(c, ListV((Const("d.e"),), "set"))],
            "self.state_trig_eval.get_names": lambda i, n, a, k, c, o: [(c, ListV((Const("d.e"),), "set"))],
            "self.call_action": rec("$runs", Const(True)),
            "TrigTime.timer_trigger_next": lambda i, n, a, k, c, o: [(c, ListV((Const(__import__("datetime").datetime(2024, 1, 1, 12, 0, 1)), Const(__import__("datetime").datetime(2024, 1, 1, 12, 0, 1))), "tuple"))]}
    pol = FlowPolicy(program, may_raise_all=False, cancel=False, summaries=summ)
    pol.loop_unroll = 3
    uk = DictV([(Const("kwargs"), user_kwargs)]) if user_kwargs is not None else DictV(())
    fexpr = ObjV("fexpr", "AstEval") if filter_value is not None else NONE
    heap = {"self.state_trigger": ListV([Const("x")]) if kind == "state" else NONE, "self.state_user_watch": NONE, "self.state_trig_eval": fexpr if kind == "state" else NONE,
            "self.state_trig_ident": ListV((Const("d.e"),), "set") if kind == "state" else NONE, "self.state_trig_ident_any": ListV((), "set"),
            "self.active_expr": ObjV("aexpr", "AstEval") if active_value is not None else NONE, "self.state_active_ident": ListV((Const("d.e"),), "set"),
            "self.event_trigger": ListV([Const("k")]) if kind == "event" else NONE, "self.mqtt_trigger": ListV([Const("k")]) if kind == "mqtt" else NONE,
            "self.webhook_trigger": ListV([Const("k")]) if kind == "webhook" else NONE, "self.time_trigger": ListV([Const("once(x)")]) if kind == "time" else NONE,
            "self.event_trig_expr": fexpr if kind == "event" else NONE, "self.mqtt_trig_expr": fexpr if kind == "mqtt" else NONE, "self.webhook_trig_expr": fexpr if kind == "webhook" else NONE,
            "self.state_check_now": Const(False), "self.state_hold_false": NONE, "self.state_hold": NONE, "self.run_on_startup": Const(False),
            "self.have_trigger": Const(True), "self.time_active": NONE, "self.time_active_hold_off": NONE, "self.notify_q": ObjV("q", "Queue"), "self.name": Const("file.x.f"),
            "self.mqtt_trigger_encoding": NONE, "self.webhook_local_only": Const(True), "self.webhook_methods": NONE}
    for k2 in KINDS:
        heap[f"self.{k2}_trigger_kwargs"] = uk if k2 == kind else DictV(())
    heap.update(heap_over or {})
    out = run_flow(program, WATCH, pol, args={"self": ObjV("self", "TrigInfo")}, heap=heap)
    recs = []
    for kd, c, desc in exits(out):
        def items(slot):
            return [tuple(x.items) for x in c.heap.get(slot, ListV(())).items]
        recs.append({"ended": desc, "runs": items("$runs"), "filter_inputs": items("$filter"), "active_inputs": items("$active"), "var_get": items("$varget"), "subscribed": items("$subscribed"),
                     "change_inputs": items("$changed")})
    return recs, occ_args, occ_vars
