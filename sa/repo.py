"""E0 - program loader: parse every module of the package, parent links, unit index."""

from __future__ import annotations

import ast
import os
import sys

PKG_REL = "custom_components/pyscript"


class AnalysisError(Exception):
    """The analysis itself cannot proceed (missing anchor unit, parse failure, floor not met)."""


def repo_root() -> str:
    return os.environ.get("VERIF_REPO", "/repo")


class Unit:
    """A function or class definition with a stable id ``<relfile>::<Qual.name>``."""

    __slots__ = ("uid", "rel", "qual", "node", "cls", "parent_unit")

    def __init__(self, uid, rel, qual, node, cls, parent_unit):
        self.uid = uid
        self.rel = rel
        self.qual = qual
        self.node = node
        self.cls = cls  # enclosing ClassDef name for methods, else None
        self.parent_unit = parent_unit

    @property
    def lineno(self):
        return self.node.lineno

    def __repr__(self):
        return f"<Unit {self.uid}>"


TOUCHED_NODES: set = set()  # id() of function nodes the abstract interpreter executed (filled by absint.run_function)


def _calls(fn):
    return [n for n in ast.walk(fn) if isinstance(n, ast.Call)]


def _coroutine_started_with(qname):
    """`<x>.create_task(<f>(<...qname...>))`: the coroutine function started on that queue."""
    def finder(fn):
        out = []
        for c in _calls(fn):
            if isinstance(c.func, ast.Attribute) and c.func.attr == "create_task" and c.args and isinstance(c.args[0], ast.Call) \
                    and any(qname in ast.unparse(a) for a in c.args[0].args):
                out.append(c.args[0].func)
        return out
    return finder


def _finalizer(fn):
    return [c.args[1] for c in _calls(fn) if ast.unparse(c.func) == "weakref.finalize" and len(c.args) >= 2]


def _called(fn):
    out = [c.func for c in _calls(fn) if isinstance(c.func, (ast.Name, ast.Attribute))]
    # a function handed to another call (`async_add_executor_job(read_file, path)`) is called by the host as well
    out += [a for c in _calls(fn) for a in c.args if isinstance(a, (ast.Name, ast.Attribute))]
    return out


# role name (the position the function had when the rules were written) -> (function to start from, candidate callables in it)
ROLE_UNITS = {
    "function.py::Function.init.task_reaper": ("function.py::Function.init", _coroutine_started_with("task_reaper_q")),
    "function.py::Function.init.task_waiter": ("function.py::Function.init", _coroutine_started_with("task_waiter_q")),
    "decorator.py::FunctionDecoratorManager.__init__.on_func_var_deleted": ("decorator.py::FunctionDecoratorManager.__init__", _finalizer),
}
# roles found as "the one <kind> function of this module that the host calls": (host, predicate on the candidate's definition)
ROLE_UNITS_BY_KIND = {
    "trigger.py::TrigInfo.call_action.do_func_call": ("trigger.py::TrigInfo.call_action", lambda d: isinstance(d, ast.AsyncFunctionDef)),
    "trigger.py::TrigTime.init.user_task_create_factory.user_task_create.func_call":
        ("trigger.py::TrigTime.init.user_task_create_factory.user_task_create", lambda d: isinstance(d, ast.AsyncFunctionDef)),
    "state.py::State.get.service_call_factory": ("state.py::State.get", lambda d: isinstance(d, ast.FunctionDef) and any(isinstance(x, ast.AsyncFunctionDef) for x in d.body)),
    "function.py::Function.get.service_call_factory": ("function.py::Function.get", lambda d: isinstance(d, ast.FunctionDef) and any(isinstance(x, ast.AsyncFunctionDef) for x in d.body)),
    "global_ctx.py::GlobalContextMgr.load_file.read_file": ("global_ctx.py::GlobalContextMgr.load_file", lambda d: isinstance(d, ast.FunctionDef) and "open(" in ast.unparse(d)),
    "__init__.py::load_scripts.glob_read_files": ("__init__.py::load_scripts", lambda d: isinstance(d, ast.FunctionDef) and "glob.glob" in ast.unparse(d)),
    "jupyter_kernel.py::Kernel.send.encode": ("jupyter_kernel.py::Kernel.send", lambda d: isinstance(d, ast.FunctionDef) and "json.dumps" in ast.unparse(d)),
    "jupyter_kernel.py::Kernel.receive.decode": ("jupyter_kernel.py::Kernel.receive", lambda d: isinstance(d, ast.FunctionDef) and "json.loads" in ast.unparse(d)),
}


def _by_kind(pred):
    def finder(fn):
        return _called(fn)
    finder.pred = pred
    return finder


for _role, (_host, _pred) in ROLE_UNITS_BY_KIND.items():
    ROLE_UNITS[_role] = (_host, _by_kind(_pred))


class Program:
    """All parsed modules of the package."""

    def __init__(self, root: str | None = None):
        self.root = root or repo_root()
        self.pkg_dir = os.path.join(self.root, PKG_REL)
        self.modules: dict[str, ast.Module] = {}
        self.sources: dict[str, str] = {}
        self.units: dict[str, Unit] = {}
        self.classes: dict[str, Unit] = {}
        self.touched: set[str] = set()  # units a rule asked for by name
        self.by_qual: dict[tuple, Unit] = {}  # (module, qualified name in the code) -> unit, whatever name the rules know it under
        self._ref_index = None
        self.role_aliases: dict[str, str] = {}  # role name used by the rules -> where the code has the function now
        self._load()

    # ------------------------------------------------------------------
    def _load(self):
        if not os.path.isdir(self.pkg_dir):
            raise AnalysisError(f"package directory {self.pkg_dir} not found")
        for dirpath, dirnames, filenames in os.walk(self.pkg_dir):
            dirnames[:] = sorted(d for d in dirnames if d != "__pycache__")
            for fn in sorted(filenames):
                if not fn.endswith(".py"):
                    continue
                path = os.path.join(dirpath, fn)
                rel = os.path.relpath(path, self.pkg_dir)
                with open(path, encoding="utf-8") as fd:
                    src = fd.read()
                try:
                    tree = ast.parse(src, filename=path)
                except SyntaxError as exc:
                    raise AnalysisError(f"cannot parse {rel}: {exc}") from exc
                self.sources[rel] = src
                self.modules[rel] = tree
                self._index(rel, tree)
        self._resolve_roles()

    def _params_of(self, cu):
        """Positional parameter names of a repository callable as a call site sees them (receiver dropped; a class: its __init__ or its dataclass fields)."""
        node = cu.node
        if isinstance(node, ast.ClassDef):
            init = self.by_qual.get((cu.rel, f"{cu.qual}.__init__"))
            if init is not None:
                a = init.node.args
                return [x.arg for x in a.posonlyargs + a.args][1:], len(a.posonlyargs)
            fields = []
            for st in node.body:
                if isinstance(st, ast.AnnAssign) and isinstance(st.target, ast.Name):
                    if st.value is not None and "kw_only=True" in ast.unparse(st.value):
                        break  # keyword-only fields are never positional
                    fields.append(st.target.id)
            if fields and any("dataclass" in ast.unparse(d) for d in node.decorator_list):
                return fields, 0
            return None, 0
        if not isinstance(node, (ast.FunctionDef, ast.AsyncFunctionDef)):
            return None, 0
        a = node.args
        names = [x.arg for x in a.posonlyargs + a.args]
        npos = len(a.posonlyargs)
        is_method = cu.parent_unit is not None and isinstance(cu.parent_unit.node, ast.ClassDef)
        if is_method and not any(isinstance(d, ast.Name) and d.id == "staticmethod" for d in node.decorator_list):
            names, npos = names[1:], max(0, npos - 1)
        return names, npos

    def call_args(self, unit, call):
        """The argument expressions of a call of a repository function in parameter order: positional ones, then the keywords that name the
        following positional parameters (`f(a, now=n)` and `f(a, n)` are the same call).  Rules that read "the i-th argument" use this."""
        args = list(call.args)
        if not call.keywords or any(isinstance(a, ast.Starred) for a in args) or not isinstance(call.func, (ast.Name, ast.Attribute)):
            return args
        cu = self.resolve_callable(unit, call.func) if unit is not None else None
        if cu is None and isinstance(call.func, ast.Name) and call.func.id in self.classes:
            cu = self.classes[call.func.id]
        if cu is None and isinstance(call.func, ast.Attribute) and isinstance(call.func.value, ast.Name) and call.func.value.id in self.classes:
            c0 = self.classes[call.func.value.id]
            cu = self.by_qual.get((c0.rel, f"{c0.qual}.{call.func.attr}"))
        if cu is None:
            return args
        names, npos = self._params_of(cu)
        if not names:
            return args
        kws = {k.arg: k.value for k in call.keywords if k.arg is not None}
        i = len(args)
        while i < len(names) and names[i] in kws:
            args.append(kws[names[i]])
            i += 1
        return args

    # ------------------------------------------------------------------
    def resolve_callable(self, unit, expr):
        """The unit a callable expression denotes when read inside ``unit``: a nested function of it or of an enclosing function, a method of
        its class (`self.f`, `cls.f`, `Class.f`) or a module-level function of its module.  None when it is none of these."""
        rel = unit.rel
        parts = unit.qual.split(".")
        if isinstance(expr, ast.Name):
            for i in range(len(parts), -1, -1):
                scope = self.by_qual.get((rel, ".".join(parts[:i]))) if i else None
                if scope is not None and isinstance(scope.node, ast.ClassDef):
                    continue  # (a class body is not an enclosing scope of its methods' code)
                u = self.by_qual.get((rel, ".".join(parts[:i] + [expr.id])))
                if u is not None:
                    return u
            return None
        if isinstance(expr, ast.Attribute) and isinstance(expr.value, ast.Name):
            base = expr.value.id
            if base in ("self", "cls"):
                for i in range(len(parts) - 1, 0, -1):
                    cu = self.by_qual.get((rel, ".".join(parts[:i])))
                    if cu is not None and isinstance(cu.node, ast.ClassDef):
                        return self.by_qual.get((rel, ".".join(parts[:i]) + "." + expr.attr))
                return None
            cu = self.classes.get(base)
            if cu is not None:
                return self.by_qual.get((cu.rel, f"{cu.qual}.{expr.attr}"))
        return None

    def walk_with_helpers(self, uid, depth=2):
        """The nodes of a function and of the helpers it calls that resolve to functions of the package defined next to it (nested, same class,
        same module): lines extracted into such a helper are still part of what the function does."""
        unit = self.unit(uid)
        seen, todo, nodes = [unit.node], [(unit, 0)], []
        while todo:
            u, d = todo.pop(0)
            for n in body_walk(u.node):
                nodes.append(n)
                if d < depth and isinstance(n, ast.Call) and isinstance(n.func, (ast.Name, ast.Attribute)):
                    hu = self.resolve_callable(u, n.func)
                    if hu is not None and isinstance(hu.node, (ast.FunctionDef, ast.AsyncFunctionDef)) and hu.rel == unit.rel and not any(hu.node is x for x in seen):
                        seen.append(hu.node)
                        todo.append((hu, d + 1))
        return nodes

    def callers_of(self, unit):
        """Units of the package that call ``unit`` (a nested function, method or module-level function): calls that resolve to it, plus - to stay
        on the safe side - any call `<x>.<name>(..)` on a receiver that cannot be resolved."""
        name = unit.node.name
        if self._ref_index is None:
            # name -> [(unit, reference expression, it is the callee of the call)] over the whole package, built once
            idx = {}
            seen_nodes = set()
            for u in list(self.units.values()):
                if not isinstance(u.node, (ast.FunctionDef, ast.AsyncFunctionDef)) or id(u.node) in seen_nodes:
                    continue
                seen_nodes.add(id(u.node))
                for n in body_walk(u.node):
                    if isinstance(n, ast.Call):
                        refs = [n.func] + [a for a in n.args if isinstance(a, (ast.Name, ast.Attribute))] + [k.value for k in n.keywords if isinstance(k.value, (ast.Name, ast.Attribute))]
                        for f in refs:
                            nm = f.id if isinstance(f, ast.Name) else (f.attr if isinstance(f, ast.Attribute) else None)
                            if nm is not None:
                                idx.setdefault(nm, []).append((u, f, f is n.func))
            self._ref_index = idx
        out = []
        for u, f, is_callee in self._ref_index.get(name, ()):
            if u is unit:
                continue
            r = self.resolve_callable(u, f)
            if r is unit or (r is None and isinstance(f, ast.Attribute) and is_callee):
                if u not in out:
                    out.append(u)
        return out

    def only_reached_from(self, uid, allowed, depth=4):
        """True when the function is one of ``allowed`` or a helper that is called (transitively) from allowed functions only."""
        if uid in allowed:
            return True
        u = self.units.get(uid)
        if u is None or depth == 0 or not isinstance(u.node, (ast.FunctionDef, ast.AsyncFunctionDef)):
            return False
        callers = self.callers_of(u)
        return bool(callers) and all(self.only_reached_from(c.uid, allowed, depth - 1) for c in callers)

    def _resolve_roles(self):
        """Nested helpers that rules name by their position (`Function.init.task_reaper`) are found again by their role when a refactoring moved
        or renamed them (nested function -> method / module-level function): the unit is then known under the name the rules use."""
        for role_uid, (from_uid, finder) in ROLE_UNITS.items():
            if role_uid in self.units or from_uid not in self.units:
                continue
            host = self.units[from_uid]
            cands = []
            for expr in finder(host.node):
                u = self.resolve_callable(host, expr)
                pred = getattr(finder, "pred", None)
                if u is not None and isinstance(u.node, (ast.FunctionDef, ast.AsyncFunctionDef)) and u not in cands and u.rel == host.rel \
                        and u is not host and (pred is None or pred(u.node)):
                    cands.append(u)
            if len(cands) == 1:
                real = cands[0]
                for k in [k for k, v in self.units.items() if v is real]:
                    del self.units[k]
                self.role_aliases[role_uid] = real.uid
                nested = [(k, v) for k, v in self.units.items() if v.rel == real.rel and v.qual.startswith(real.qual + ".")]
                self.units[role_uid] = real
                real.uid = role_uid
                # the functions nested in it move with it
                for k, v in nested:
                    nk = role_uid + "." + v.qual[len(real.qual) + 1:]
                    if nk not in self.units:
                        del self.units[k]
                        self.units[nk] = v
                        self.role_aliases[nk] = v.uid
                        v.uid = nk

    def _index(self, rel, tree):
        for node in ast.walk(tree):
            for child in ast.iter_child_nodes(node):
                child._parent = node  # type: ignore[attr-defined]
        tree._parent = None  # type: ignore[attr-defined]
        tree._rel = rel  # type: ignore[attr-defined]

        def visit(node, prefix, cls, parent_unit):
            for child in ast.iter_child_nodes(node):
                if isinstance(child, (ast.FunctionDef, ast.AsyncFunctionDef, ast.ClassDef)):
                    qual = f"{prefix}{child.name}"
                    uid = f"{rel}::{qual}"
                    if uid in self.units:  # redefinition (e.g. overloads): keep the last, number it
                        n = 2
                        while f"{uid}#{n}" in self.units:
                            n += 1
                        uid = f"{uid}#{n}"
                    unit = Unit(uid, rel, qual, child, cls, parent_unit)
                    child._unit = unit  # type: ignore[attr-defined]
                    self.units[uid] = unit
                    self.by_qual[(rel, qual)] = unit
                    if isinstance(child, ast.ClassDef):
                        self.classes.setdefault(child.name, unit)
                        visit(child, qual + ".", child.name, unit)
                    else:
                        visit(child, qual + ".", None, unit)
                else:
                    visit(child, prefix, cls, parent_unit)

        visit(tree, "", None, None)

    # ------------------------------------------------------------------
    def unit(self, uid: str) -> Unit:
        if uid not in self.units:
            raise AnalysisError(f"anchor unit {uid} not found in {self.root}")
        self.touched.add(uid)
        return self.units[uid]

    def consulted(self):
        """Functions a check looked at: asked for by a rule, or executed (inlined) by the abstract interpreter."""
        by_node = {id(u.node): uid for uid, u in self.units.items()}
        return sorted(self.touched | {by_node[i] for i in TOUCHED_NODES if i in by_node})

    def has(self, uid: str) -> bool:
        return uid in self.units

    def func(self, uid: str):
        u = self.unit(uid)
        if not isinstance(u.node, (ast.FunctionDef, ast.AsyncFunctionDef)):
            raise AnalysisError(f"anchor unit {uid} is not a function")
        return u.node

    def cls(self, uid: str) -> ast.ClassDef:
        u = self.unit(uid)
        if not isinstance(u.node, ast.ClassDef):
            raise AnalysisError(f"anchor unit {uid} is not a class")
        return u.node

    def module(self, rel: str) -> ast.Module:
        if rel not in self.modules:
            raise AnalysisError(f"module {rel} not found")
        return self.modules[rel]

    def functions(self, rel: str | None = None):
        for uid, u in self.units.items():
            if rel is not None and u.rel != rel:
                continue
            if isinstance(u.node, (ast.FunctionDef, ast.AsyncFunctionDef)):
                yield u

    def methods(self, rel: str, cls: str):
        pref = f"{rel}::{cls}."
        for uid, u in self.units.items():
            if uid.startswith(pref) and "." not in uid[len(pref):]:
                if isinstance(u.node, (ast.FunctionDef, ast.AsyncFunctionDef)):
                    yield u

    def module_const(self, rel: str, name: str, _depth: int = 0):
        """Return the AST value assigned to module level NAME (last assignment)."""
        val = None
        for stmt in self.module(rel).body:
            if isinstance(stmt, ast.Assign):
                for t in stmt.targets:
                    if isinstance(t, ast.Name) and t.id == name:
                        val = stmt.value
            elif isinstance(stmt, ast.AnnAssign) and isinstance(stmt.target, ast.Name):
                if stmt.target.id == name and stmt.value is not None:
                    val = stmt.value
        if val is None and _depth < 3:
            # the constant may have been moved to a sibling module and imported back (`from .const import NAME`)
            for stmt in self.module(rel).body:
                if isinstance(stmt, ast.ImportFrom) and stmt.level >= 1 and any((a.asname or a.name) == name for a in stmt.names):
                    orig = next(a.name for a in stmt.names if (a.asname or a.name) == name)
                    base = os.path.dirname(rel)
                    for _ in range(stmt.level - 1):
                        base = os.path.dirname(base)
                    target = os.path.join(base, *(stmt.module or "").split(".")) if stmt.module else base
                    for cand in (target + ".py", os.path.join(target, "__init__.py")):
                        cand = os.path.normpath(cand)
                        if cand in self.modules:
                            return self.module_const(cand, orig, _depth + 1)
        if val is None:
            raise AnalysisError(f"module constant {rel}::{name} not found")
        return val

    def loc(self, rel: str, node) -> str:
        return f"{PKG_REL}/{rel}:{getattr(node, 'lineno', 0)}"

    def stats(self):
        nfunc = sum(1 for u in self.units.values() if not isinstance(u.node, ast.ClassDef))
        ncls = sum(1 for u in self.units.values() if isinstance(u.node, ast.ClassDef))
        return {"modules": len(self.modules), "functions": nfunc, "classes": ncls}


# ----------------------------------------------------------------------
# small AST helpers shared by all rules
# ----------------------------------------------------------------------
def norm(node) -> str:
    """Normalised source text of a node (formatter independent)."""
    if node is None:
        return "None"
    if isinstance(node, list):
        return "; ".join(norm(n) for n in node)
    try:
        return ast.unparse(node)
    except Exception:  # pragma: no cover
        return ast.dump(node)


def short(node, n=90) -> str:
    s = " ".join(norm(node).split())
    return s if len(s) <= n else s[: n - 3] + "..."


def parent(node):
    return getattr(node, "_parent", None)


def enclosing_unit(node) -> Unit | None:
    while node is not None:
        u = getattr(node, "_unit", None)
        if u is not None and not isinstance(node, ast.ClassDef):
            return u
        node = parent(node)
    return None


def enclosing_func(node):
    node = parent(node)
    while node is not None and not isinstance(node, (ast.FunctionDef, ast.AsyncFunctionDef, ast.Lambda)):
        node = parent(node)
    return node


def dotted(node) -> str | None:
    """``a.b.c`` for Name/Attribute chains, else None."""
    parts = []
    while isinstance(node, ast.Attribute):
        parts.append(node.attr)
        node = node.value
    if isinstance(node, ast.Name):
        parts.append(node.id)
        return ".".join(reversed(parts))
    return None


def call_name(call: ast.Call) -> str | None:
    return dotted(call.func)


def walk_no_nested(node, include_self=True):
    """Walk a function body without entering nested function/class/lambda definitions."""
    stack = [node] if include_self else list(ast.iter_child_nodes(node))
    first = True
    while stack:
        n = stack.pop()
        yield n
        if not first or not include_self:
            pass
        first = False
        for c in ast.iter_child_nodes(n):
            if isinstance(c, (ast.FunctionDef, ast.AsyncFunctionDef, ast.ClassDef, ast.Lambda)):
                continue
            stack.append(c)


def body_walk(func):
    """Walk all nodes in the body of ``func`` (not nested defs), source order."""
    out = []

    def rec(n):
        out.append(n)
        for c in ast.iter_child_nodes(n):
            if isinstance(c, (ast.FunctionDef, ast.AsyncFunctionDef, ast.ClassDef, ast.Lambda)):
                out.append(c)  # the def itself is visible, its body is not
                continue
            rec(c)

    for s in func.body:
        if isinstance(s, (ast.FunctionDef, ast.AsyncFunctionDef, ast.ClassDef)):
            out.append(s)  # nested definition: visible as a statement, its body belongs to its own unit
            continue
        rec(s)
    return out


def calls_in(func, name_pred):
    """All Call nodes in func's own body whose dotted name satisfies ``name_pred``."""
    res = []
    for n in body_walk(func):
        if isinstance(n, ast.Call):
            dn = call_name(n)
            if dn is not None and name_pred(dn):
                res.append(n)
    return res


def deref_local(fn, expr, depth=3):
    """`expr` with a local that is bound exactly once in ``fn`` (a sub-expression given a name first) replaced by what it was bound to."""
    while depth > 0 and isinstance(expr, ast.Name):
        binds = [n for n in ast.walk(fn) if isinstance(n, ast.Assign) and len(n.targets) == 1 and isinstance(n.targets[0], ast.Name) and n.targets[0].id == expr.id]
        others = [n for n in ast.walk(fn) if isinstance(n, (ast.AugAssign, ast.AnnAssign, ast.NamedExpr, ast.For, ast.AsyncFor)) and isinstance(getattr(n, "target", None), ast.Name)
                  and n.target.id == expr.id]
        params = {a.arg for a in fn.args.posonlyargs + fn.args.args + fn.args.kwonlyargs} if hasattr(fn, "args") else set()
        if len(binds) != 1 or others or expr.id in params:
            break
        expr = binds[0].value
        depth -= 1
    return expr


def expand_locals(fn, expr, depth=3):
    """A copy of ``expr`` in which every local of ``fn`` that is bound exactly once (a sub-expression that was given a name) is replaced by
    what it was bound to: `eval_func.global_ctx` after `eval_func = self.eval_func` reads `self.eval_func.global_ctx`."""
    def fresh(e):
        return ast.parse(ast.unparse(e), mode="eval").body  # (a copy without the parent links of the program tree)

    class T(ast.NodeTransformer):
        def visit_Name(self, node):
            if isinstance(node.ctx, ast.Load):
                v = deref_local(fn, node, depth=1)
                if v is not node:
                    return fresh(v)
            return node

    out = fresh(expr)
    for _ in range(depth):
        before = ast.dump(out)
        out = T().visit(ast.Expression(body=out)).body
        if ast.dump(out) == before:
            break
    return out


def const_set(node) -> set | None:
    """Evaluate a literal set/list/tuple/frozenset(...) of constants, else None."""
    if isinstance(node, (ast.Set, ast.List, ast.Tuple)):
        out = set()
        for e in node.elts:
            if not isinstance(e, ast.Constant):
                return None
            out.add(e.value)
        return out
    if isinstance(node, ast.Call) and dotted(node.func) in {"set", "frozenset"} and len(node.args) == 1:
        return const_set(node.args[0])
    if isinstance(node, ast.Call) and isinstance(node.func, ast.Attribute) and node.func.attr == "union":
        a = const_set(node.func.value)
        b = const_set(node.args[0]) if len(node.args) == 1 else None
        if a is not None and b is not None:
            return a | b
    return None


if __name__ == "__main__":
    p = Program()
    print(p.stats())
    for uid in sorted(p.units)[:15]:
        print(uid)
    sys.exit(0)
