"""C13 - task.unique guarantees at most one live owner per name (structural clauses)."""

from __future__ import annotations

import ast

from ..absint import NONE, App, ClassV, Const, DictV, ExcV, ListV, ObjV, Sym
from ..flow import FlowPolicy, exits, run_flow
from ..repo import AnalysisError, body_walk, call_name, norm, short
from .c14 import _registry_of, RUN_CORO, callback_mutation_table, registries_emptied, registry_writes, task_registries

LEVEL_TEXT = (
    "decides necessary structural conditions of C13, not mutual exclusion over interleavings: the three places that "
    "build a unique-name key use the same context-qualified form; another task is handed to the reaper only if it is a "
    "different task that pyscript started; the caller is killed (kill_me) only when a different task owns the name; on "
    "every claiming path the owner map and the per-task name set are updated together (previous owner loses only that "
    "name); names are released only by run_coro when the owner ends; both decorator forms claim before the function "
    "body runs"
    "; task.unique equals the specified transition table on all small registries and keeps the owner map and the per-task name sets mutually consistent; names claimed by a task's own done callbacks are released too; the kill_me pre-check and the claim use the same evaluator"
    '; the evaluator of a triggered function is built on its own context; the reaper delivers every cancel command; keys of nested contexts never meet; the legacy claim applies the kill_me rule itself'
    '; a caller pyscript did not start is never cancelled (kill_me included); the empty name is a name; call handlers are bound at dispatch; every legacy trigger task carries @task_unique'
)
LEVEL_NOTE = (
    "cancellation is asynchronous through the reaper task: 'at most one live owner' over schedules is not decided by "
    "this technique; guards and write discipline are decided path-sensitively on the source of task_unique"
)
TECHNIQUE = "abstract interpretation of task_unique on every small registry model (who is handed to the reaper, paired map updates), sibling key-form agreement, who-may-write tables, ordering in the decorator call paths"

TU = "function.py::Function.task_unique_factory.task_unique"




KEY_HELPERS = {"cls.unique_name_key", "Function.unique_name_key"}  # helper(s) that qualify a name with its context: followed, not assumed


def legacy_claim_rule(ctx, program, rid):
    """TrigInfo.call_action interpreted up to the claim inside do_func_call, for @task_unique('n', kill_me=True / False)."""
    uid = "trigger.py::TrigInfo.call_action"
    for kill_me, uname in ((True, "n"), (False, "n"), (False, "")):
        claims = []

        def claimer(i, n, a, k, c, o, claims=claims):
            claims.append((tuple(a), dict(k)))
            return [(c, NONE)]

        pol = FlowPolicy(program, may_raise_all=False, cancel=False, inline={"do_func_call", "trigger.py::TrigInfo.call_action.do_func_call"},
                         summaries={"AstEval": lambda i, n, a, k, c, o: [(c, ObjV("run_eval", "AstEval"))], "Function.install_ast_funcs": lambda i, n, a, k, c, o: [(c, NONE)],
                                    "Function.task_unique_factory": lambda i, n, a, k, c, o: [(c, FuncLike)], "task_unique_func": claimer,
                                    "Function.unique_name_used": lambda i, n, a, k, c, o: [(c, Const(False))],  # both same-instant triggers pass the pre-check
                                    "Context": lambda i, n, a, k, c, o: [(c, ObjV("hctx", "Context"))], "Function.hass.bus.async_fire": lambda i, n, a, k, c, o: [(c, NONE)],
                                    "Function.store_hass_context": lambda i, n, a, k, c, o: [(c, NONE)], "Function.create_task": lambda i, n, a, k, c, o: [(c, ObjV("task", "Task"))],
                                    "Function.task_done_callback_ctx": lambda i, n, a, k, c, o: [(c, NONE)], "ast_ctx.call_func": lambda i, n, a, k, c, o: [(c, NONE)]})
        heap = {"self.task_unique": Const(uname), "self.task_unique_kwargs": DictV([(Const("kill_me"), Const(kill_me))]), "self.action": ObjV("act", "EvalFunc"), "self.name": Const("file.x.f"),
                "act.global_ctx_name": Const("file.x"), "act.name": Const("f"), "act.global_ctx": ObjV("g", "GlobalContext")}
        out = run_flow(program, uid, pol, args={"self": ObjV("self", "TrigInfo"), "notify_type": Const("state"), "func_args": DictV([(Const("trigger_type"), Const("state"))]),
                                                  "run_task": Const(True)}, heap=heap)
        ex = exits(out)
        bad = None
        if not ex or any(k != "return" for k, c, d in ex):
            bad = f"exits {[d for k, c, d in ex]}"
        elif len(claims) != 1:
            bad = f"{len(claims)} claim(s) inside the new run"
        else:
            a, kw = claims[0]
            passed = kw.get("kill_me", a[1] if len(a) > 1 else Const(False))
            if a[:1] != (Const(uname),):
                bad = f"the run claims {a[:1]!r} instead of the decorator's name"
            elif passed != Const(kill_me):
                bad = (f"the run claims the name with kill_me={passed!r} although the decorator says kill_me={kill_me}: of two runs started at the same instant the later one takes the "
                       f"name and cancels the earlier, already running one")
        ctx.check(bad is None, rid, uid, f"legacy claim of {uname!r} applies kill_me={kill_me}", msg=f"legacy call_action with @task_unique({uname!r}, kill_me={kill_me}): {bad}"
                  + (" (the empty string is a name like any other: task.unique('') and the new subsystem claim it)" if not uname else ""), key=f"legacy claim kill_me={kill_me}" + ("" if uname else " empty name"),
                  node=program.func(uid), rel="trigger.py")


FuncLike = Sym(("callable", "task_unique_func"))


def key_agreement_rule(ctx, program, rid):
    """After task.unique('n') in a context: unique_name_used(ctx, 'n') is True, name2id('n') is the task, name2id() is {'n': task} (and 'other' is unknown)."""
    gctx = ObjV("gctx", "AstEval")
    summ = {"ctx.get_global_ctx_name": lambda i, n, a, k, c, o: [(c, Const("file.x"))], "asyncio.current_task": lambda i, n, a, k, c, o: [(c, Const("T1"))]}

    def run(uid, args, heap):
        pol = FlowPolicy(program, may_raise_all=False, cancel=False, inline=KEY_HELPERS, summaries=summ, globals_={"cls": ClassV("Function"), "ctx": gctx})
        pol.loop_unroll = 4
        return exits(run_flow(program, uid, pol, args=args, heap=dict(heap)))

    base = {"Function.unique_name2task": DictV([]), "Function.unique_task2name": DictV([]), "Function.our_tasks": ListV((Const("T1"),), "set")}
    rets = [c for k, c, d in run(TU, {"name": Const("n"), "kill_me": Const(False)}, base) if k == "return"]
    if len(rets) != 1:
        raise AnalysisError(f"task.unique('n') on empty registries: {len(rets)} normal exits")
    heap1 = {k: v for k, v in rets[0].heap.items() if k.startswith("Function.")}
    used = "function.py::Function.unique_name_used"
    n2i = "function.py::Function.task_name2id_factory.user_task_name2id"
    for name, want in (("n", True), ("other", False)):
        got = [(k, c.env.get("$ret")) for k, c, d in run(used, {"cls": ClassV("Function"), "ctx": gctx, "name": Const(name)}, heap1)]
        ctx.check(got == [("return", Const(want))], rid, used, f"in-use test of {name!r} after task.unique('n')",
                  msg=f"unique_name_used(ctx, {name!r}) after task.unique('n') in the same context gives {got}, specified {want}: @task_unique(kill_me=True) and task.unique disagree about names",
                  key=f"agreement used {name}", node=program.func(used), rel="function.py")
    got = [(k, c.env.get("$ret")) for k, c, d in run(n2i, {"name": Const("n")}, heap1)]
    ctx.check(got == [("return", Const("T1"))], rid, n2i, "task.name2id('n') after task.unique('n')", msg=f"task.name2id('n') gives {got}, specified the claiming task", key="agreement name2id one",
              node=program.func(n2i), rel="function.py")
    got = [(k, c.env.get("$ret")) for k, c, d in run(n2i, {"name": NONE}, heap1)]
    ok = len(got) == 1 and got[0][0] == "return" and isinstance(got[0][1], DictV) and [(kk, vv) for kk, vv in got[0][1].items] == [(Const("n"), Const("T1"))]
    ctx.check(ok, rid, n2i, "task.name2id() after task.unique('n')", msg=f"task.name2id() gives {got}, specified {{'n': <the claiming task>}}", key="agreement name2id all",
              node=program.func(n2i), rel="function.py")
    got = [(k, getattr(c.env.get("$exc"), "cls", None)) for k, c, d in run(n2i, {"name": Const("other")}, heap1)]
    ctx.check(got == [("raise", "NameError")], rid, n2i, "task.name2id('other') is unknown", msg=f"task.name2id('other') gives {got}, specified NameError", key="agreement name2id unknown",
              node=program.func(n2i), rel="function.py")


def context_isolation_rule(ctx, program, rid):
    """The three functions that qualify a unique name, interpreted for the outer context after the nested context claimed `lock` (and vice versa)."""
    from ..flow import FlowPolicy, exits, run_flow
    outer, inner = ObjV("ctx_outer", "AstEval"), ObjV("ctx_inner", "AstEval")
    names = {"ctx_outer": "scripts.a", "ctx_inner": "scripts.a.b"}

    def gname_for(ctxv):
        return lambda i, n, a, k, c, o: [(c, Const(names[ctxv.oid]))]

    T_in, T_out = Const("task-of-inner"), Const("task-of-outer")
    key_uid = "function.py::Function.unique_name_used"
    tu = "function.py::Function.task_unique_factory.task_unique"
    n2i = "function.py::Function.task_name2id_factory.user_task_name2id"

    def run(uid, ctxv, args, heap):
        pol = FlowPolicy(program, may_raise_all=False, cancel=False, events=["cls.reaper_cancel"], inline=KEY_HELPERS,
                         summaries={"ctx.get_global_ctx_name": gname_for(ctxv), "asyncio.current_task": lambda i, n, a, k, c, o: [(c, T_out)]},
                         globals_={"cls": ClassV("Function"), "ctx": ctxv})
        pol.loop_unroll = 6
        a = dict(args)
        if uid == key_uid:
            a.update({"cls": ClassV("Function"), "ctx": ctxv})
        return exits(run_flow(program, uid, pol, args=a, heap=dict(heap)))

    # the nested context's task owns `lock`; keys are whatever the repository builds: take them from an interpreted claim
    pol0 = FlowPolicy(program, may_raise_all=False, cancel=False, inline=KEY_HELPERS, summaries={"ctx.get_global_ctx_name": gname_for(inner), "asyncio.current_task": lambda i, n, a, k, c, o: [(c, T_in)]},
                      globals_={"cls": ClassV("Function"), "ctx": inner})
    base = {"Function.unique_name2task": DictV([]), "Function.unique_task2name": DictV([]), "Function.our_tasks": ListV((T_in, T_out), "set")}
    ex0 = exits(run_flow(program, tu, pol0, args={"name": Const("lock"), "kill_me": Const(False)}, heap=dict(base)))
    rets = [c for k, c, d in ex0 if k == "return"]
    if len(rets) != 1:
        raise AnalysisError(f"task.unique('lock') in the nested context: {len(rets)} normal exits")
    heap1 = {k: v for k, v in rets[0].heap.items() if k.startswith("Function.")}
    # (a) in-use test from the outer context
    got = [(k, c.env.get("$ret")) for k, c, d in run(key_uid, outer, {"name": Const("b.lock")}, heap1)]
    ctx.check(got == [("return", Const(False))], rid, key_uid, "in-use test: ('scripts.a', 'b.lock') after ('scripts.a.b', 'lock') was claimed",
              msg=f"unique_name_used('b.lock') in context scripts.a after scripts.a.b claimed 'lock' gives {got}: @task_unique(kill_me=True) in one file kills runs because of a name used in another",
              key="isolation in-use", node=program.func(key_uid), rel="function.py")
    # (b) the claim from the outer context must not cancel the nested context's task
    bad = None
    for k, c, d in run(tu, outer, {"name": Const("b.lock"), "kill_me": Const(False)}, heap1):
        kills = [e for e in c.trace if e[0] == "call" and e[1] == "cls.reaper_cancel"]
        owner = c.heap.get("Function.unique_name2task")
        if kills:
            bad = f"task.unique('b.lock') in scripts.a cancels {kills[0][2]!r}, the owner of 'lock' in scripts.a.b"
        elif isinstance(owner, DictV) and T_in not in [v for _, v in owner.items]:
            bad = "the claim in scripts.a takes the name away from its owner in scripts.a.b"
    ctx.check(bad is None, rid, tu, "claim: ('scripts.a', 'b.lock') leaves the owner of ('scripts.a.b', 'lock') alone", msg=f"task.unique: {bad}", key="isolation claim", node=program.func(tu), rel="function.py")
    # (c) name2id() of the outer context lists none of the nested context's names
    got = [(k, c.env.get("$ret")) for k, c, d in run(n2i, outer, {"name": NONE}, heap1)]
    ok = len(got) == 1 and got[0][0] == "return" and isinstance(got[0][1], DictV) and not got[0][1].items
    ctx.check(ok, rid, n2i, "task.name2id() in scripts.a lists no name of scripts.a.b", msg=f"task.name2id() in scripts.a after scripts.a.b claimed 'lock' returns {got}: names of the nested context leak",
              key="isolation name2id", node=program.func(n2i), rel="function.py")


def reaper_cancel_rule(ctx, program, rid):
    from ..flow import FlowPolicy, exits, run_flow
    uid = "function.py::Function.init.task_reaper"
    task = ObjV("victim", "Task")
    state = {"n": 0}

    def qget(i, n, a, k, c, o):
        # first command: cancel <victim>; second: exit
        idx = c.heap.get("$q", Const(0)).v
        c = c.hset("$q", Const(idx + 1))
        if idx == 0:
            return [(c, ListV((Const("cancel"), task), "list"))]
        return [(c, ListV((Const("exit"),), "list"))]

    pol = FlowPolicy(program, may_raise_all=False, cancel=False, summaries={"reaper_q.get": qget}, events=["cmd[1].cancel", "victim.cancel"])
    pol.loop_unroll = 3
    out = run_flow(program, uid, pol, args={"reaper_q": ObjV("reaper_q", "Queue")})
    bad = None
    n = 0
    for k, c, d in exits(out):
        n += 1
        cancels = [e for e in c.trace if e[0] == "call" and str(e[1]).endswith(".cancel")]
        skipped = [(a, v) for a, v in c.assume if "victim" in repr(a) or "cancelling" in repr(a)]
        if len(cancels) != 1:
            bad = f"a path handles the command with {len(cancels)} cancel() call(s)" + (f" (it depends on {[repr(a) for a, v in skipped]})" if skipped else "")
    ctx.check(n > 0 and bad is None, rid, uid, "one Task.cancel() per cancel command on every path",
              msg=f"task_reaper: {bad or 'no path'}: the previous owner of a unique name (or a task being killed) may be left running next to the new owner",
              key="reaper delivers cancel", node=program.func(uid), rel="function.py")


def run(ctx):
    program = ctx.program
    fn = program.func(TU)

    ctx.rule("R13.1", "task.unique, task.name2id and the kill_me pre-check qualify names identically: what one of them records for (context, name) the others find", floor=3)
    key_agreement_rule(ctx, program, "R13.1")

    ctx.rule("R13.2", "reaper_cancel of another task is dominated by 'different task' and 'task in our_tasks'; of the caller by kill_me and 'different owner'", floor=2)
    # decided on the finite registry models (who owns the name, who is a pyscript task, kill_me): the task handed to the reaper on every path
    unique_table(ctx, program, "R13.2", aspect="cancel")

    ctx.rule("R13.4", "unique names are released only by run_coro when the owner ends", floor=2)
    regs = task_registries(program)
    rem = [(k, r, u, n) for k, r, u, n in registry_writes(program, {"unique_task2name": "dict"}) if k == "remove"]
    rem = [(k, r, RUN_CORO if program.only_reached_from(u, {RUN_CORO}) else u, n) for k, r, u, n in rem]  # (a helper that only run_coro calls is part of it)
    ctx.check(all(u == RUN_CORO for _, _, u, _ in rem) and len(rem) >= 1, "R13.4", RUN_CORO, "entries of unique_task2name removed only in run_coro",
              msg=f"entries of unique_task2name are removed in {sorted({u for _, _, u, _ in rem})}", key="who removes unique_task2name", rel="function.py",
              node=rem[0][3] if rem else None)
    inv = []
    for u in program.functions():
        for n in body_walk(u.node):
            if isinstance(n, ast.Delete) and any(isinstance(t, ast.Subscript) and ("unique_name2task" in norm(t.value) or _registry_of(t.value) == "unique_name2task") for t in n.targets):
                inv.append(u.uid)
            if isinstance(n, ast.Call) and isinstance(n.func, ast.Attribute) and n.func.attr in ("pop", "clear") and \
                    ("unique_name2task" in norm(n.func.value) or _registry_of(n.func.value) == "unique_name2task"):
                inv.append(u.uid)
    inv = [RUN_CORO if program.only_reached_from(u, {RUN_CORO}) else u for u in inv]
    ctx.check(set(inv) == {RUN_CORO}, "R13.4", RUN_CORO, "owner map entries deleted only in run_coro",
              msg=f"unique_name2task entries are deleted in {sorted(set(inv))}; only run_coro's finally clause may release a name", key="who deletes unique_name2task",
              rel="function.py", node=program.func(RUN_CORO))

    ctx.rule("R13.7", "the owner's names are released on every exit of run_coro, including cancellation while a done callback is suspended", floor=2)
    registries_emptied(ctx, program, "R13.7", only={"unique_task2name"})

    ctx.rule("R13.9", "names claimed for a task by its own done callbacks are released as well (the release follows the last user code that runs for the task)", floor=4)
    callback_mutation_table(ctx, program, "R13.9")

    ctx.rule("R13.8", "@task_unique: the kill_me pre-check and the claim name the task in the same evaluator (the one that runs the function), so both use the same '<context>.' prefix", floor=2)
    for uid, heap, args, want in (
        ("decorators/task.py::TaskUniqueDecorator.handle_call",
         {"self.kill_me": Const(True), "self.args": ListV((Const("n"),), "list"), "self.dm": ObjV("dm", "FunctionDecoratorManager"), "dm.ast_ctx": ObjV("defining_evaluator", "AstEval"),
          "data.call_ast_ctx": ObjV("run_evaluator", "AstEval"), "self.name": Const("task_unique"), "dm.name": Const("f")},
         {"self": ObjV("self", "TaskUniqueDecorator"), "data": ObjV("data", "DispatchData")}, "run_evaluator"),
    ):
        seen = []

        def used(i, n, a, k, c, o, seen=seen):
            seen.append(("pre-check", getattr(a[0], "oid", repr(a[0]))))
            return [(c, Const(False))]

        def factory(i, n, a, k, c, o, seen=seen):
            seen.append(("claim", getattr(a[0], "oid", repr(a[0]))))
            return [(c, Sym(("claimer",)))]

        pol = FlowPolicy(program, may_raise_all=False, cancel=False, summaries={"Function.unique_name_used": used, "Function.task_unique_factory": factory})
        run_flow(program, uid, pol, args=args, heap=heap)
        ok = sorted(set(seen)) == [("claim", want), ("pre-check", want)]
        ctx.check(ok, "R13.8", uid, "pre-check and claim use the evaluator that runs the function", msg=f"{uid}: evaluator used for {sorted(set(seen))}; both must be the run's own evaluator "
                  f"('{want}'): the defining evaluator's current context differs while it runs code of another file, the pre-check then looks at another key than the claim and the live owner is cancelled",
                  key="unique pre-check/claim evaluator", node=program.func(uid), rel=uid.split("::")[0])
    # legacy: both calls in call_action take the same evaluator variable
    ca = program.func("trigger.py::TrigInfo.call_action")
    a_used = [norm(n.args[0]) for n in body_walk(ca) if isinstance(n, ast.Call) and call_name(n) == "Function.unique_name_used" and n.args]
    a_fact = [norm(n.args[0]) for n in body_walk(ca) if isinstance(n, ast.Call) and call_name(n) == "Function.task_unique_factory" and n.args]
    a_eval = [norm(n.args[0]) for n in ast.walk(ca) if isinstance(n, ast.Call) and (call_name(n) or "").endswith("do_func_call") and n.args]
    ctx.check(bool(a_used) and bool(a_fact) and set(a_used) == set(a_fact) and (not a_eval or set(a_used) <= set(a_eval) | set(a_used)), "R13.8", "trigger.py::TrigInfo.call_action",
              "legacy: pre-check and claim use the same evaluator", msg=f"legacy call_action: pre-check on {a_used}, claim on {a_fact}", key="legacy unique pre-check/claim evaluator", node=ca, rel="trigger.py")

    ctx.rule("R13.13", "legacy @task_unique(kill_me=True): the claim made inside the new run applies the kill_me rule itself (two triggers firing at the same instant both pass "
             "the earlier pre-check; the second run must then be the one that ends, before its body starts - not the first)", floor=2)
    legacy_claim_rule(ctx, program, "R13.13")
    ctx.rule("R13.14", "new subsystem: @task_unique is applied to every accepted occurrence, also one accepted just before (or during: the shutdown occurrence) the stop of "
             "its function: the run's task starts only after stop() has emptied the manager's decorator list, so the call handlers are the ones handed over at dispatch time, "
             "not looked up when the task finally runs", floor=1)
    call_handlers_rule(ctx, program, "R13.14")
    ctx.rule("R13.15", "legacy subsystem: every trigger task of a function carries its @task_unique (a function with two triggers of one type gets two tasks; runs started by "
             "the second must claim the name like those of the first)", floor=3)
    from .c08 import legacy_grouping_table
    legacy_grouping_table(ctx, program, "R13.15")
    ctx.rule("R13.12", "unique names of different global contexts never meet: context names nest ('scripts.a' / 'scripts.a.b') and a name may contain dots, so the qualified key "
             "must still tell ('scripts.a', 'b.lock') from ('scripts.a.b', 'lock') - in the in-use test, in the claim and in task.name2id()", floor=3)
    context_isolation_rule(ctx, program, "R13.12")
    ctx.rule("R13.11", "the reaper delivers every cancel command: on each path that handles a 'cancel' command Task.cancel() is called on the named task, unconditionally, "
             "before the reaper waits for it (a task whose own timeout is just expiring still gets the request)", floor=1)
    reaper_cancel_rule(ctx, program, "R13.11")
    ctx.rule("R13.10", "the evaluator a triggered function runs on is built on the function's own context: names claimed by @task_unique and by task.unique in the "
             "body carry the same '<context>.' prefix wherever the function was created from", floor=5)
    from .c11 import action_evaluator_rule
    action_evaluator_rule(ctx, program, "R13.10")
    ctx.rule("R13.5", "@task_unique claims the name before the function body runs (both subsystems)", floor=2)
    # legacy: do_func_call awaits task_unique_func before ast_ctx.call_func
    uid = "trigger.py::TrigInfo.call_action.do_func_call"
    f = program.func(uid)
    order = [call_name(n) for n in body_walk(f) if isinstance(n, ast.Call) and call_name(n) in ("task_unique_func", "ast_ctx.call_func")]
    ctx.check(order[:2] == ["task_unique_func", "ast_ctx.call_func"], "R13.5", uid, "claim precedes the call (legacy)",
              msg=f"legacy do_func_call runs {order}: the unique name must be claimed before the function body starts", key="legacy claim order", node=f, rel="trigger.py")
    uid = "decorator.py::FunctionDecoratorManager._call"
    f = program.func(uid)
    pol = FlowPolicy(program, events=["handler_dec.handle_call", "data.call_ast_ctx.call_func"], may_raise_all=False, cancel=False, locals_={"self", "data"})
    out = run_flow(program, uid, pol)
    ok = True
    seen_call = False
    for kind, c, desc in exits(out):
        evs = [e[1] for e in c.trace if e[0] == "call"]
        if "data.call_ast_ctx.call_func" in evs:
            seen_call = True
            i = evs.index("data.call_ast_ctx.call_func")
            if "handler_dec.handle_call" in evs[i:]:
                ok = False
    ctx.check(ok and seen_call, "R13.5", uid, "call handlers (task_unique) run before the function (new)",
              msg="FunctionDecoratorManager._call no longer runs every CallHandlerDecorator before calling the function", key="new claim order", node=f, rel="decorator.py")
    # kill_me pre-check sits before any claim in both forms
    uid = "decorators/task.py::TaskUniqueDecorator.handle_call"
    f = program.func(uid)
    names = [call_name(n) for n in body_walk(f) if isinstance(n, ast.Call)]
    ctx.check("Function.unique_name_used" in names and "Function.task_unique_factory" in names and
              names.index("Function.unique_name_used") < names.index("Function.task_unique_factory"), "R13.5", uid,
              "kill_me pre-check precedes the claim", msg=f"TaskUniqueDecorator.handle_call order is {names}", key="kill_me precheck order", node=f, rel="decorators/task.py")
    ctx.rule("R13.6", "task.unique transition table: the owner map and the per-task name sets stay mutually consistent (so the owner's exit releases "
             "exactly its names), only pyscript tasks take names, the right task is handed to the reaper", floor=24)
    unique_table(ctx, program, "R13.6")
    return (
        "Static, source-only: task_unique is abstractly interpreted on every small registry model; the task handed to the reaper on each path is compared with the "
        "specified one (different task, task in our_tasks, kill_me); key forms of the three API sites are compared; task_unique interpreted on every small registry model (transition table with "
        "the two-way consistency invariant of the registries); write discipline on the two maps is checked over the whole package; claim-before-body ordering in both decorator paths.  Not decided: mutual exclusion over interleavings "
        "(cancellation is asynchronous through the reaper)."
    )


def _sleep_forever(interp, node, args, kwargs, cfg, out):
    # `await asyncio.sleep(100000)` after asking the reaper to cancel the caller: it only ever ends by cancellation
    out.add("raise", cfg.set("$exc", ExcV("CancelledError", "wait to be cancelled")))
    return []


def _key_of(program, name, ctx_name="ctx"):
    """The registry key the repository builds for (context, name): read from an interpreted first claim (no format is assumed here)."""
    pol = FlowPolicy(program, may_raise_all=False, cancel=False, inline=KEY_HELPERS, globals_={"cls": ClassV("Function"), "ctx": ObjV("gctx", "AstEval")},
                     summaries={"ctx.get_global_ctx_name": lambda i, n, a, k, c, o: [(c, Const(ctx_name))], "asyncio.current_task": lambda i, n, a, k, c, o: [(c, Const("T_key"))]})
    heap = {"Function.unique_name2task": DictV([]), "Function.unique_task2name": DictV([]), "Function.our_tasks": ListV((Const("T_key"),), "set")}
    keys = set()
    for k, c, d in exits(run_flow(program, TU, pol, args={"name": Const(name), "kill_me": Const(False)}, heap=heap)):
        tab = c.heap.get("Function.unique_name2task")
        if k == "return" and isinstance(tab, DictV) and len(tab.items) == 1 and isinstance(tab.items[0][0], Const):
            keys.add(tab.items[0][0].v)
    if len(keys) != 1:
        raise AnalysisError(f"task.unique({name!r}) on empty registries does not record exactly one constant key: {sorted(map(repr, keys))}")
    return keys.pop()


def unique_table(ctx, program, rid, aspect=None):
    """task_unique interpreted on finite registry models; checks events and the two-way consistency of the registries."""
    fn = program.func(TU)
    N, M = _key_of(program, "n"), _key_of(program, "m")
    n_cases = 0
    for owner in (None, "T_old", "T_cur"):          # who owns the name being claimed
        for extra in (False, True):                  # the owner also holds a second name
            if owner is None and extra:
                continue
            for old_ours in (True, False):
                if owner != "T_old" and not old_ours:
                    continue
                for cur_ours in (True, False):
                    if owner == "T_cur" and not cur_ours:
                        continue
                    for kill_me in (False, True):
                        n2t = {}
                        t2n = {}
                        if owner:
                            n2t[N] = owner
                            t2n[owner] = [N]
                            if extra:
                                n2t[M] = owner
                                t2n[owner].append(M)
                        ours = (["T_old"] if old_ours else []) + (["T_cur"] if cur_ours else [])
                        heap = {"Function.unique_name2task": DictV([(Const(k), Const(v)) for k, v in n2t.items()]),
                                "Function.unique_task2name": DictV([(Const(k), ListV(tuple(Const(x) for x in v), "set")) for k, v in t2n.items()]),
                                "Function.our_tasks": ListV(tuple(Const(x) for x in ours), "set")}
                        pol = FlowPolicy(program, events=["cls.reaper_cancel"], may_raise_all=False, cancel=False, inline=KEY_HELPERS,
                                         globals_={"cls": ClassV("Function"), "ctx": ObjV("gctx", "AstEval")},
                                         summaries={"ctx.get_global_ctx_name": lambda i, n, a, k, c, o: [(c, Const("ctx"))],
                                                    "asyncio.current_task": lambda i, n, a, k, c, o: [(c, Const("T_cur"))],
                                                    "asyncio.sleep": _sleep_forever})
                        out = run_flow(program, TU, pol, args={"name": Const("n"), "kill_me": Const(kill_me)}, heap=heap)
                        label = f"name owned by {owner or 'nobody'}{' (+ a second name)' if extra else ''}, owner {'is' if old_ours else 'is not'} a pyscript task, " \
                                f"caller {'is' if cur_ours else 'is not'} a pyscript task, kill_me={kill_me}"
                        other = owner is not None and owner != "T_cur"
                        want_cancel = (["T_cur"] if (kill_me and other and cur_ours) else ([] if (kill_me and other) else (["T_old"] if (other and not kill_me and old_ours) else [])))
                        bad = None
                        paths = exits(out)
                        for kind, c, desc in paths:
                            cancelled = [e[2][0].v if e[2] and isinstance(e[2][0], Const) else repr(e[2]) for e in c.trace if e[0] == "call" and e[1] == "cls.reaper_cancel"]
                            a = c.heap.get("Function.unique_name2task")
                            b = c.heap.get("Function.unique_task2name")
                            try:
                                g_n2t = {k.v: v.v for k, v in a.items}
                                g_t2n = {k.v: sorted(x.v for x in v.items) for k, v in b.items}
                            except AttributeError:
                                bad = f"registries become {a!r} / {b!r}"
                                continue
                            if cancelled != want_cancel:
                                bad = f"hands {cancelled} to the reaper, specified {want_cancel}" + \
                                      (" - tasks not started by pyscript (or the caller itself, or a task re-claiming its own name) could be cancelled" if aspect == "cancel" else "")
                            elif aspect == "cancel":
                                pass
                            elif kill_me and other and cur_ours:
                                if kind != "raise" or getattr(c.env.get("$exc"), "cls", "") != "CancelledError":
                                    bad = f"the caller continues ({desc}) although another task owns the name and kill_me is set"
                                elif g_n2t != n2t or g_t2n != {k: sorted(v) for k, v in t2n.items()}:
                                    bad = f"registries changed to {g_n2t} / {g_t2n} although the caller is the one being killed"
                            elif kind != "return":
                                bad = f"leaves with {desc}"
                            else:
                                incons = [f"{n}->{t}" for n, t in g_n2t.items() if n not in g_t2n.get(t, [])] + \
                                         [f"{t} lists {n}" for t, ns in g_t2n.items() for n in ns if g_n2t.get(n) != t]
                                if incons:
                                    bad = f"owner map {g_n2t} and name sets {g_t2n} disagree ({', '.join(incons)}): the owner's exit would not release / would release a name it does not own"
                                elif cur_ours and g_n2t.get(N) != "T_cur":
                                    bad = f"the caller does not own the name afterwards (owner map {g_n2t})"
                                elif not cur_ours and (g_n2t != n2t or g_t2n != {k: sorted(v) for k, v in t2n.items()}):
                                    bad = f"a task pyscript did not start changes the registries to {g_n2t} / {g_t2n}"
                                elif extra and other and g_n2t.get(M) != owner:
                                    bad = f"the previous owner loses its other name {M} (owner map {g_n2t})"
                        n_cases += 1
                        ctx.check(bool(paths) and bad is None, rid, TU, f"task.unique: {label}", msg=f"task.unique('n') with {label}: {bad or 'no exit'}",
                                  key=f"table {label}", node=fn, rel="function.py")
    return n_cases


def call_handlers_rule(ctx, program, rid):
    """FunctionDecoratorManager._call interpreted after the manager has been stopped (decorator list emptied) for an occurrence that was dispatched before: the
    @task_unique handler that was in force at dispatch must still be asked."""
    from ..absint import Out
    D = "decorator.py::FunctionDecoratorManager.dispatch"
    C = "decorator.py::FunctionDecoratorManager._call"
    tu = ObjV("tu", "TaskUniqueDecorator")
    coro = []

    def call_(i, n, a, k, c, o):
        coro.append((tuple(a), dict(k)))
        return [(c, Sym(("coro", "_call")))]

    def get_decorators(i, n, a, k, c, o):
        lst = c.heap.get("self._decorators")
        want = a[0] if a else None
        items = tuple(x for x in lst.items if want is None or (isinstance(want, ClassV) and want.name == "CallHandlerDecorator" and x == tu))
        return [(c, ListV(items, "list"))]

    glob = {"CallHandlerDecorator": ClassV("CallHandlerDecorator"), "CallResultHandlerDecorator": ClassV("CallResultHandlerDecorator"), "TriggerHandlerDecorator": ClassV("TriggerHandlerDecorator")}
    pol = FlowPolicy(program, may_raise_all=False, cancel=False, globals_=glob,
                     summaries={"self._call": call_, "self.get_decorators": get_decorators, "AstEval": lambda i, n, a, k, c, o: [(c, ObjV("run_eval", "AstEval"))],
                                "Function.install_ast_funcs": lambda i, n, a, k, c, o: [(c, NONE)], "Context": lambda i, n, a, k, c, o: [(c, ObjV("hctx", "Context"))],
                                "Function.create_task": lambda i, n, a, k, c, o: [(c, ObjV("task", "Task"))], "Function.task_done_callback_ctx": lambda i, n, a, k, c, o: [(c, NONE)],
                                "self._dispatch_lock.__aenter__": lambda i, n, a, k, c, o: [(c, NONE)], "self._dispatch_lock.__aexit__": lambda i, n, a, k, c, o: [(c, NONE)]})
    data = ObjV("data", "DispatchData")
    heap = {"self._decorators": ListV((tu,), "list"), "self.eval_func": ObjV("fn", "EvalFunc"), "fn.global_ctx_name": Const("file.x"), "fn.name": Const("f"), "fn.global_ctx": ObjV("g", "GlobalContext"),
            "self.name": Const("file.x.f"), "data.func_args": DictV([(Const("trigger_type"), Const("time"))]), "data.trigger": ObjV("tt", "TimeTriggerDecorator"), "self._dispatch_lock": ObjV("lock", "Lock")}
    out = run_flow(program, D, pol, args={"self": ObjV("self", "FunctionDecoratorManager"), "data": data}, heap=heap)
    ex = [(k, c, d) for k, c, d in exits(out)]
    bad = None
    asked = []
    if len(ex) != 1 or ex[0][0] != "return" or len(coro) != 1:
        bad = f"dispatch: exits {[d for k, c, d in ex]}, {len(coro)} run(s) created"
    else:
        # the manager is stopped before the run's task gets to execute
        h2 = dict(ex[0][1].heap)
        h2["self._decorators"] = ListV((), "list")
        h2["self.hass"] = ObjV("hass", "HomeAssistant")

        def handle_call(i, n, a, k, c, o):
            asked.append(n)
            return [(c, Const(True))]

        pol2 = FlowPolicy(program, may_raise_all=False, cancel=False, globals_=glob,
                          summaries={"self.get_decorators": get_decorators, "handler_dec.handle_call": handle_call, "self.hass.bus.async_fire": lambda i, n, a, k, c, o: [(c, NONE)],
                                     "Function.store_hass_context": lambda i, n, a, k, c, o: [(c, NONE)], "data.call_ast_ctx.call_func": lambda i, n, a, k, c, o: [(c, Sym(("result",)))]})
        pol2.loop_unroll = 3
        fn = program.func(C)
        params = [a.arg for a in fn.args.posonlyargs + fn.args.args][1:]
        a, kw = coro[0]
        args2 = {"self": ObjV("self", "FunctionDecoratorManager")}
        for nm, v in zip(params, a):
            args2[nm] = v
        args2.update(kw)
        out2 = run_flow(program, C, pol2, args=args2, heap=h2)
        ex2 = exits(out2)
        if not ex2 or any(k != "return" for k, c, d in ex2):
            bad = f"_call: exits {[d for k, c, d in ex2]}"
        elif not asked:
            bad = ("the run starts after stop() emptied the decorator list and _call looks the call handlers up only then: @task_unique is not applied "
                   "(the name is not claimed, a previous owner is not cancelled, kill_me does not end the run)")
    ctx.check(bad is None, rid, C, "the occurrence's call handlers survive the stop of its function", msg=f"FunctionDecoratorManager: occurrence dispatched, manager stopped, then the run's task executes: {bad}",
              key="call handlers bound at dispatch", node=program.func(C), rel="decorator.py")
