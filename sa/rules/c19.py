"""C19 - Jupyter kernel: lossless framing, authenticated requests, correlated replies (structural clauses)."""

from __future__ import annotations

import ast
import itertools

from ..absint import NONE, App, Cfg, ClassV, Const, DictV, ExcV, ListV, ObjV, Out, Sym
from ..flow import FlowPolicy, exits, run_flow
from ..repo import AnalysisError, body_walk, call_name, norm, short

LEVEL_TEXT = (
    "decides structural clauses of C19, not arbitrary TCP traffic: the frame writers and the frame reader agree on the "
    "wire format for every frame-length class around the 0/1/255/256/65535/65536 boundaries and every multipart shape up "
    "to three parts (the reader, abstractly interpreted on the writers' output, returns the same frames); read_bytes never "
    "requests more than the bytes still missing and raises on EOF; a message is used only after its HMAC was compared, with "
    "a fresh copy of the key state; for each request type every path of the shell handler sends busy first, idle last, "
    "exactly one correctly addressed reply whose parent is the request header, and bumps the execution counter once"
    "; a message reaches the transport in one write (no interleaving of concurrent senders); the JSON text is ASCII-escaped before encoding; a closed subscriber leaves the broadcast set"
    "; the housekeeping loop survives a failing item; containers shared between the kernel's coroutines are not iterated in place across awaits"
    '; the greeting handshake consumes exactly 64 bytes under fragmentation; every execute request is answered and its stdout flushed before idle; every non-None value is published'
)
LEVEL_NOTE = "frame contents are symbolic-size byte strings of representative lengths (boundary classes); asyncio streams, JSON and HMAC libraries are trusted; cell results are not decided"
TECHNIQUE = "abstract interpretation of ZmqSocket writers composed with the reader on boundary-length frames (writer/reader agreement), flow analysis of shell_handler per request type (ordered send events), dominance of the signature comparison"

Z = "jupyter_kernel.py::ZmqSocket"
K = "jupyter_kernel.py::Kernel"
LENGTHS = [0, 1, 2, 255, 256, 257, 65535, 65536]


def _frame(n, tag):
    return bytes([(tag + i) % 251 for i in range(n)])


class _Wire:
    """Summaries for the socket primitives: write_bytes appends to the wire, read_bytes consumes from it."""

    def __init__(self, data=b"", chunk=None):
        self.written = b""
        self.requests = []

    def policy(self, program, stream=b"", chunk=None):
        wire = self

        def write_bytes(interp, node, args, kwargs, cfg, out):
            cur = cfg.heap.get("$wire", Const(b""))
            cfg = cfg.hset("$writes", Const(cfg.heap.get("$writes", Const(0)).v + 1))
            if isinstance(args[0], Const):
                return [(cfg.hset("$wire", Const(cur.v + bytes(args[0].v))), NONE)]
            return [(cfg.hset("$wire", Sym(("unknown-bytes",))), NONE)]

        def read_bytes(interp, node, args, kwargs, cfg, out):
            cur = cfg.heap.get("$in", Const(b""))
            n = args[0].v if isinstance(args[0], Const) else None
            if n is None or not isinstance(cur, Const):
                return [(cfg, Sym(("bytes",)))]
            if len(cur.v) < n:
                out.add("raise", cfg.set("$exc", ExcV("EOFError", "read_bytes")))
                return []
            return [(cfg.hset("$in", Const(cur.v[n:])), Const(cur.v[:n]))]

        pol = FlowPolicy(program, may_raise_all=False, cancel=False, summaries={"self.write_bytes": write_bytes, "self.read_bytes": read_bytes})
        pol.loop_unroll = 12
        return pol


def _write(program, meth, arg):
    w = _Wire()
    pol = w.policy(program)
    out = run_flow(program, f"{Z}.{meth}", pol, args={"self": ObjV("self", "ZmqSocket"), ("parts" if meth == "send_multipart" else "msg"): arg}, heap={"$wire": Const(b"")})
    rets = out.get("return")
    if len(rets) != 1 or out.get("raise"):
        return None
    wire = rets[0].heap.get("$wire")
    return wire.v if isinstance(wire, Const) else None


def _read(program, stream, multipart=True):
    w = _Wire()
    pol = w.policy(program)
    out = run_flow(program, f"{Z}.recv", pol, args={"self": ObjV("self", "ZmqSocket"), "multipart": Const(multipart)}, heap={"$in": Const(stream)})
    res = []
    for c in out.get("return"):
        v = c.env.get("$ret")
        rest = c.heap.get("$in")
        if isinstance(v, ListV):
            res.append(([x.v if isinstance(x, Const) else repr(x) for x in v.items], rest.v if isinstance(rest, Const) else None))
        elif isinstance(v, Const):
            res.append((v.v, rest.v if isinstance(rest, Const) else None))
        else:
            res.append((repr(v), None))
    for c in out.get("raise"):
        res.append((f"raise {getattr(c.env.get('$exc'), 'cls', '?')}", None))
    return res


def loop_survival_rule(ctx, program, rid):
    for uid, q in (("jupyter_kernel.py::Kernel.housekeep_run", "self.housekeep_q.get"),):
        pol = FlowPolicy(program, may_raise_all=True, cancel=False, events=[q], record_atoms=False, no_raise={q})
        pol.trace_handlers = True
        pol.loop_unroll = 2
        out = run_flow(program, uid, pol)
        dead, n_handled = [], 0
        for k, c, d in exits(out):
            evs = [e for e in c.trace if (e[0] == "call" and e[1] == q) or (e[0] == "handler" and len(e) > 3 and e[3] == "Exception")]
            hs = [i for i, e in enumerate(evs) if e[0] == "handler"]
            if hs:
                n_handled += 1
                if not any(e[0] == "call" for e in evs[hs[0] + 1:]):
                    dead.append(f"{k} after the handler at line {evs[hs[0]][1]}")
            if k == "raise" and getattr(c.env.get("$exc"), "cls", "") == "Exception":
                dead.append(f"escapes: {d}")
        ctx.check(n_handled > 0 and not dead, rid, uid, "the loop continues after a failing item",
                  msg=f"{uid}: an exception while handling one item ends the loop ({sorted(set(dead))[:2]}): every later request is left without its idle status / reply",
                  key="housekeeping survives", node=program.func(uid), rel="jupyter_kernel.py")


SHARED_ITER_EXEMPT = {
    # one named function, with the reason
    "session_shutdown": "end of the session: the servers are closed first, no request is served afterwards (outside what C19 states)",
}
SNAPSHOT_FUNCS = {"list", "tuple", "set", "sorted", "frozenset", "dict"}
MUTATORS = {"add", "discard", "remove", "append", "pop", "clear", "update", "extend", "insert", "popitem", "setdefault"}


def shared_iteration_rule(ctx, program, rid):
    """Kernel: loops with an await in the body whose iterable is (an alias of) an attribute container that some method mutates in place."""
    cls = program.cls("jupyter_kernel.py::Kernel")
    mutated = {}
    for n in ast.walk(cls):
        if isinstance(n, ast.Call) and isinstance(n.func, ast.Attribute) and n.func.attr in MUTATORS and isinstance(n.func.value, ast.Attribute):
            mutated.setdefault(norm(n.func.value), []).append(n.lineno)
        if isinstance(n, (ast.Delete, ast.Assign)):
            for t in n.targets:
                if isinstance(t, ast.Subscript) and isinstance(t.value, ast.Attribute):
                    mutated.setdefault(norm(t.value), []).append(n.lineno)
    funcs = [f for f in ast.walk(cls) if isinstance(f, (ast.AsyncFunctionDef, ast.FunctionDef))]
    # which shared attributes reach which parameter (one level: self.method(self.attr, ...))
    param_alias = {}
    for n in ast.walk(cls):
        if isinstance(n, ast.Call) and isinstance(n.func, ast.Attribute) and isinstance(n.func.value, ast.Name) and n.func.value.id == "self":
            callee = [f for f in funcs if f.name == n.func.attr]
            if not callee:
                continue
            params = [a.arg for a in callee[0].args.args][1:]
            for p, a in zip(params, n.args):
                if isinstance(a, ast.Attribute) and norm(a) in mutated:
                    param_alias.setdefault((callee[0].name, p), set()).add(norm(a))
    n_loops = 0
    for fn in [f for f in funcs if isinstance(f, ast.AsyncFunctionDef)]:
        for loop in [l for l in ast.walk(fn) if isinstance(l, ast.For)]:
            if not any(isinstance(x, ast.Await) for st in loop.body for x in ast.walk(st)):
                continue
            # the containers the iterable may denote without a copy in between
            live = set()
            stack = [loop.iter]
            while stack:
                e = stack.pop()
                if isinstance(e, ast.IfExp):
                    stack += [e.body, e.orelse]
                elif isinstance(e, ast.Call) and isinstance(e.func, ast.Attribute) and e.func.attr in ("items", "keys", "values") and not e.args:
                    stack.append(e.func.value)
                elif isinstance(e, ast.Call):
                    continue  # list(x), sorted(x), x.copy(): a snapshot (or something else that is not the shared object)
                elif isinstance(e, ast.Attribute) and norm(e) in mutated:
                    live.add(norm(e))
                elif isinstance(e, ast.Name) and (fn.name, e.id) in param_alias:
                    live |= param_alias[(fn.name, e.id)]
            if not live and not any(isinstance(x, (ast.Attribute, ast.Name)) for x in ast.walk(loop.iter)):
                continue
            n_loops += 1
            uid = f"jupyter_kernel.py::Kernel.{fn.name}"
            if fn.name in SHARED_ITER_EXEMPT:
                ctx.ok(rid, uid, f"loop over `{short(loop.iter)}`: exempt - {SHARED_ITER_EXEMPT[fn.name]}")
                continue
            ctx.check(not live, rid, uid, f"loop over `{short(loop.iter)}` (awaits inside) walks a snapshot",
                      msg=f"Kernel.{fn.name}: `for {short(loop.target)} in {short(loop.iter)}` awaits inside the loop while it walks {sorted(live)} itself, which other coroutines change "
                      f"(lines {sorted({l for k in live for l in mutated[k]})[:4]}): a subscriber connecting or hanging up during a broadcast raises RuntimeError in the sender - the request in flight gets no "
                      f"reply/idle and the shell listener stops", key=f"live iteration {fn.name} {sorted(live)}", node=loop, rel="jupyter_kernel.py")
    if n_loops < 2:
        raise AnalysisError(f"Kernel: only {n_loops} awaiting loops found")


def run(ctx):
    program = ctx.program
    for m in ("read_bytes", "recv", "send", "send_multipart", "send_cmd", "handshake"):
        program.func(f"{Z}.{m}")

    ctx.rule("R19.1", "reader(writer(frames)) == frames for every boundary length class and multipart shape; a following message stays intact", floor=35)
    shapes = [[n] for n in LENGTHS] + [[a, b] for a in (0, 255, 256) for b in (0, 1, 255, 256, 65536)] + [[256, 0, 255], [1, 256, 65536], [0, 0, 0]]
    for shape in shapes:
        parts = [_frame(n, 7 * (i + 1)) for i, n in enumerate(shape)]
        wire = _write(program, "send_multipart", ListV([Const(p) for p in parts]))
        unit = f"{Z}.send_multipart"
        if wire is None:
            ctx.fail("R19.1", unit, f"multipart lengths {shape}", f"send_multipart on frames of lengths {shape} could not be evaluated to a single byte string (writer raises or branches on content)",
                     node=program.func(unit), rel="jupyter_kernel.py")
            continue
        tail = _write(program, "send_multipart", ListV([Const(b"next")])) or b""
        got = _read(program, wire + tail)
        ok = got == [(parts, tail)]
        shown = got[0][0] if got and isinstance(got[0][0], list) else got
        ctx.check(ok, "R19.1", f"{Z}.recv", f"multipart lengths {shape} read back identically",
                  msg=f"frames of lengths {shape} written by send_multipart are read back by recv as lengths "
                  f"{[len(x) if isinstance(x, (bytes, bytearray)) else x for x in shown] if isinstance(shown, list) else shown} "
                  f"(leftover {None if not got or got[0][1] is None else len(got[0][1])} bytes, expected {len(tail)}): writer and reader disagree on the framing",
                  key=f"roundtrip multipart {shape}", node=program.func(f"{Z}.recv"), rel="jupyter_kernel.py", sample={"wire_bytes": len(wire)})
    for n in LENGTHS:
        body = _frame(n, 3)
        wire = _write(program, "send", Const(body))
        unit = f"{Z}.send"
        if wire is None:
            ctx.fail("R19.1", unit, f"single frame length {n}", f"send() on a frame of length {n} could not be evaluated", node=program.func(unit), rel="jupyter_kernel.py")
            continue
        got = _read(program, wire, multipart=False)
        # send() writes an empty delimiter frame first (REQ/REP envelope); recv(multipart=False) joins the parts
        ctx.check(got == [(body, b"")], "R19.1", f"{Z}.recv", f"single frame of length {n} read back identically",
                  msg=f"a frame of length {n} written by send() is read back as {[(len(g[0]) if isinstance(g[0], (bytes, bytearray)) else g[0]) for g in got]}",
                  key=f"roundtrip single {n}", node=program.func(f"{Z}.recv"), rel="jupyter_kernel.py")
    # commands (READY) are skipped by the reader and do not disturb the following message
    for plen in (0, 10, 300):
        pol = _Wire().policy(program)
        out = run_flow(program, f"{Z}.send_cmd", pol, args={"self": ObjV("self", "ZmqSocket"), "cmd": Const("READY"),
                                                       "params": ListV([ListV([Const("Socket-Type"), Const("R" * plen)])])}, heap={"$wire": Const(b"")})
        rets = out.get("return")
        wire = rets[0].heap.get("$wire").v if len(rets) == 1 and isinstance(rets[0].heap.get("$wire"), Const) else None
        nxt = _write(program, "send_multipart", ListV([Const(b"after-cmd")])) or b""
        got = _read(program, (wire or b"") + nxt) if wire is not None else None
        ctx.check(got == [([b"after-cmd"], b"")], "R19.1", f"{Z}.send_cmd", f"command frame with parameter length {plen} is skipped by recv",
                  msg=f"a command written by send_cmd (parameter length {plen}) is not consumed correctly by recv: {got if got is None else [g[0] if not isinstance(g[0], list) else [len(x) for x in g[0]] for g in got]}",
                  key=f"command roundtrip {plen}", node=program.func(f"{Z}.send_cmd"), rel="jupyter_kernel.py")

    ctx.rule("R19.2", "read_bytes never requests more than the bytes still missing, returns exactly num_bytes, raises EOFError on EOF", floor=6)
    uid = f"{Z}.read_bytes"
    for total, chunk in ((5, 2), (5, 5), (1, 1), (8, 3), (300, 255), (3, 1)):
        requests = []

        def reader_read(interp, node, args, kwargs, cfg, out, chunk=chunk, requests=requests):
            n = args[0].v if args and isinstance(args[0], Const) else None
            src = cfg.heap.get("$src")
            requests.append((n, len(src.v)))
            take = min(chunk, n if n is not None else chunk, len(src.v))
            return [(cfg.hset("$src", Const(src.v[take:])), Const(src.v[:take]))]

        pol = FlowPolicy(program, may_raise_all=False, cancel=False, summaries={"self.reader.read": reader_read})
        pol.loop_unroll = 400
        stream = _frame(total + 4, 11)  # four extra bytes belong to the next field
        out = run_flow(program, uid, pol, args={"self": ObjV("self", "ZmqSocket"), "num_bytes": Const(total)}, heap={"$src": Const(stream)})
        rets = out.get("return")
        got = rets[0].env.get("$ret") if len(rets) == 1 else None
        rest = rets[0].heap.get("$src") if len(rets) == 1 else None
        over = [r for r in requests if r[0] is None or r[0] > total - (len(stream) - r[1])]
        ok = isinstance(got, Const) and got.v == stream[:total] and isinstance(rest, Const) and rest.v == stream[total:] and not over
        ctx.check(ok, "R19.2", uid, f"{total} bytes delivered in chunks of {chunk}",
                  msg=f"read_bytes({total}) with the stream delivering {chunk} byte(s) per read: requests {[(r[0]) for r in requests][:6]}, returns "
                  f"{len(got.v) if isinstance(got, Const) else got} bytes and leaves {len(rest.v) if isinstance(rest, Const) else rest} of 4 following bytes: bytes of the next frame are consumed",
                  key=f"read_bytes {total}/{chunk}", node=program.func(uid), rel="jupyter_kernel.py", sample={"requests": requests[:5]})
    # the stream ends after `have` of the requested bytes: EOFError, never a short result and never a busy loop
    for total, have in ((5, 0), (5, 3), (8, 7)):
        def eof_read(interp, node, args, kwargs, cfg, out):
            src = cfg.heap.get("$src")
            n = args[0].v if args and isinstance(args[0], Const) else len(src.v)
            take = min(n, len(src.v))
            return [(cfg.hset("$src", Const(src.v[take:])).hset("$reads", Const(cfg.heap.get("$reads", Const(0)).v + 1)), Const(src.v[:take]))]

        pol = FlowPolicy(program, may_raise_all=False, cancel=False, summaries={"self.reader.read": eof_read})
        pol.loop_unroll = 12
        out = run_flow(program, uid, pol, args={"self": ObjV("self", "ZmqSocket"), "num_bytes": Const(total)}, heap={"$src": Const(_frame(have, 5))})
        kinds = sorted({("raise " + getattr(c.env.get("$exc"), "cls", "?")) if k == "raise" else f"return {c.env.get('$ret')!r}" for k, c, d in exits(out)})
        ctx.check(kinds == ["raise EOFError"], "R19.2", uid, f"stream ends after {have} of {total} bytes -> EOFError",
                  msg=f"read_bytes({total}) when the peer closes after {have} byte(s): {kinds or 'no exit (keeps reading an ended stream)'}, specified ['raise EOFError']",
                  key=f"read_bytes EOF {total}/{have}", node=program.func(uid), rel="jupyter_kernel.py")

    ctx.rule("R19.11", "the greeting handshake consumes exactly the peer's 64 greeting bytes however the stream is fragmented (a short read would leave greeting bytes "
             "in the stream, which the frame reader then takes for frame headers)", floor=3)
    uid = f"{Z}.handshake"
    for chunk in (1, 7, 64):
        def reader_read(interp, node, args, kwargs, cfg, out, chunk=chunk):
            n = args[0].v if args and isinstance(args[0], Const) else None
            src = cfg.heap.get("$src")
            take = min(chunk, n if n is not None else chunk, len(src.v))
            return [(cfg.hset("$src", Const(src.v[take:])), Const(src.v[:take]))]

        def reader_exactly(interp, node, args, kwargs, cfg, out):
            src = cfg.heap.get("$src")
            n = args[0].v
            return [(cfg.hset("$src", Const(src.v[n:])), Const(src.v[:n]))]

        nop = lambda interp, node, args, kwargs, cfg, out: [(cfg, NONE)]  # noqa: E731
        pol = FlowPolicy(program, may_raise_all=False, cancel=False, inline={"self.read_bytes", "ZmqSocket.read_bytes"},
                         summaries={"self.reader.read": reader_read, "self.reader.readexactly": reader_exactly, "self.write_bytes": nop, "self.send_cmd": nop})
        pol.loop_unroll = 80
        follow = _frame(9, 3)
        out = run_flow(program, uid, pol, args={"self": ObjV("self", "ZmqSocket")}, heap={"$src": Const(_frame(64, 17) + follow), "self.type": Const("ROUTER")})
        ex = exits(out)
        rest = [c.heap.get("$src") for k, c, d in ex if k == "return"]
        ok = len(ex) == 1 and len(rest) == 1 and rest[0] == Const(follow)
        ctx.check(ok, "R19.11", uid, f"greeting delivered {chunk} byte(s) per read",
                  msg=f"handshake with the peer's greeting arriving {chunk} byte(s) per read: "
                  + (f"{64 + 9 - len(rest[0].v)} of the 64 greeting bytes consumed" if len(rest) == 1 and isinstance(rest[0], Const) else f"exits {[(k, d) for k, c, d in ex]}")
                  + " - what is left is parsed as frames of the first message", key=f"handshake chunk {chunk}", node=program.func(uid), rel="jupyter_kernel.py")

    ctx.rule("R19.3", "a wire message is returned only after its signature was compared with the HMAC of its frames; the key state is copied per message", floor=4)
    uid = f"{K}.deserialize_wire_msg"
    f = program.func(uid)
    pol = FlowPolicy(program, events=["self.msg_sign"], may_raise_all=False, cancel=False, locals_={"self", "check_sig", "m_signature", "msg_frames", "wire_msg", "delim_idx"})
    out = run_flow(program, uid, pol)
    bad = None
    n = 0
    for kind, c, desc in exits(out):
        if kind != "return":
            continue
        n += 1
        compared = any(("msg_sign" in repr(a)) and ("wire_msg" in repr(a) or "m_signature" in repr(a) or "getitem" in repr(a)) for a, v in c.assume)
        if not compared:
            bad = "a return path does not depend on comparing msg_sign(frames) with the received signature"
    ctx.check(bad is None and n > 0, "R19.3", uid, "every return passed the signature comparison", msg=f"deserialize_wire_msg: {bad}", key="signature compared before return", node=f, rel="jupyter_kernel.py")
    raises = [m for m in body_walk(f) if isinstance(m, ast.Raise)]
    ctx.check(bool(raises), "R19.3", uid, "mismatch raises", msg="deserialize_wire_msg no longer raises on a signature mismatch", key="mismatch raises", node=f, rel="jupyter_kernel.py")
    ms = program.func(f"{K}.msg_sign")
    copies = [m for m in body_walk(ms) if isinstance(m, ast.Assign) and isinstance(m.value, ast.Call) and isinstance(m.value.func, ast.Attribute) and m.value.func.attr == "copy"
              and "auth" in norm(m.value.func.value)]
    upd = [m for m in body_walk(ms) if isinstance(m, ast.Call) and isinstance(m.func, ast.Attribute) and m.func.attr == "update"]
    ok = bool(copies) and all(norm(u.func.value) == norm(copies[0].targets[0]) for u in upd) and bool(upd)
    ctx.check(ok, "R19.3", f"{K}.msg_sign", "HMAC state copied per message", msg="msg_sign updates the shared HMAC object instead of a per-message copy: signatures depend on earlier messages",
              key="hmac copy", node=ms, rel="jupyter_kernel.py")
    for huid in (f"{K}.shell_handler", f"{K}.control_listen"):
        hf = program.func(huid)
        pol = FlowPolicy(program, events=["self.deserialize_wire_msg", "self.send", "self.ast_ctx.parse", "self.ast_ctx.eval"], may_raise_all=False, cancel=False,
                         locals_={"self"}, record_atoms=False)
        pol.loop_unroll = 1
        out = run_flow(program, huid, pol)
        bad = None
        for kind, c, desc in exits(out):
            evs = [e[1] for e in c.trace if e[0] == "call"]
            for i, e in enumerate(evs):
                if e != "self.deserialize_wire_msg" and "self.deserialize_wire_msg" not in evs[:i]:
                    bad = f"{e} before the message was authenticated"
        ctx.check(bad is None, "R19.3", huid, "nothing is sent or executed before deserialize_wire_msg", msg=f"{huid}: {bad}", key="authentication dominates", node=hf, rel="jupyter_kernel.py")

    ctx.rule("R19.4", "per request type, every path: busy first, idle last, exactly one addressed reply with the request header as parent; execution counter bumped once", floor=10)
    uid = f"{K}.shell_handler"
    hf = program.func(uid)
    REPLY = {"execute_request": "execute_reply", "kernel_info_request": "kernel_info_reply", "complete_request": "complete_reply",
             "is_complete_request": "is_complete_reply", "comm_info_request": "comm_info_reply", "history_request": "history_reply", "comm_open": None, "bogus_request": None}
    for mtype, store_history in [(t, None) for t in REPLY if t != "execute_request"] + [("execute_request", True), ("execute_request", False), ("execute_request", "absent")]:
        header = DictV([(Const("msg_type"), Const(mtype)), (Const("msg_id"), Const("req-1"))])
        content = [(Const("code"), Const("x = 1")), (Const("cursor_pos"), Const(3))]
        if store_history in (True, False):
            content.append((Const("store_history"), Const(store_history)))
        msg = DictV([(Const("header"), header), (Const("content"), DictV(content)), (Const("parent_header"), DictV(())), (Const("metadata"), DictV(()))])
        ident = Sym(("identities",))

        def deser(interp, node, args, kwargs, cfg, out, msg=msg, ident=ident):
            return [(cfg, ListV([ident, msg], "tuple"))]

        def other_request(interp, node, args, kwargs, cfg, out):
            # a second connection may be handled while this one awaits: it overwrites session-wide state
            return [(cfg.hset("self.parent_header", Sym(("other-request-header",))), Sym(("result",)))]

        pol = FlowPolicy(program, events=["self.send"], may_raise_all=False, cancel=False, summaries={"self.deserialize_wire_msg": deser, "self.ast_ctx.eval": other_request},
                         locals_=None, record_atoms=True)
        pol.raising_labels = {"self.ast_ctx.parse"}
        pol.loop_unroll = 1
        heap = {"self.execution_count": Const(1), "self.iopub_socket": Sym(("iopub",)), "self.engine_id": Const("eng"), "self.parent_header": NONE}
        out = run_flow(program, uid, pol, args={"self": ObjV("self", "Kernel"), "shell_socket": Sym(("shell",)), "wire_msg": Sym(("wire",))}, heap=heap)
        problems = []
        npaths = 0
        for kind, c, desc in exits(out):
            npaths += 1
            if kind != "return":
                problems.append(f"handler leaves with {desc}")
                continue
            sends = [e for e in c.trace if e[0] == "call" and e[1] == "self.send"]
            def info(e):
                args, kw = e[2], dict(e[3])
                stream = args[0] if args else kw.get("stream")
                mt = args[1].v if len(args) > 1 and isinstance(args[1], Const) else None
                cont = args[2] if len(args) > 2 else kw.get("content")
                return stream, mt, cont, kw
            if not sends:
                problems.append("nothing sent")
                continue
            s0, s1 = info(sends[0]), info(sends[-1])
            def state(cont):
                return cont.get(Const("execution_state")).v if isinstance(cont, DictV) and cont.get(Const("execution_state")) is not None else None
            if not (s0[0] == Sym(("iopub",)) and s0[1] == "status" and state(s0[2]) == "busy"):
                problems.append("first message is not the busy status on iopub")
            if not (s1[0] == Sym(("iopub",)) and s1[1] == "status" and state(s1[2]) == "idle"):
                problems.append("last message is not the idle status on iopub")
            replies = [info(e) for e in sends if info(e)[0] == Sym(("shell",))]
            exp = REPLY[mtype]
            if exp is None:
                if replies:
                    problems.append(f"unexpected shell reply {[r[1] for r in replies]}")
            else:
                if [r[1] for r in replies] != [exp]:
                    problems.append(f"shell replies {[r[1] for r in replies]}, expected exactly one {exp}")
                for r in replies:
                    if r[3].get("identities") != ident:
                        problems.append("reply not addressed to the requester's identities")
            for e in sends:
                st, mt, cont, kw = info(e)
                if kw.get("parent_header") != header:
                    problems.append(f"{mt} carries parent_header {kw.get('parent_header')!r} instead of the request header")
            if mtype == "execute_request":
                cnt = c.heap.get("self.execution_count")
                want = 1 if store_history is False else 2
                if not (isinstance(cnt, Const) and cnt.v == want):
                    problems.append(f"execution counter {cnt!r} after the request, expected {want}")
                for e in sends:
                    st, mt, cont, kw = info(e)
                    if isinstance(cont, DictV) and cont.get(Const("execution_count")) is not None and cont.get(Const("execution_count")) != Const(1):
                        problems.append(f"{mt} reports execution_count {cont.get(Const('execution_count'))!r} for the first cell")
        label = mtype + ("" if store_history is None else f" store_history={store_history}")
        ctx.check(not problems and npaths > 0, "R19.4", uid, f"{label}: reply discipline on {npaths} paths",
                  msg=f"shell_handler for {label}: {sorted(set(problems))[:3]}", key=f"reply discipline {label}", node=hf, rel="jupyter_kernel.py", sample={"paths": npaths})
    ctx.rule("R19.12", "execute requests: whatever the cell does - succeeds, raises, or yields a value whose repr() raises - the request is answered (no exception leaves "
             "the handler: the listener would shut the whole session down) and the queued stdout is flushed (housekeeping handshake) before the idle status, so output "
             "is never shown after idle nor stamped with the next request's header", floor=1)
    header = DictV([(Const("msg_type"), Const("execute_request")), (Const("msg_id"), Const("req-1"))])
    msg = DictV([(Const("header"), header), (Const("content"), DictV([(Const("code"), Const("x"))])), (Const("parent_header"), DictV(())), (Const("metadata"), DictV(()))])

    def repr_(interp, node, args, kwargs, cfg, out):
        out.add("raise", cfg.set("$exc", ExcV("ValueError", "repr of the cell's value")))
        return [(cfg, Sym(("repr",)))]

    helpers = {f"self.{u.node.name}" for u in program.methods("jupyter_kernel.py", "Kernel") if any(isinstance(n, ast.Attribute) and n.attr == "housekeep_q" for n in ast.walk(u.node))
               and u.node.name not in ("shell_handler", "__init__", "housekeep_run")}
    pol = FlowPolicy(program, events=["self.send", "self.housekeep_q.put"], may_raise_all=False, cancel=False, locals_=None, record_atoms=True, inline=helpers,
                     summaries={"self.deserialize_wire_msg": lambda i, n, a, k, c, o: [(c, ListV([Sym(("identities",)), msg], "tuple"))],
                                "self.ast_ctx.eval": lambda i, n, a, k, c, o: [(c, Sym(("result",)))], "repr": repr_,
                                "handshake_q.get": lambda i, n, a, k, c, o: [(c, NONE)], "asyncio.Queue": lambda i, n, a, k, c, o: [(c, ObjV("hq", "Queue"))]})
    pol.raising_labels = {"self.ast_ctx.parse"}
    pol.loop_unroll = 1
    heap = {"self.execution_count": Const(1), "self.iopub_socket": Sym(("iopub",)), "self.engine_id": Const("eng"), "self.parent_header": NONE}
    out = run_flow(program, uid, pol, args={"self": ObjV("self", "Kernel"), "shell_socket": Sym(("shell",)), "wire_msg": Sym(("wire",))}, heap=heap)
    problems, npaths = [], 0
    for kind, c, desc in exits(out):
        npaths += 1
        if kind != "return":
            problems.append(f"the handler leaves with {desc}: no reply, no idle, and shell_listen's catch-all queues the session shutdown")
            continue
        seq = []
        for e in c.trace:
            if e[0] == "call" and e[1] == "self.send":
                cont = e[2][2] if len(e[2]) > 2 else None
                st = cont.get(Const("execution_state")) if isinstance(cont, DictV) else None
                seq.append("idle" if st == Const("idle") else (e[2][1].v if len(e[2]) > 1 and isinstance(e[2][1], Const) else "?"))
            elif e[0] == "call" and e[1] == "self.housekeep_q.put":
                seq.append("flush")
        if "idle" not in seq or "flush" not in seq[:seq.index("idle")]:
            problems.append(f"messages {seq}: the idle status is sent without flushing the queued stdout first")
    ctx.check(not problems and npaths >= 3, "R19.12", uid, f"execute_request: answered and flushed on {npaths} paths",
              msg=f"shell_handler, execute_request: {sorted(set(problems))[:3]}", key="execute answered and flushed", node=hf, rel="jupyter_kernel.py", sample={"paths": npaths})

    ctx.rule("R19.13", "execution results reflect the executed cell: every value other than None is published as execute_result with its repr (0, False, '' and empty "
             "containers included), None publishes nothing", floor=5)
    for val, shown in ((Const(0), "0"), (Const(False), "False"), (Const(""), "''"), (ListV((), "list"), "[]"), (Const(7), "7"), (NONE, None)):
        pol = FlowPolicy(program, events=["self.send", "self.housekeep_q.put"], may_raise_all=False, cancel=False, locals_=None, record_atoms=True, inline=helpers,
                         summaries={"self.deserialize_wire_msg": lambda i, n, a, k, c, o: [(c, ListV([Sym(("identities",)), msg], "tuple"))],
                                    "self.ast_ctx.eval": lambda i, n, a, k, c, o, val=val: [(c, val)], "repr": lambda i, n, a, k, c, o: [(c, App("repr", tuple(a)))],
                                    "handshake_q.get": lambda i, n, a, k, c, o: [(c, NONE)], "asyncio.Queue": lambda i, n, a, k, c, o: [(c, ObjV("hq", "Queue"))]})
        pol.loop_unroll = 1
        out = run_flow(program, uid, pol, args={"self": ObjV("self", "Kernel"), "shell_socket": Sym(("shell",)), "wire_msg": Sym(("wire",))}, heap=dict(heap))
        ex = [(k, c, d) for k, c, d in exits(out) if not any("parse" in repr(a) for a, v in c.assume)]
        res = set()
        for k, c, d in exits(out):
            if k != "return":
                res.add(d)
                continue
            pub = [e for e in c.trace if e[0] == "call" and e[1] == "self.send" and len(e[2]) > 1 and e[2][1] == Const("execute_result")]
            res.add(len(pub))
        want = {0} if shown is None else {1}
        ctx.check(res == want, "R19.13", uid, f"cell value {shown}", msg=f"execute_request whose cell evaluates to {shown}: execute_result messages published {sorted(map(str, res))}, specified {sorted(want)}",
                  key=f"execute_result {shown}", node=hf, rel="jupyter_kernel.py")

    ctx.rule("R19.6", "a whole message reaches the transport in one write: concurrent senders on one socket (shell replies and stdout forwarding share iopub) cannot interleave frames", floor=4)
    for meth, arg, label in (("send_multipart", ListV([Const(b"a"), Const(b"bb" * 200), Const(b"")]), "three frames"), ("send_multipart", ListV([Const(b"only")]), "one frame"),
                             ("send", Const(b"payload"), "single-frame message with its delimiter"), ("send", Const(b"x" * 300), "long single-frame message")):
        pol = _Wire().policy(program)
        out = run_flow(program, f"{Z}.{meth}", pol, args={"self": ObjV("self", "ZmqSocket"), ("parts" if meth == "send_multipart" else "msg"): arg}, heap={"$wire": Const(b"")})
        writes = sorted({c.heap.get("$writes", Const(0)).v for c in out.get("return")})
        ctx.check(writes == [1] and not out.get("raise"), "R19.6", f"{Z}.{meth}", f"{meth}: {label} written with one write_bytes",
                  msg=f"{Z}.{meth} ({label}) hands the message to the transport in {writes} separate awaited writes: write_bytes awaits drain(), another task sending on the same socket can run "
                  f"in between and its frames end up inside this message", key=f"single write {meth} {label}", node=program.func(f"{Z}.{meth}"), rel="jupyter_kernel.py")

    ctx.rule("R19.7", "every message can be serialised: the JSON text is ASCII-escaped (json.dumps default) or encoded with an error handler, so no text a script produces makes a send fail", floor=1)
    enc = program.func("jupyter_kernel.py::Kernel.send.encode")
    dumps = [n for n in body_walk(enc) if isinstance(n, ast.Call) and call_name(n) == "json.dumps"]
    s2b = program.func("jupyter_kernel.py::str_to_bytes")
    encodes = [n for n in body_walk(s2b) if isinstance(n, ast.Call) and isinstance(n.func, ast.Attribute) and n.func.attr == "encode"]
    tolerant = bool(encodes) and all(any(k.arg == "errors" for k in n.keywords) or len(n.args) > 1 for n in encodes)
    raw = [n for n in dumps if any(k.arg == "ensure_ascii" and not (isinstance(k.value, ast.Constant) and k.value.value is True) for k in n.keywords)]
    ctx.check(bool(dumps) and (not raw or tolerant), "R19.7", "jupyter_kernel.py::Kernel.send.encode", "message JSON is ASCII-escaped before the UTF-8 encode",
              msg=f"Kernel.send.encode: `{short(raw[0]) if raw else ''}` keeps non-ASCII characters and str_to_bytes encodes strictly: a lone surrogate in printed text, an exception message or the cell "
              f"source raises UnicodeEncodeError inside the send - the reply and the idle status are lost and the shell channel is closed", key="json ascii escaping", node=enc, rel="jupyter_kernel.py")

    ctx.rule("R19.8", "service loops of the kernel survive one failing item: after an exception while handling one queue item (a subscriber that hung up during the "
             "stdout broadcast) housekeeping still takes the next item - otherwise the post-execute handshake is never answered and no request gets its idle", floor=1)
    loop_survival_rule(ctx, program, "R19.8")
    ctx.rule("R19.9", "a container shared between the kernel's coroutines (the iopub subscriber set, the task table) is never iterated in place across an await while another "
             "coroutine adds/removes elements: the loop walks a snapshot (RuntimeError 'changed size during iteration' would drop the request in flight)", floor=2)
    shared_iteration_rule(ctx, program, "R19.9")

    ctx.rule("R19.5", "a subscriber connection that is closed is also taken out of the broadcast set (a later broadcast to a closed writer resets the shell channel)", floor=1)
    uid = "jupyter_kernel.py::Kernel.iopub_listen"
    # the local that holds the subscriber's socket: whatever ZmqSocket(...) is bound to
    lf = program.func(uid)
    sv = [n.targets[0].id for n in body_walk(lf) if isinstance(n, ast.Assign) and len(n.targets) == 1 and isinstance(n.targets[0], ast.Name) and isinstance(n.value, ast.Call)
          and call_name(n.value) == "ZmqSocket"]
    if len(sv) != 1:
        raise AnalysisError(f"iopub_listen: the subscriber's ZmqSocket is not bound to one local ({sv})")
    sockv = sv[0]
    pol = FlowPolicy(program, events=[f"{sockv}.close"], may_raise_all=True, cancel=True, locals_={"self", sockv}, record_atoms=False)
    pol.loop_unroll = 1
    out = run_flow(program, uid, pol, heap={"self.iopub_socket": ListV((), "set")})
    n_closed, stale = 0, []
    for kind, c, desc in exits(out):
        evs = [e[1] for e in c.trace if e[0] == "call"]
        sock = c.env.get(sockv)
        members = c.heap.get("self.iopub_socket")
        if f"{sockv}.close" in evs and kind == "return" and sock is not None:
            n_closed += 1
            if not isinstance(members, ListV) or sock in members.items:
                stale.append(desc)
    ctx.check(n_closed > 0 and not stale, "R19.5", uid, "closed subscriber removed from the broadcast set",
              msg=f"iopub_listen: on {len(stale)} path(s) the subscriber socket is closed but stays in self.iopub_socket: the next status broadcast writes to a closed connection, "
              f"shell_listen takes the ConnectionResetError for an EOF of the shell channel and the request gets no reply", key="closed subscriber stays in broadcast set",
              node=program.func(uid), rel="jupyter_kernel.py")
    return (
        "Static, source-only: ZmqSocket.send/send_multipart/send_cmd are abstractly interpreted on byte frames of the boundary length classes; the byte string they "
        "hand to write_bytes is fed to the abstractly interpreted recv through a read_bytes summary and the returned frames are compared (writer/reader agreement "
        "as translation validation between the two halves).  read_bytes is interpreted against streams delivering fixed-size chunks.  shell_handler is interpreted per "
        "request type with the ordered self.send events checked on every path (an interleaved request is modelled at the await of the cell evaluation).  Not decided: "
        "arbitrary fragmentation beyond read_bytes' contract, cell results, asyncio server behaviour."
    )
