"""C15 - task.wait_until returns for the first qualifying trigger and always cleans up (cleanup clauses)."""

from __future__ import annotations

import ast

from ..flow import FlowPolicy, exits, pairing, relevant_locals, run_flow
from ..absint import NONE, App, ClassV, Const, DictV, FuncV, ListV, ObjV, Out, Sym
from ..repo import AnalysisError, body_walk, call_name, norm

LEVEL_TEXT = (
    "decides the cleanup clause of C15 and two structural return clauses, not the timing behaviour: on every exit of "
    "task.wait_until (return, exception at any call, cancellation at any await) every subscription / listener / "
    "decorator manager it acquired has been released, in both subsystems; the temporary manager resolves its future "
    "only after stopping; the 'timeout' and 'none' results exist on the paths the statement names"
    "; a manager stopped while its start loop is still running starts no further trigger; the state subscription is released for every entity whatever the name order; legacy wait_until satisfies the hold clauses on scripted histories and the new one returns the first event's arguments on both expiry paths"
    "; every given timeout (0 included) creates the timeout trigger; 'none' only when a time trigger is the only condition; stop() arriving at any point of a trigger decorator's start() releases exactly what was acquired; the dictionary a wait returns is its own copy"
    '; shared bus/broker/webhook listeners are released when the last subscriber leaves; startup/shutdown words denote no instant inside a wait; None arguments mean absent; the state cycle starts whether or not anything was subscribed; the documented argument names are accepted; a negative timeout is a timeout now'
)
LEVEL_NOTE = (
    "assumes: any call outside the reviewed no-raise table may raise, any await may be cancelled; notify_del functions are "
    "idempotent no-raise dictionary operations (reviewed); which trigger is first and all timing is not decided"
)
TECHNIQUE = "acquire/release pairing by abstract interpretation with exceptional and cancellation exits (path-sensitive on guard atoms)"

LEGACY = "trigger.py::TrigTime.wait_until"
NEW = "decorator.py::DecoratorRegistry.wait_until"


class _DmPolicy(FlowPolicy):
    """Typestate of the temporary manager: RUNNING after start() returned, STOPPED after stop() or after wait_until() returned."""

    def on_await(self, interp, node, cfg):
        cfg = super().on_await(interp, node, cfg)
        name = call_name(node.value) if isinstance(node.value, ast.Call) else None
        if name == f"{self.var}.start":
            return cfg.set("$dm_running", Const(True))
        if name in (f"{self.var}.stop", f"{self.var}.wait_until"):
            return cfg.set("$dm_running", Const(False))
        return cfg

    var = "dm"  # the local of wait_until that holds the temporary manager (read from the code by the rule)

    def attr(self, interp, base, attr, cfg):
        if attr == "status" and base == cfg.env.get(self.var):
            running = cfg.env.get("$dm_running")
            if running is not None:
                return Sym(("clsattr", "DecoratorManagerStatus", "RUNNING" if running.v else "STOPPED"))
        return None


def run(ctx):
    program = ctx.program
    # ---------------------------------------------------------------- legacy implementation
    ctx.rule("R15.1", "legacy wait_until: each of the four notify_add kinds is released by notify_del on every exit", floor=4)
    fn = program.func(LEGACY)
    pairs = {
        "State.notify_add": ("state subscription", {"State.notify_del"}),
        "Event.notify_add": ("event subscription", {"Event.notify_del"}),
        "Mqtt.notify_add": ("mqtt subscription", {"Mqtt.notify_del"}),
        "Webhook.notify_add": ("webhook subscription", {"Webhook.notify_del"}),
    }
    found = {call_name(n) for n in body_walk(fn) if isinstance(n, ast.Call)} & set(pairs)
    if len(found) < 4:
        raise AnalysisError(f"{LEGACY}: expected 4 notify_add kinds, found {sorted(found)}")
    kind_locals = {
        "State.notify_add": {"state_trig_ident", "notify_q"},
        "Event.notify_add": {"event_trigger", "notify_q"},
        "Mqtt.notify_add": {"mqtt_trigger", "notify_q"},
        "Webhook.notify_add": {"webhook_trigger", "notify_q"},
    }
    leaks = []
    n = 0
    for acq, (k, rels) in pairs.items():  # one property simulation per resource kind
        all_rels = {r for _, rs in pairs.values() for r in rs}
        pol = FlowPolicy(program, events=sorted({acq} | rels), no_raise=all_rels, locals_=kind_locals[acq] | {"cls"})
        pol.acquire_labels = {acq}
        pol.widen_locals = True
        pol.loop_unroll = 1
        out = run_flow(program, LEGACY, pol)
        n1, l1 = pairing(out, {acq: (k, rels)})
        n += n1
        leaks += l1
    if n == 0:
        raise AnalysisError(f"{LEGACY}: no exits found")
    by_kind = {}
    for k, line, kind, desc in leaks:
        by_kind.setdefault(k, []).append((line, kind, desc))
    for acq, (k, _) in pairs.items():
        if k in by_kind:
            line, kind, desc = sorted(by_kind[k], key=lambda x: (x[1] != "raise", x[2]))[0]
            kinds = sorted({d.split(" at ")[0] for _, _, d in by_kind[k]})
            ctx.fail("R15.1", LEGACY, f"{k} released on every exit",
                     f"task.wait_until (legacy): the {k} acquired at line {line} is still registered on {len(by_kind[k])} exit path(s), "
                     f"e.g. [{desc}] (exit kinds: {kinds}); the queue/listener leaks",
                     node=fn, rel="trigger.py", detail={"exits": [d for _, _, d in by_kind[k]][:8]})
        else:
            ctx.ok("R15.1", LEGACY, f"{k} released on every exit ({n} exits analysed)")

    # ---------------------------------------------------------------- new implementation
    ctx.rule("R15.2", "new wait_until: the temporary decorator manager started by dm.start() is stopped on every exit", floor=3)
    fn2 = program.func(NEW)
    # the local that holds the temporary manager: whatever WaitUntilDecoratorManager(...) is bound to
    dmv = [n.targets[0].id for n in body_walk(fn2) if isinstance(n, ast.Assign) and len(n.targets) == 1 and isinstance(n.targets[0], ast.Name) and isinstance(n.value, ast.Call)
           and call_name(n.value) == "WaitUntilDecoratorManager"]
    if len(dmv) != 1:
        raise AnalysisError(f"{NEW}: the temporary WaitUntilDecoratorManager is not bound to one local ({dmv})")
    dm = dmv[0]
    pairs2 = {f"{dm}.start": ("decorator manager", {f"{dm}.stop", f"{dm}.wait_until"})}
    pol2 = _DmPolicy(program, events=[f"{dm}.start", f"{dm}.stop", f"{dm}.wait_until"], locals_={dm, "cls", "kwargs", "$dm_running"})
    pol2.var = dm
    pol2.acquire_labels = {f"{dm}.start", f"{dm}.wait_until"}  # dm.wait_until() counts as release only when it returns (summary below)
    out2 = run_flow(program, NEW, pol2)
    n2, leaks2 = pairing(out2, pairs2)
    if not any(call_name(n) == f"{dm}.start" for n in body_walk(fn2) if isinstance(n, ast.Call)):
        raise AnalysisError(f"{NEW}: {dm}.start() call not found")
    if leaks2:
        k, line, kind, desc = sorted(leaks2, key=lambda x: x[3])[0]
        ctx.fail("R15.2", NEW, "decorator manager stopped on every exit",
                 f"task.wait_until (new subsystem): after dm.start() (line {line}) the manager is not stopped on {len(leaks2)} exit path(s), e.g. [{desc}]: "
                 f"its state/event/time decorators stay subscribed",
                 node=fn2, rel="decorator.py", detail={"exits": [d for _, _, _, d in leaks2][:8]})
    else:
        ctx.ok("R15.2", NEW, f"decorator manager stopped on every exit ({n2} exits analysed)")
    # summary used above: WaitUntilDecoratorManager resolves its future only after self.stop(), and only once
    for meth in ("dispatch", "handle_exception"):
        uid = f"decorator.py::WaitUntilDecoratorManager.{meth}"
        f3 = program.func(uid)
        pol3 = FlowPolicy(program, events=["self.stop", "self._future.set_result", "self._future.set_exception", "self._future.done"],
                          may_raise_all=False, cancel=False, locals_={"self"})
        out3 = run_flow(program, uid, pol3)
        bad = None
        nset = 0
        for kind, c, desc in exits(out3):
            evs = [e[1] for e in c.trace if e[0] == "call"]
            for i, e in enumerate(evs):
                if e.startswith("self._future.set_"):
                    nset += 1
                    if "self.stop" not in evs[:i]:
                        bad = f"{e} without a preceding self.stop()"
                    if "self._future.done" not in evs[:i]:
                        bad = f"{e} without testing self._future.done()"
        if nset == 0:
            bad = "the future is never resolved"
        ctx.check(bad is None, "R15.2", uid, "future resolved only after stop() and a done() test",
                  msg=f"WaitUntilDecoratorManager.{meth}: {bad}", key=f"{meth} resolves after stop", node=f3, rel="decorator.py")

    # ---------------------------------------------------------------- qualifying evaluations (shared with @state_trigger)
    from .c05 import step_grid
    step_grid(ctx, program, "R15.4")

    # ---------------------------------------------------------------- result literals
    ctx.rule("R15.3", "the 'timeout' and 'none' results exist on the paths the statement names", floor=4)
    def literals(f):
        vals = set()
        for n in body_walk(f):
            if isinstance(n, ast.Dict):
                for k, v in zip(n.keys, n.values):
                    if isinstance(k, ast.Constant) and k.value == "trigger_type" and isinstance(v, ast.Constant):
                        vals.add(v.value)
        return vals
    lv = literals(fn)
    ctx.check({"timeout", "none"} <= lv, "R15.3", LEGACY, "legacy returns 'timeout' and 'none'",
              msg=f"legacy wait_until can only return trigger types {sorted(lv)}", key="legacy result literals", node=fn, rel="trigger.py")
    # 'none' when no argument at all is given: first statement section
    nv = literals(fn2) | literals(program.func("decorator.py::WaitUntilDecoratorManager.wait_until")) \
        | literals(program.func("decorators/timing.py::TimeTriggerDecorator._cycle"))
    ctx.check({"timeout", "none"} <= nv, "R15.3", NEW, "new subsystem returns 'timeout' and 'none'",
              msg=f"new wait_until can only return trigger types {sorted(nv)}", key="new result literals", node=fn2, rel="decorator.py")
    # timeout result is tied to the timeout decorator
    f4u = "decorator.py::WaitUntilDecoratorManager.wait_until"
    todec, other = ObjV("todec", "TimeTriggerDecorator"), ObjV("st", "StateTriggerDecorator")
    fa = DictV([(Const("trigger_type"), Const("state")), (Const("var_name"), Const("d.e"))])
    for label, trig, want in (("the timeout trigger fired", todec, DictV([(Const("trigger_type"), Const("timeout"))])), ("another trigger fired", other, fa)):
        pol = FlowPolicy(program, may_raise_all=False, cancel=False)
        heap = {"self._future": ObjV("data", "DispatchData"), "data.trigger": trig, "data.func_args": fa, "self.timeout_decorator": todec}
        out = run_flow(program, f4u, pol, args={"self": ObjV("self", "WaitUntilDecoratorManager")}, heap=heap)
        got = [c.env.get("$ret") if k == "return" else d for k, c, d in exits(out)]
        ok = len(got) == 1 and isinstance(got[0], DictV) and dict(got[0].items) == dict(want.items)
        ctx.check(ok, "R15.3", f4u, f"result when {label}", msg=f"WaitUntilDecoratorManager.wait_until when {label} returns {got!r}, specified {want!r}", key=f"wait result {label}",
                  node=program.func(f4u), rel="decorator.py")
    timeout_table(ctx, program, "R15.3")
    ctx.rule("R15.10", "new subsystem: a time trigger without any future instant ends the wait with 'none' only when it is the wait's only condition "
             "(with a state/event/mqtt/webhook condition or a timeout the wait goes on)", floor=3)
    none_result_rule(ctx, program, "R15.10")
    ctx.rule("R15.7", "wait_until with state_hold returns the arguments of the event that started the hold (new subsystem, both expiry paths)", floor=2)
    from .c05 import hold_expiry_rule
    hold_expiry_rule(ctx, program, "R15.7")

    ctx.rule("R15.8", "the state subscription of a wait is released for every watched entity, whatever order the names come in (an entity named twice, a name without entity)", floor=20)
    state_unsubscribe_table(ctx, program, "R15.8")

    ctx.rule("R15.5", "a manager that is stopped while its start loop is still running (the first trigger fired at once) starts no further trigger", floor=2)
    start_typestate(ctx, program, "R15.5")

    ctx.rule("R15.9", "trigger decorators (state, webhook, event, mqtt): a stop() that arrives at any point of start() - before it, at each call inside it that can run "
             "other code, after it - releases exactly what start() had acquired by then (nothing is left registered, nothing of another owner is released)", floor=9)
    decorator_typestate(ctx, program, "R15.9")

    ctx.rule("R15.11", "the dictionary a wait returns (and tests its condition on) is its own: every subscriber queue of a state/event/mqtt/webhook source gets a copy of "
             "the occurrence's arguments, so a trigger function's kwargs or another wait cannot alter it", floor=4)
    from .c08 import fanout_copy_rule
    fanout_copy_rule(ctx, program, "R15.11")

    ctx.rule("R15.12", "the bus/broker/webhook listener a wait shares with other subscribers is released (its un-listen handle called) when the last subscriber "
             "leaves, and registered once when the first arrives (subscriber-table transitions of Event, Mqtt, Webhook)", floor=24)
    from .c08 import listener_table
    listener_table(ctx, program, "R15.12")

    ctx.rule("R15.13", "a wait has no start-up or shutdown of its own: time_trigger 'startup' / 'shutdown' / an empty list denote no instant inside task.wait_until "
             "(no occurrence when the wait starts, none when it ends or is cancelled), while a function's @time_trigger keeps both", floor=8)
    wait_words_table(ctx, program, "R15.13")

    ctx.rule("R15.14", "task.wait_until: None - the documented default of every trigger argument - means the trigger is absent, also when it is passed explicitly "
             "(the legacy subsystem's signature says so; new subsystem's argument loop interpreted)", floor=3)
    none_argument_table(ctx, program, "R15.14")

    ctx.rule("R15.15", "the check of state_check_now (and the exception of a condition) does not depend on the expression naming a state variable: the state trigger's "
             "cycle - where the expression is first evaluated - is started whether or not anything could be subscribed (must-pass-through in StateTriggerDecorator.start)", floor=2)
    uid = "decorators/state.py::StateTriggerDecorator.start"
    for subscribed in (True, False):
        pol = FlowPolicy(program, may_raise_all=False, cancel=False, events=["self.dm.hass.async_create_background_task"],
                         summaries={"super().start": lambda i, n, a, k, c, o: [(c, NONE)], "asyncio.Queue": lambda i, n, a, k, c, o: [(c, ObjV("q", "Queue"))],
                                    "State.notify_add": lambda i, n, a, k, c, o, subscribed=subscribed: [(c, Const(subscribed))], "self._cycle": lambda i, n, a, k, c, o: [(c, Sym(("coro",)))]})
        out = run_flow(program, uid, pol, args={"self": ObjV("self", "StateTriggerDecorator")}, heap={"self.state_trig_ident": ListV((), "set")})
        ex = exits(out)
        started = [sum(1 for e in c.trace if e[0] == "call" and e[1] == "self.dm.hass.async_create_background_task") for k, c, d in ex if k == "return"]
        ctx.check(bool(started) and all(n == 1 for n in started) and len(started) == len(ex), "R15.15", uid, f"cycle started when notify_add returns {subscribed}",
                  msg=f"StateTriggerDecorator.start with State.notify_add -> {subscribed}: the cycle task is started {started} time(s) on its exits {[d for k, c, d in ex]}: "
                  "task.wait_until(state_trigger='True') never returns 'state' and an exception in such a condition is lost (legacy evaluates both)",
                  key=f"cycle started subscribed={subscribed}", node=program.func(uid), rel="decorators/state.py")

    ctx.rule("R15.16", "new subsystem: a wait on a webhook id that another decorator (a trigger function, another wait) already uses is taken out of the id's subscribers when "
             "it ends, and the last one to leave removes the registration (either order)", floor=2)
    from .c08 import webhook_release_table
    webhook_release_table(ctx, program, "R15.16")

    ctx.rule("R15.17", "task.wait_until takes the same (documented) argument names in both subsystems: every parameter of the legacy implementation is an argument the new "
             "one accepts - as a trigger decorator's name, one of its keyword options, or a documented alias of one (webhook_local_only, webhook_methods, mqtt_trigger_encoding)", floor=1)
    leg = program.func(LEGACY)
    legacy_params = [a.arg for a in leg.args.args if a.arg not in ("cls", "self", "ast_ctx")] + [a.arg for a in leg.args.kwonlyargs]
    accepted = set()
    for rel in ("decorators/state.py", "decorators/timing.py", "decorators/event.py", "decorators/mqtt.py", "decorators/webhook.py", "decorator_abc.py"):
        for n in ast.walk(program.module(rel)):
            if isinstance(n, ast.ClassDef):
                for st in n.body:
                    tgt = st.targets[0] if isinstance(st, ast.Assign) and len(st.targets) == 1 else (st.target if isinstance(st, ast.AnnAssign) else None)
                    if isinstance(tgt, ast.Name) and tgt.id == "name" and isinstance(getattr(st, "value", None), ast.Constant):
                        accepted.add(st.value.value)
                    if isinstance(tgt, ast.Name) and tgt.id == "kwargs_schema" and getattr(st, "value", None) is not None:
                        for c in ast.walk(st.value):
                            if isinstance(c, ast.Call) and (call_name(c) or "").split(".")[-1] in ("Optional", "Required") and c.args and isinstance(c.args[0], ast.Constant):
                                accepted.add(c.args[0].value)
    wu = program.func("decorator.py::DecoratorRegistry.wait_until")
    wu_nodes = program.walk_with_helpers("decorator.py::DecoratorRegistry.wait_until")  # wait_until and the helpers of the registry it calls
    for n in wu_nodes:
        if isinstance(n, ast.Call) and (call_name(n) or "").endswith(".add") and n.args and isinstance(n.args[0], ast.Constant) and isinstance(n.args[0].value, str):
            accepted.add(n.args[0].value)
        if isinstance(n, ast.Dict) and n.keys and all(isinstance(k, ast.Constant) and isinstance(k.value, str) for k in n.keys):
            accepted |= {k.value for k in n.keys}   # an alias table {documented name: (decorator, option)}
        if isinstance(n, ast.For) and isinstance(n.iter, (ast.Tuple, ast.List)) and n.iter.elts and all(
                isinstance(e, ast.Tuple) and e.elts and all(isinstance(x, ast.Constant) and isinstance(x.value, str) for x in e.elts) for e in n.iter.elts):
            accepted |= {e.elts[0].value for e in n.iter.elts}   # an alias table written as pairs (documented name, option)
    mod_consts = {t.id: st.value for st in program.module("decorator.py").body if isinstance(st, ast.Assign) for t in st.targets if isinstance(t, ast.Name)}
    for n in wu_nodes:
        it = n.iter if isinstance(n, ast.For) else None
        if isinstance(it, ast.Call) and isinstance(it.func, ast.Attribute) and it.func.attr == "items":
            it = it.func.value
        if isinstance(it, ast.Name) and it.id in mod_consts:
            v = mod_consts[it.id]
            if isinstance(v, ast.Dict):
                accepted |= {k.value for k in v.keys if isinstance(k, ast.Constant) and isinstance(k.value, str)}
            elif isinstance(v, (ast.Tuple, ast.List)):
                accepted |= {e.elts[0].value for e in v.elts if isinstance(e, ast.Tuple) and e.elts and isinstance(e.elts[0], ast.Constant) and isinstance(e.elts[0].value, str)}
    for n in ast.walk(program.module("decorator.py")):
        if isinstance(n, ast.Assign) and isinstance(n.value, ast.Dict) and n.value.keys and all(isinstance(k, ast.Constant) and isinstance(k.value, str) for k in n.value.keys) \
                and any("alias" in norm(t).lower() for t in n.targets):
            accepted |= {k.value for k in n.value.keys}
    missing = [p for p in legacy_params if p not in accepted]
    ctx.check(not missing, "R15.17", "decorator.py::DecoratorRegistry.wait_until", "every documented argument name is accepted",
              msg=f"task.wait_until in the new subsystem rejects the documented argument(s) {missing} (ValueError: Unknown arguments): the legacy implementation - and docs/reference.rst - "
              f"name them; accepted are {sorted(accepted)}", key="wait_until argument names", node=wu, rel="decorator.py")

    ctx.rule("R15.18", "legacy wait_until: a refused webhook / MQTT / event registration leaves the shared subscriber table as it was (later waits on that id still register)", floor=3)
    from .c08 import refused_registration_table
    refused_registration_table(ctx, program, "R15.18")

    ctx.rule("R15.6", "legacy wait_until: a notification received during a pending state_hold is never taken for the hold's expiry (scripted histories)", floor=7)
    from .c05 import legacy_hold_rules
    legacy_hold_rules(ctx, program, "R15.6", uids=(LEGACY,))

    return (
        "Static, source-only: TrigTime.wait_until and DecoratorRegistry.wait_until are abstractly interpreted with every call a possible "
        "Exception exit and every await a possible CancelledError exit; on each exit the ordered acquire/release events are paired per kind "
        "(state/event/mqtt/webhook subscription; decorator manager).  The summary 'dm.wait_until() returns only after stop()' is itself checked on "
        "WaitUntilDecoratorManager.dispatch/handle_exception.  Not decided: which trigger fires first, timing, values returned."
    )


TYPESTATE = [
    # (class unit, acquisition call, release call, True when releasing without having acquired can take away somebody else's registration)
    ("decorators/state.py::StateTriggerDecorator", "State.notify_add", "State.notify_del", False),
    ("decorators/webhook.py::WebhookTriggerDecorator", "webhook.async_register", "webhook.async_unregister", True),
    ("decorators/event.py::EventTriggerDecorator", "self.dm.hass.bus.async_listen", "self.remove_listener_callback", False),
    ("decorators/mqtt.py::MQTTTriggerDecorator", "mqtt.async_subscribe", "self.remove_listener_callback", False),
]


class _TypestatePolicy(FlowPolicy):
    """start(): after the acquisition every call that can run foreign code (an await, an eagerly started task) is a point where stop() may re-enter;
    the heap at each such point is recorded."""

    def __init__(self, program, acquire, **kw):
        super().__init__(program, **kw)
        self.acquire = acquire
        self.snaps = []

    def call(self, interp, node, fname, fval, args, kwargs, cfg, out):
        label = self.label(fname, fval)
        if label == self.acquire:
            cfg = cfg.emit(("call", "acquire", tuple(args), (), getattr(node, "lineno", 0)))
            if label == "State.notify_add":
                return [(cfg, Const(True))]
            return [(cfg, ObjV("handle", "CALLBACK_TYPE"))]  # the un-subscribe handle (a callable: truthy)
        held = any(e[0] == "call" and e[1] == "acquire" for e in cfg.trace)
        if label and not self.is_no_raise(label) and label not in self.summaries and not label.startswith("_LOGGER."):
            self.snaps.append((f"inside {label} (line {node.lineno})", dict(cfg.heap), held))
        return super().call(interp, node, fname, fval, args, kwargs, cfg, out)


def decorator_typestate(ctx, program, rid):
    """Trigger decorators of the new subsystem: stop() may arrive at any re-entry point of start() (DecoratorManager.stop walks all decorators, started or not)."""
    for cls_uid, acquire, release, shared in TYPESTATE:
        rel = cls_uid.split("::")[0]
        st_uid, sp_uid = f"{cls_uid}.start", f"{cls_uid}.stop"
        summ = {"super().start": lambda i, n, a, k, c, o: [(c, NONE)], "super().stop": lambda i, n, a, k, c, o: [(c, NONE)]}
        pol = _TypestatePolicy(program, acquire, may_raise_all=False, cancel=False, summaries=summ, globals_={cls_uid.split("::")[1]: ClassV(cls_uid.split("::")[1])})
        self_v = ObjV("self", cls_uid.split("::")[1])
        heap0 = {"self.args": ListV((Const("hook1"), ), "list"), "self.webhook_id": Const("hook1"),
                 "self.state_trig_ident": ListV((Const("d.a"),), "set"), "self.dm": ObjV("dm", "DecoratorManager"), "self.name": Const("t")}
        # class-level defaults of the decorator class (constants) are the instance's initial attribute values
        for st in program.cls(cls_uid).body:
            tgt = st.target if isinstance(st, ast.AnnAssign) else (st.targets[0] if isinstance(st, ast.Assign) and len(st.targets) == 1 else None)
            if isinstance(tgt, ast.Name) and isinstance(getattr(st, "value", None), ast.Constant):
                heap0.setdefault(f"self.{tgt.id}", Const(st.value.value))
            elif isinstance(tgt, ast.Name) and isinstance(getattr(st, "value", None), ast.Dict) and not st.value.keys:
                heap0.setdefault(f"{cls_uid.split('::')[1]}.{tgt.id}", DictV([]))  # a registry shared by the instances of the class
        out = run_flow(program, st_uid, pol, args={"self": self_v}, heap=dict(heap0))
        ends = [(f"after start() returned", dict(c.heap), any(e[0] == "call" and e[1] == "acquire" for e in c.trace)) for k, c, d in exits(out) if k == "return"]
        if not ends or not any(h for _, _, h in ends):
            raise AnalysisError(f"{st_uid}: no path of start() reaches the acquisition {acquire}")
        states = [("before start()", dict(heap0), False)] + pol.snaps + ends
        n = 0
        for where, heap, held in states:
            pol2 = FlowPolicy(program, may_raise_all=False, cancel=False, summaries=summ, events=[release], globals_={cls_uid.split("::")[1]: ClassV(cls_uid.split("::")[1])})
            o2 = run_flow(program, sp_uid, pol2, args={"self": self_v}, heap=heap)
            bad = None
            for k, c, d in exits(o2):
                rels = [e for e in c.trace if e[0] == "call" and e[1] == release]
                if k != "return":
                    bad = f"stop() ends with {d}"
                elif held and len(rels) != 1:
                    bad = f"stop() releases {len(rels)} time(s) although start() had already acquired ({acquire}): the registration is never removed"
                elif not held and shared and rels:
                    bad = (f"stop() releases ({release}) although start() had not acquired anything yet: a registration of the same id made by another function is removed")
            n += 1
            ctx.check(bad is None, rid, sp_uid, f"stop() arriving {where} ({'holding' if held else 'not holding'})",
                      msg=f"{cls_uid.split('::')[1]}: stop() arriving {where}: {bad}", key=f"typestate {where.split(' (line')[0]} held={held}", node=program.func(sp_uid), rel=rel)


def timeout_table(ctx, program, rid):
    """WaitUntilDecoratorManager.__init__ interpreted for timeout values: every given number - 0 included - yields the timeout trigger once(now + <t>s)."""
    uid = "decorator.py::WaitUntilDecoratorManager.__init__"
    for t in (0, 0.0, 0.5, 30, -1, None, "absent"):
        made = []

        def to_dec(i, n, a, k, c, o, made=made):
            made.append(a[0] if a else None)
            return [(c, ObjV("todec", "TimeTriggerDecorator"))]

        kw = DictV([(Const("state_trigger"), Const("d.a == '1'"))] + ([] if t == "absent" else [(Const("timeout"), Const(t))]))
        pol = FlowPolicy(program, may_raise_all=False, cancel=False, events=["self.add"],
                         summaries={"super().__init__": lambda i, n, a, k, c, o: [(c, NONE)], "self.hass.loop.create_future": lambda i, n, a, k, c, o: [(c, ObjV("fut", "Future"))],
                                    "DecoratorRegistry._decorators.get": lambda i, n, a, k, c, o: [(c, FuncV(None, name="to_dec"))], "to_dec": to_dec})
        out = run_flow(program, uid, pol, args={"self": ObjV("self", "WaitUntilDecoratorManager"), "ast_ctx": ObjV("actx", "AstEval"), "kwargs": kw})
        bad = None
        ex = exits(out)
        for k, c, d in ex:
            adds = [e for e in c.trace if e[0] == "call" and e[1] == "self.add"]
            td = c.heap.get("self.timeout_decorator")
            if k != "return":
                bad = f"ends with {d}"
            elif t in (None, "absent"):
                if adds or td not in (NONE, None):
                    bad = "a timeout trigger is created although no timeout was given"
            else:
                specs = [x.v for m in made if isinstance(m, ListV) for x in m.items if isinstance(x, Const)]
                if len(adds) != 1 or td in (NONE, None):
                    bad = f"no timeout trigger is created: the wait never returns 'timeout' (specs {specs})"
                elif t >= 0 and specs != [f"once(now + {t}s)"]:
                    bad = f"the timeout trigger is built from {specs} instead of ['once(now + {t}s)']"
                elif t < 0 and specs not in (["once(now + 0s)"], ["once(now)"], ["once(now + 0.0s)"]):
                    bad = (f"the timeout trigger is built from {specs}: an instant in the past never occurs, the wait never returns (a timeout that has already passed is a "
                           "timeout now: the legacy subsystem returns 'timeout' at once)")
        ctx.check(bool(ex) and bad is None, rid, uid, f"timeout={t!r}", msg=f"task.wait_until(..., timeout={t!r}) (new subsystem): {bad or 'no exit'}", key=f"timeout value {t!r}",
                  node=program.func(uid), rel="decorator.py")


def none_result_rule(ctx, program, rid):
    """TimeTriggerDecorator._cycle with a specification that has no future instant, inside a wait with / without other conditions."""
    from ..absint import ClassV
    uid = "decorators/timing.py::TimeTriggerDecorator._cycle"
    me = ObjV("self", "TimeTriggerDecorator")
    others = {"only this time trigger": [], "a state trigger as well": [ObjV("st", "StateTriggerDecorator")], "a timeout as well": [ObjV("todec", "TimeTriggerDecorator")],
              "an event trigger as well": [ObjV("ev", "EventTriggerDecorator")]}
    for label, extra in others.items():
        decs = ListV(tuple(extra + [me]), "list")
        pol = FlowPolicy(program, may_raise_all=False, cancel=False, events=["self.dispatch"],
                         summaries={"trigger.TrigTime.timer_trigger_next": lambda i, n, a, k, c, o: [(c, ListV((NONE, NONE), "tuple"))],
                                    "self.dm.get_decorators": lambda i, n, a, k, c, o, decs=decs: [(c, decs)],
                                    "DispatchData": lambda i, n, a, k, c, o: [(c, a[0] if a else NONE)]},
                         globals_={"WaitUntilDecoratorManager": ClassV("WaitUntilDecoratorManager"), "TriggerDecorator": ClassV("TriggerDecorator"),
                                   "TimeTriggerDecorator": ClassV("TimeTriggerDecorator")})
        heap = {"self.dm": ObjV("dm", "WaitUntilDecoratorManager"), "dm.status": Sym(("clsattr", "DecoratorManagerStatus", "RUNNING")), "self.run_on_startup": Const(False),
                "self.timespec": ListV((Const("once(2019/1/1 0:0)"),), "list"), "dm.startup_time": Sym(("t0",)), "dm._decorators": decs, "dm.timeout_decorator": extra[0] if label.startswith("a timeout") else NONE,
                "self.name": Const("time_trigger"), "dm.name": Const("w")}
        out = run_flow(program, uid, pol, args={"self": me}, heap=heap)
        bad = None
        ex = exits(out)
        for k, c, d in ex:
            nones = [e for e in c.trace if e[0] == "call" and e[1] == "self.dispatch" and "none" in repr(e[2])]
            if k != "return":
                bad = f"ends with {d}"
            elif not extra and len(nones) != 1:
                bad = f"'none' is dispatched {len(nones)} time(s): a wait on time triggers that have no future instant must return 'none'"
            elif extra and nones:
                bad = "'none' ends the wait at once although another condition (or the timeout) is still pending"
        ctx.check(bool(ex) and bad is None, rid, uid, f"no future instant, {label}", msg=f"task.wait_until with a time trigger that has no future instant and {label}: {bad or 'no exit'}",
                  key=f"none result: {label}", node=program.func(uid), rel="decorators/timing.py")


class _StartPolicy(FlowPolicy):
    live_lists = True  # `for d in self._decorators` iterates the live list object, as Python's list iterator does

    def __init__(self, program, stop_fn, **kw):
        super().__init__(program, **kw)
        self.stop_fn = stop_fn

    def call(self, interp, node, fname, fval, args, kwargs, cfg, out):
        # (the decorator being started / stopped is the receiver of the call, whatever the loop variable is called)
        dec = None
        if fname and fname.count(".") == 1 and fname.split(".")[1] in ("start", "stop") and fname.split(".")[0] not in ("self", "cls"):
            dec = fval.recv if isinstance(fval, FuncV) and fval.recv is not None else cfg.env.get(fname.split(".")[0])
            if not (isinstance(dec, ObjV) and dec.cls == "Decorator"):
                dec = None
        if dec is not None and fname.endswith(".start"):
            c = cfg.emit(("call", "start", dec))
            res = [(c, NONE)]
            if not any(e[0] == "reentrant-stop" for e in c.trace):
                # the trigger just started fires at once (state_check_now / eager task start) and its dispatch stops the manager
                c2 = c.emit(("reentrant-stop",))
                sub = Out()
                r = interp.inline(node, FuncV(self.stop_fn, recv=cfg.env.get("self"), name="DecoratorManager.stop"), [], {}, c2, sub)
                res += [(cc, NONE) for cc, _ in r]
            return res
        if dec is not None and fname.endswith(".stop"):
            return [(cfg.emit(("call", "stop", dec)), NONE)]
        return super().call(interp, node, fname, fval, args, kwargs, cfg, out)


def start_typestate(ctx, program, rid):
    """DecoratorManager.start interpreted with a re-entrant stop() possible inside every decorator.start()."""
    uid = "decorator_abc.py::DecoratorManager.start"
    stop_fn = program.func("decorator_abc.py::DecoratorManager.stop")
    for n in (2, 3):
        pol = _StartPolicy(program, stop_fn, may_raise_all=False, cancel=False,
                           inline={"DecoratorManager.update_status", "DecoratorManager._stop_decorator", "self.update_status", "self._stop_decorator", "self.get_decorators", "DecoratorManager.get_decorators"})
        decs = [ObjV(f"d{i}", "Decorator") for i in range(n)]
        heap = {"self._decorators": ListV(tuple(decs), "list"), "self.status": Sym(("clsattr", "DecoratorManagerStatus", "VALIDATED")), "self.name": Const("f"),
                "self.startup_time": NONE}
        out = run_flow(program, uid, pol, args={"self": ObjV("self", "DecoratorManager")}, heap=heap)
        ex = exits(out)
        bad = None
        n_re = 0
        full = False
        for kind, c, desc in ex:
            evs = [e for e in c.trace if e[0] in ("call", "reentrant-stop")]
            if ("reentrant-stop",) in evs:
                n_re += 1
                i = evs.index(("reentrant-stop",))
                late = [repr(e[2]) for e in evs[i + 1:] if e[0] == "call" and e[1] == "start"]
                started = [e[2] for e in evs[:i] if e[0] == "call" and e[1] == "start"]
                stopped = [e[2] for e in evs[i + 1:] if e[0] == "call" and e[1] == "stop"]
                if late:
                    bad = f"after the manager was stopped during the start of {started[-1]!r} the loop still starts {late}: nothing ever stops them (their listeners outlive the wait)"
                elif any(d not in stopped for d in started):
                    bad = f"the re-entrant stop does not stop {[repr(d) for d in started if d not in stopped]}"
            elif kind == "return" and len([e for e in evs if e[1] == "start"]) == n:
                full = True
        ctx.check(bool(ex) and n_re >= n and full and bad is None, rid, uid, f"{n} triggers, stop possible inside each start",
                  msg=f"DecoratorManager.start with {n} triggers: {bad or f'paths explored: {len(ex)}, with re-entrant stop: {n_re}, undisturbed start seen: {full}'}",
                  key=f"start typestate {n}", node=program.func(uid), rel="decorator_abc.py")


def state_unsubscribe_table(ctx, program, rid):
    """State.notify_add followed by State.notify_del on every ordering of a name set that mentions entities more than once."""
    import itertools
    from ..absint import ClassV, DictV
    add_uid, del_uid = "state.py::State.notify_add", "state.py::State.notify_del"
    names = ("d.a", "d.a.old", "d.b", "d.b.attr", "plain", "d.c.old.attr", "d.z.w.v")  # (`d.c.old.attr`: an attribute of d.c's previous value - the entity is mentioned, so it is watched; `d.z.w.v` is no state name: subscribed or not, add and del must agree)
    n = 0
    for order in itertools.permutations(names):
        if order.index("d.a") > order.index("d.a.old") and order.index("d.b") > order.index("d.b.attr") and order[0] == "plain":
            pass
        n += 1
        if n % 168:    # every 168th permutation: 30 orders
            continue
        var_names = ListV(tuple(Const(x) for x in order), "set")
        q, q2 = ObjV("q", "Queue"), ObjV("q2", "Queue")
        heap = {"State.notify": DictV([(Const("d.a"), DictV([(q2, ListV((Const("d.a"),), "set"))])), (Const("d.c"), DictV([(q2, ListV((Const("d.c"),), "set"))]))])}
        pol = FlowPolicy(program, may_raise_all=False, cancel=False)
        pol.loop_unroll = 8
        o1 = run_flow(program, add_uid, pol, args={"cls": ClassV("State"), "var_names": var_names, "queue": q}, heap=heap)
        bad = None
        ex1 = exits(o1)
        for k, c, d in ex1:
            if k != "return":
                bad = f"notify_add leaves with {d}"
                continue
            tab = c.heap.get("State.notify")
            subscribed = sorted(e.v for e, qs in tab.items if isinstance(qs, DictV) and qs.get(q) is not None) if isinstance(tab, DictV) else None
            if [x for x in subscribed if x != "d.z"] != ["d.a", "d.b", "d.c"]:
                bad = f"notify_add subscribes the queue to {subscribed}, the names mention the entities ['d.a', 'd.b', 'd.c']"
                continue
            o2 = run_flow(program, del_uid, pol, args={"cls": ClassV("State"), "var_names": var_names, "queue": q}, heap=dict(c.heap))
            for k2, c2, d2 in exits(o2):
                tab2 = c2.heap.get("State.notify")
                left = sorted(e.v for e, qs in tab2.items if isinstance(qs, DictV) and qs.get(q) is not None) if isinstance(tab2, DictV) else None
                other = sorted(e.v for e, qs in tab2.items if isinstance(qs, DictV) and qs.get(q2) is not None) if isinstance(tab2, DictV) else None
                if k2 != "return":
                    bad = f"notify_del leaves with {d2}"
                elif left:
                    bad = f"after notify_del the queue is still subscribed to {left}: every later change of that entity is queued for a wait that has ended"
                elif other != ["d.a", "d.c"]:
                    bad = f"another queue's subscriptions changed to {other}"
        ctx.check(bool(ex1) and bad is None, rid, del_uid, f"names in the order {list(order)}", msg=f"State.notify_add/notify_del with the names {list(order)}: {bad or 'no exit'}",
                  key=f"state unsubscribe {order}", node=program.func(del_uid), rel="state.py")


def wait_words_table(ctx, program, rid):
    """TimeTriggerDecorator.validate, then stop() and the first step of _cycle(), interpreted for the words startup / shutdown under both kinds of manager."""
    from ..absint import ClassV
    V = "decorators/timing.py::TimeTriggerDecorator.validate"
    glob = {"WaitUntilDecoratorManager": ClassV("WaitUntilDecoratorManager"), "TriggerDecorator": ClassV("TriggerDecorator"), "TimeTriggerDecorator": ClassV("TimeTriggerDecorator")}
    for mgr in ("WaitUntilDecoratorManager", "FunctionDecoratorManager"):
        for spec in ([], ["startup"], ["shutdown"], ["startup", "once(3:00)", "shutdown"]):
            pol = FlowPolicy(program, may_raise_all=False, cancel=False, summaries={"super().validate": lambda i, n, a, k, c, o: [(c, NONE)]}, globals_=glob)
            pol.loop_unroll = 4
            heap = {"self.dm": ObjV("dm", mgr), "self.args": ListV(tuple(Const(x) for x in spec), "list"), "self.run_on_startup": Const(False), "self.run_on_shutdown": Const(False)}
            out = run_flow(program, V, pol, args={"self": ObjV("self", "TimeTriggerDecorator")}, heap=heap)
            ex = exits(out)
            bad = None
            seen = []
            for k, c, d in ex:
                if k != "return":
                    bad = f"validate ends with {d}"
                    continue
                for uid in ("decorators/timing.py::TimeTriggerDecorator.stop", "decorators/timing.py::TimeTriggerDecorator._cycle"):
                    sent = []

                    def dispatch(i, n, a, k2, c2, o, sent=sent):
                        d0 = a[0] if a else None
                        tt = d0.get(Const("trigger_time")) if isinstance(d0, DictV) else None
                        sent.append(tt.v if isinstance(tt, Const) else repr(d0))
                        return [(c2, NONE)]

                    pol2 = FlowPolicy(program, may_raise_all=False, cancel=False, globals_=glob,
                                      summaries={"self.dispatch": dispatch, "DispatchData": lambda i, n, a, k2, c2, o: [(c2, a[0] if a else NONE)],
                                                 "self._cycle_task.cancel": lambda i, n, a, k2, c2, o: [(c2, NONE)]})
                    h2 = dict(c.heap)
                    h2["dm.status"] = Sym(("clsattr", "DecoratorManagerStatus", "STOPPED"))  # the cycle's loop is not entered: only its start-up step is looked at
                    h2["self._cycle_task"] = NONE
                    run_flow(program, uid, pol2, args={"self": ObjV("self", "TimeTriggerDecorator")}, heap=h2)
                    seen += [x for x in sent if x in ("startup", "shutdown")]
            if mgr == "WaitUntilDecoratorManager":
                want = []
            else:
                want = (["shutdown"] if "shutdown" in spec else []) + (["startup"] if ("startup" in spec or not spec) else [])
            if bad is None and sorted(seen) != sorted(want):
                bad = f"occurrences {sorted(seen)} are dispatched, specified {sorted(want)}"
            what = "task.wait_until" if mgr == "WaitUntilDecoratorManager" else "@time_trigger of a function"
            ctx.check(bool(ex) and bad is None, rid, V, f"{what} with time_trigger={spec}", msg=f"{what}, time_trigger={spec}: {bad or 'no exit'}"
                      + (" - the wait returns a start-up 'trigger' at once, or a 'shutdown' occurrence is dispatched from the wait's own stop (which stops it again: unbounded recursion, the "
                         "remaining listeners of a cancelled wait are never released)" if mgr == "WaitUntilDecoratorManager" else ""),
                      key=f"wait words {mgr} {spec}", node=program.func(V), rel="decorators/timing.py")


def none_argument_table(ctx, program, rid):
    from ..absint import ClassV
    uid = "decorator.py::DecoratorRegistry.wait_until"
    names = ("state_trigger", "time_trigger", "event_trigger")
    for given in ({"event_trigger": "ev", "state_trigger": None, "time_trigger": None}, {"event_trigger": "ev"}, {"state_trigger": None, "event_trigger": None, "timeout": None}):
        made = []

        def construct(i, n, a, k, c, o, made=made):
            made.append((n, a[0] if a else None))
            return [(c, ObjV(f"dec{len(made)}", "TriggerDecorator"))]

        summ = {"WaitUntilDecoratorManager": lambda i, n, a, k, c, o: [(c, ObjV("dm", "WaitUntilDecoratorManager"))], "issubclass": lambda i, n, a, k, c, o: [(c, Const(True))],
                "dec_class.kwargs_schema.schema.keys": lambda i, n, a, k, c, o: [(c, ListV((), "list"))], "dec_class": construct,
                "dm.add": lambda i, n, a, k, c, o: [(c.hset("$added", Const(c.heap.get("$added", Const(0)).v + 1)), NONE)],
                "dm.validate": lambda i, n, a, k, c, o: [(c, NONE)], "dm.start": lambda i, n, a, k, c, o: [(c, NONE)], "dm.stop": lambda i, n, a, k, c, o: [(c, NONE)],
                "dm.get_decorators": lambda i, n, a, k, c, o: [(c, ListV(tuple(Const(j) for j in range(c.heap.get("$added", Const(0)).v)), "list"))],
                "dm.wait_until": lambda i, n, a, k, c, o: [(c, Sym(("wait result",)))]}
        pol = FlowPolicy(program, may_raise_all=False, cancel=False, summaries=summ, globals_={"TriggerDecorator": ClassV("TriggerDecorator")})
        pol.loop_unroll = 6
        heap = {"DecoratorRegistry._decorators": DictV([(Const(nm), Sym(("class", nm))) for nm in names]), "dm.status": Sym(("clsattr", "DecoratorManagerStatus", "STOPPED"))}
        out = run_flow(program, uid, pol, args={"cls": ClassV("DecoratorRegistry"), "ast_ctx": ObjV("actx", "AstEval"), "_arg": ListV((), "tuple"),
                                                  "kwargs": DictV([(Const(k), Const(v)) for k, v in given.items()])}, heap=heap)
        ex = exits(out)
        want = sum(1 for k, v in given.items() if k in names and v is not None)
        bad = None
        for k, c, d in ex:
            if k != "return":
                bad = f"ends with {d}"
            elif want == 0 and c.env.get("$ret") == Sym(("wait result",)) and given.get("timeout") is None:
                bad = "waits although no trigger and no timeout is given (the wait never returns); specified {'trigger_type': 'none'}"
        if bad is None and len(made) != want:
            bad = f"{len(made)} trigger decorator(s) built ({[repr(m[1]) for m in made]}), specified {want}: a None argument is wrapped into [None] and rejected by the decorator's validation"
        ctx.check(bool(ex) and bad is None, rid, uid, f"wait_until({given})", msg=f"task.wait_until(**{given}) (new subsystem): {bad or 'no exit'}", key=f"none arguments {sorted(given.items(), key=str)}",
                  node=program.func(uid), rel="decorator.py")
