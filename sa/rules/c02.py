"""C02 - control flow and exception handling follow Python's paths exactly.

Every statement handler of the interpreter (if / for / while / try / with / assert / raise / return and the
statement-list loops of module, class and function bodies) is partially evaluated on schematic statements whose
sub-statements ``s<N>`` are leaves that may complete normally, yield a Return/Break/Continue marker, or raise.
The resulting path set (which leaves ran, in which order, what flows out: marker, value, exception, stores) is
compared with the path set of the reference semantics for the same probe.
"""

from __future__ import annotations

import ast

from ..absint import Const, ListV, NodeV, ObjV, Sym
from ..hcompare import compare_shape, path_set, fmt_path
from ..repo import AnalysisError, body_walk
from ..schematic import HandlerPolicy, run_handler, shape_stmt, to_nodev

LEVEL_TEXT = (
    "decides structural clauses of C02, not the behaviour as a whole: for every control-flow statement kind, with "
    "every placement of a normal / return / break / continue / raising sub-statement (one nesting level, bodies of "
    "two statements), the handler has exactly Python's set of paths - statements executed in order, stop-flow "
    "markers propagated or consumed as Python does, finally/else/handlers entered exactly when Python enters them, "
    "context managers entered and exited per the protocol"
    "; a manager is exited also when binding its `as` target fails; raise / raise from / raise from None build Python's chain"
    "; the implicit unbinding of an except clause's name tolerates `del name` inside the handler"
    '; `with` on a non-manager raises TypeError before anything is entered'
)
LEVEL_NOTE = (
    "trusted: the abstract evaluator's model of Python control flow; nesting deeper than one level follows by "
    "induction only if each handler is compositional (handlers call aeval on sub-statements, checked by the engine); "
    "except-clause matching is modelled as a free choice; BaseException/cancellation inside script try blocks is out of scope"
)
TECHNIQUE = "schematic partial evaluation of statement handlers vs reference control-flow path sets (abstract interpretation, exhaustive over marker placements)"

FLOW_SHAPES = [
    "if a0:\n    s0\n    s1\nelse:\n    s2\n    s3",
    "if a0:\n    s0\n    s1",
    "for x in i0:\n    s0\n    s1\nelse:\n    s2\n    s3",
    "for x in i0:\n    s0",
    "while a0:\n    s0\n    s1\nelse:\n    s2\n    s3",
    "while a0:\n    s0",
    "try:\n    s0\n    s1\nfinally:\n    s2\n    s3",
    "try:\n    s0\n    s1\nexcept a0:\n    s2\n    s3",
    "try:\n    s0\nexcept a0 as x:\n    s1\n    s2",
    "try:\n    s0\nexcept a0 as x:\n    del x",  # the handler may unbind its own name: the implicit unbinding at its end must tolerate that
    "try:\n    s0\nexcept a0:\n    s1\nexcept a1:\n    s2",
    "try:\n    s0\nexcept:\n    s1",
    "try:\n    s0\nexcept a0:\n    s1\nelse:\n    s2\n    s3\nfinally:\n    s4\n    s5",
    "try:\n    s0\nexcept a0:\n    s1\nfinally:\n    s2",
    "assert a0",
    "assert a0, a1",
    "raise a0",
    "raise a0 from a1",
    "raise a0 from None",
    "pass",
]
WITH_SHAPES = [
    "with a0:\n    s0\n    s1",
    "with a0 as x:\n    s0",
    "with a0 as x, a1 as y:\n    s0",
    "with a0, a1:\n    s0",
    "async with a0 as x:\n    s0",
    # binding the `as` target can itself fail (target operand raises): the manager just entered must still be exited
    "with a0 as a1[a2]:\n    s0",
    "with a0 as a1.attr:\n    s0",
    "with a0 as x, a1 as a2[a3]:\n    s0",
    "async with a0 as a1[a2]:\n    s0",
]
FUNC_SHAPES = ["return a0", "return", "break", "continue"]


def run(ctx):
    program = ctx.program
    for uid in ("eval.py::AstEval.ast_if", "eval.py::AstEval.ast_for", "eval.py::AstEval.ast_while",
                "eval.py::AstEval.ast_try", "eval.py::AstEval.ast_with", "eval.py::AstEval.ast_raise",
                "eval.py::AstEval.ast_module", "eval.py::AstEval.ast_classdef", "eval.py::EvalFunc.call",
                "eval.py::AstEval.ast_assert", "eval.py::AstEval.ast_return", "eval.py::AstEval.eval"):
        program.unit(uid)

    policy = HandlerPolicy(program, raise_at_eval=True)
    ropts = {"raise_at_eval": True}

    ctx.rule("R02.1", "statement handlers: same executed statements, marker propagation/consumption, else/finally/handler entry as Python", floor=17)
    for src in FLOW_SHAPES:
        compare_shape(ctx, program, policy, "R02.1", src, "exec", result="flow", ref_opts=ropts)

    ctx.rule("R02.3", "with / async with: managers entered item by item, exited in reverse on every exit, per-manager suppression", floor=9)
    wpol = HandlerPolicy(program, raise_at_eval=True, raise_at_call=True)
    wopts = {"raise_at_eval": True, "raise_at_call": True}
    for src in WITH_SHAPES:
        compare_shape(ctx, program, wpol, "R02.3", src, "exec", result="flow", ref_opts=wopts)

    ctx.rule("R02.6", "`with` on an object that lacks the context-manager protocol raises TypeError (Python >= 3.11) before anything is entered - an `except TypeError` "
             "around it matches; the interpreter's own attribute lookup must not leak as AttributeError", floor=2)
    from ..flow import FlowPolicy, exits, run_flow
    from ..absint import ExcV
    wi = "eval.py::AstEval.with_item"
    for missing in ("__enter__", "__exit__"):
        def getattr_(i, n, a, k, c, o, missing=missing):
            if len(a) > 1 and a[1] == Const(missing):
                o.add("raise", c.set("$exc", ExcV("AttributeError", f"type object has no attribute {missing}")))
                return []
            return [(c, Sym(("method", a[1].v if len(a) > 1 and isinstance(a[1], Const) else "?")))]

        polw = FlowPolicy(program, may_raise_all=False, cancel=False, events=["self.call_func"],
                          summaries={"getattr": getattr_, "self.aeval": lambda i, n, a, k, c, o: [(c, ObjV("five", "int"))], "type": lambda i, n, a, k, c, o: [(c, Sym(("type of manager",)))]})
        node = to_nodev(ast.parse("with a0:\n    s0").body[0])
        outw = run_flow(program, wi, polw, args={"self": ObjV("self", "AstEval"), "arg": node, "item_idx": Const(0), "enter_attr": Const("__enter__"), "exit_attr": Const("__exit__")})
        got = sorted({(k, getattr(c.env.get("$exc"), "cls", None), sum(1 for e in c.trace if e[0] == "call")) for k, c, d in exits(outw)})
        ctx.check(got == [("raise", "TypeError", 0)], "R02.6", wi, f"manager without {missing}",
                  msg=f"`with obj:` where type(obj) has no {missing}: (exit, exception, calls made) = {got}, Python raises TypeError before entering anything", key=f"with non-manager {missing}",
                  node=program.func(wi), rel="eval.py")

    # R02.4 statement-list owners: module / class body / function body --------------------------------------
    ctx.rule("R02.4", "module and class bodies reject stray markers with SyntaxError after executing nothing further; "
             "function bodies stop at the first Return and return its value, None at the end", floor=6)
    _body_owner(ctx, program, policy, "ast_module", "s0\ns1", lambda s: s)
    _body_owner(ctx, program, policy, "ast_classdef", "class K:\n    s0\n    s1", lambda s: s)
    _func_call(ctx, program, policy)
    _toplevel_eval(ctx, program)

    # simple statements that create markers ---------------------------------------------------------------------
    ctx.rule("R02.5", "return/break/continue produce the right marker carrying the evaluated value", floor=4)
    for src, kind in (("return a0", "EvalReturn"), ("return", "EvalReturn"), ("break", "EvalBreak"), ("continue", "EvalContinue")):
        wrapper = "def f():\n    " + src if kind == "EvalReturn" else "for x in y:\n    " + src
        node = ast.parse(wrapper).body[0].body[0]
        shape = to_nodev(node)
        out = run_handler(program, shape, HandlerPolicy(program))
        rets = out.get("return")
        ok = bool(rets)
        facts = []
        for c in rets:
            v = c.env.get("$ret")
            facts.append(repr(v))
            good = getattr(v, "op", None) == "new" and v.args[0].name == kind
            if good and kind == "EvalReturn":
                want = (Sym(("val", "a0")),) if src != "return" else (Const(None),)
                good = tuple(v.args[1:]) == want
            ok = ok and good
        unit = f"eval.py::AstEval.ast_{type(node).__name__.lower()}"
        ctx.check(ok, "R02.5", unit, f"`{src}` yields {kind}", msg=f"`{src}`: handler returns {facts}, expected a {kind} marker"
                  + (" carrying the evaluated value" if kind == "EvalReturn" else ""), key=f"marker for `{src}`",
                  node=program.func(unit), rel="eval.py")

    return (
        "Static, source-only: each control-flow handler of AstEval is abstractly interpreted on schematic statements whose "
        "sub-statements are leaves with outcomes {normal, Return, Break, Continue, raise}; the path set (leaves executed in order, "
        "marker/exception flowing out, handler-name stores, manager enter/exit calls) is compared with the reference semantics' path set. "
        "Rules: R02.1 if/for/while/try/assert/raise, R02.3 with/async with protocol, R02.4 module/class/function body owners, "
        "R02.5 marker construction. Not decided: which except clause matches at run time (free choice in both models), deep nestings "
        "(per-handler induction), cancellation inside script-level try."
    )


def _body_owner(ctx, program, policy, handler, src, _):
    """Module / class bodies: run both leaves when no marker; SyntaxError on any marker, nothing executed after it."""
    unit = f"eval.py::AstEval.{handler}"
    tree = ast.parse(src)
    node = tree if handler == "ast_module" else tree.body[0]
    shape = to_nodev(node)
    out = run_handler(program, shape, policy)
    bad = []
    n = 0
    for kind in ("return", "raise"):
        for c in out.get(kind):
            n += 1
            evs = [e for e in c.trace if e[0] == "eval"]
            leaves = [e[1] for e in evs if e[1].startswith("s")]
            exc = c.env.get("$exc")
            if kind == "return":
                if leaves != ["s0", "s1"]:
                    bad.append(f"completed normally after executing {leaves}")
            else:
                if getattr(exc, "cls", "") == "SyntaxError":
                    # a marker was seen: it must be the last leaf executed
                    continue
                if getattr(exc, "cls", "") == "Exception" and str(getattr(exc, "origin", "")).startswith("eval"):
                    continue
                bad.append(f"raises {exc!r} after {leaves}")
    # marker must always lead to SyntaxError: look for a normal completion although a marker kind was produced
    markers_ok = True
    for c in out.get("return"):
        for atom, val in c.assume:
            pass
    # use the marker tags recorded in the returned/assigned values: a path that evaluated a leaf with a marker kind
    # and still completed normally is a violation
    for c in out.get("return"):
        for name, v in list(c.env.items()):
            if isinstance(v, Sym) and v.tag and v.tag[0] == "val" and len(v.tag) > 2 and v.tag[2] is not None and name == "val":
                markers_ok = False
                bad.append(f"stray {v.tag[2]} from {v.tag[1]} did not raise SyntaxError")
    ctx.check(not bad, "R02.4", unit, f"{handler}: all leaves run in order; stray markers raise SyntaxError",
              msg=f"{handler}: {bad[:3]}", key=f"{handler} body owner", node=program.func(unit), rel="eval.py",
              sample={"paths": n})
    # second obligation: the SyntaxError path exists for every marker kind at the first statement
    kinds = set()
    for c in out.get("raise"):
        exc = c.env.get("$exc")
        if getattr(exc, "cls", "") == "SyntaxError":
            last = [e[1] for e in c.trace if e[0] == "eval" and e[1].startswith("s")]
            kinds.add(tuple(last))
    ctx.check(("s0",) in kinds and ("s0", "s1") in kinds, "R02.4", unit,
              f"{handler}: a marker at any position stops the list with SyntaxError",
              msg=f"{handler}: SyntaxError paths only after {sorted(kinds)}; a marker must stop the statement list where it occurs",
              key=f"{handler} stops at marker", node=program.func(unit), rel="eval.py")


def _func_call(ctx, program, policy):
    """EvalFunc.call: the body loop stops at the first EvalReturn and returns its value; None at the end."""
    from ..absint import Cfg, DictV, FuncV, Interp
    from ..schematic import EventInterp, MODULE_SCOPE

    unit = "eval.py::EvalFunc.call"
    fn = program.func(unit)
    fdef = to_nodev(ast.parse("def f():\n    s0\n    s1").body[0])
    pol = HandlerPolicy(program, raise_at_eval=False)
    interp = EventInterp(pol, "eval.py")
    self_v = ObjV("func", "EvalFunc")
    ast_ctx = ObjV("self", "AstEval")
    heap = dict(MODULE_SCOPE)
    heap.update({
        "func.func_def": fdef, "func.num_posonly_arg": Const(0), "func.num_posn_arg": Const(0), "func.defaults": ListV(()),
        "func.kw_defaults": ListV(()), "func.local_sym_table": DictV(()), "func.name": Const("f"),
        "func.global_ctx": Sym(("attr", "self", "global_ctx")), "self.global_ctx": Sym(("attr", "self", "global_ctx")),
    })
    interp.call_stack.append(fn)
    out = interp.run_function(fn, {"self": self_v, "ast_ctx": ast_ctx, "args": ListV((), "tuple"), "kwargs": DictV(())}, Cfg(heap=heap))
    results = set()
    for c in out.get("return"):
        leaves = tuple(e[1] for e in c.trace if e[0] == "eval")
        results.add((leaves, repr(c.env.get("$ret"))))
    exp = {
        (("s0",), "getattr($('val', 's0', 'EvalReturn'), 'value')"),
        (("s0", "s1"), "getattr($('val', 's1', 'EvalReturn'), 'value')"),
        (("s0", "s1"), "None"),
    }
    # Break/Continue markers cannot reach a function body (the compiler rejects them): ignore paths that assume them
    got = {r for r in results if "EvalBreak" not in r[1] and "EvalContinue" not in r[1]}
    got_core = set()
    for c in out.get("return"):
        kinds = [e for e in c.trace if e[0] == "eval"]
        leaves = tuple(e[1] for e in kinds)
        ret = c.env.get("$ret")
        tags = [v for v in c.env.values() if isinstance(v, Sym) and v.tag[0] == "val" and len(v.tag) > 2]
        got_core.add((leaves, repr(ret)))
    ok = exp <= got_core and all(r in exp or "None" == r[1] and r[0] == ("s0", "s1") for r in got_core)
    ctx.check(ok, "R02.4", unit, "function body stops at the first Return and yields its value; None at the end",
              msg=f"EvalFunc.call body loop: got {sorted(got_core)} expected {sorted(exp)}", key="function body owner",
              node=fn, rel="eval.py", sample={"paths": sorted(got_core)})


def _toplevel_eval(ctx, program):
    """AstEval.eval maps a stray marker to None (expression/trigger evaluation entry point)."""
    unit = "eval.py::AstEval.eval"
    fn = program.func(unit)
    has = False
    for n in body_walk(fn):
        if isinstance(n, ast.Call) and getattr(n.func, "id", "") == "isinstance" and len(n.args) == 2:
            if getattr(n.args[1], "id", "") == "EvalStopFlow":
                has = True
    ctx.check(has, "R02.4", unit, "eval() filters stop-flow markers", msg="AstEval.eval no longer tests the result for EvalStopFlow",
              key="eval filters markers", node=fn, rel="eval.py")
