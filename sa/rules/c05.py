"""C05 - state_check_now, state_hold and state_hold_false timing semantics (transition clauses)."""

from __future__ import annotations

import ast
import itertools

from ..absint import NONE, App, Cfg, ClassV, Const, DictV, ExcV, ListV, ObjV, Sym
from ..flow import FlowPolicy, exits, run_flow
from ..repo import AnalysisError, body_walk, call_name, norm, short

LEVEL_TEXT = (
    "decides transition clauses of C05 on a finite model of one evaluation step, not behaviour over timed histories: "
    "a false evaluation cancels a pending hold and dispatches nothing; a true evaluation during a pending hold neither "
    "restarts nor cancels it; hold and hold_false thresholds are inclusive; after a true evaluation the false period is "
    "over; a run is dispatched only when both gates are satisfied; notifications that cause no evaluation leave timers "
    "and pending arguments untouched; the run released by a hold carries the arguments recorded when the hold started; "
    "the start-up check dispatches only with state_check_now and a true expression; a notification never counts as hold expiry"
    "; the legacy loops satisfy the same hold / hold_false clauses on scripted notification histories; while a hold is pending every wait is armed for exactly the remaining hold time; the released run carries the first event's arguments and guard values on both expiry paths"
    '; the change predicates and the watched set that decide what counts as an evaluation equal their reference definitions; the start-up check with state_check_now is not subject to state_hold_false'
    '; after an initially true wait expression state_hold_false stays in force; any-change names are not gated by state_hold_false; a false at start-up begins the false period with or without state_check_now (both subsystems)'
)
LEVEL_NOTE = "one-step transition relation on the grid now in {before, at, after threshold}; which interleaving of timer expiry and events occurs on a real clock is not decided"
TECHNIQUE = "abstract interpretation of _check_new_state / one iteration of the trigger loops on a finite model of timer states (clause-wise assertions on the resulting heap and dispatch events)"

CNS = "decorators/state.py::StateTriggerDecorator._check_new_state"
CYC = "decorators/state.py::StateTriggerDecorator._cycle"
A1 = DictV([(Const("trigger_type"), Const("state")), (Const("value"), Const("first"))])
A2 = DictV([(Const("trigger_type"), Const("state")), (Const("value"), Const("second"))])


def _step(program, trig_ok, S, H, has_expr, te, fe, now):
    summ = {
        "asyncio.get_running_loop": lambda i, n, a, k, c, o: [(c, ObjV("loop", "Loop"))],
        "self.has_expression": lambda i, n, a, k, c, o, v=has_expr: [(c, Const(v))],
        "_LOGGER.isEnabledFor": lambda i, n, a, k, c, o: [(c, Const(False))],
    }
    summ["asyncio.get_running_loop().time"] = lambda i, n, a, k, c, o: [(c, Const(now))]

    class P(FlowPolicy):
        def call(self, interp, node, fname, fval, args, kwargs, cfg, out):
            if isinstance(node.func, ast.Attribute) and node.func.attr == "time" and not args:
                return [(cfg, Const(now))]
            return super().call(interp, node, fname, fval, args, kwargs, cfg, out)

    pol = P(program, events=["self.dispatch"], may_raise_all=False, cancel=False, summaries=summ)
    heap = {"self.state_hold": Const(S), "self.state_hold_false": Const(H), "self.true_entered_at": Const(te), "self.false_entered_at": Const(fe),
            "self.last_func_args": A1, "self.last_new_vars": DictV(()), "self.__test_handshake__": NONE}
    out = run_flow(program, CNS, pol, args={"self": ObjV("self", "StateTriggerDecorator"), "trig_ok": Const(trig_ok)}, heap=heap)
    res = []
    for kind, c, desc in exits(out):
        nd = sum(1 for e in c.trace if e[0] == "call" and e[1] == "self.dispatch")
        t2, f2 = c.heap.get("self.true_entered_at"), c.heap.get("self.false_entered_at")
        res.append((kind, nd, t2.v if isinstance(t2, Const) else repr(t2), f2.v if isinstance(f2, Const) else repr(f2)))
    return sorted(set(res), key=repr)


def step_grid(ctx, program, rid):
    """Clause-wise assertions on one evaluation step of StateTriggerDecorator over the whole timer-state grid."""
    f = program.func(CNS)
    ctx.rule(rid, "one evaluation step of the new subsystem satisfies the hold / hold_false clauses on the whole timer-state grid", floor=100)
    S0, H0 = 5.0, 3.0
    for trig_ok, S, H, has_expr, te, fe, now in itertools.product((True, False), (None, S0), (None, H0), (True, False), (None, 100.0), (None, 100.0), (101.0, 103.0, 105.0, 110.0)):
        res = _step(program, trig_ok, S, H, has_expr, te, fe, now)
        label = f"trig_ok={trig_ok} hold={S} hold_false={H} expr={'yes' if has_expr else 'none'} true_since={te} false_since={fe} now={now}"
        problems = []
        if len(res) != 1 or res[0][0] != "return":
            problems.append(f"not a single normal outcome: {res}")
        else:
            _, nd, t2, f2 = res[0]
            gate_f = H is None or not has_expr or (fe is not None and now - fe >= H)
            gate_t = S is None or (te is not None and now - te >= S)
            if not trig_ok:
                if nd:
                    problems.append("a false evaluation dispatches a run")
                if t2 is not None:
                    problems.append("a false evaluation does not cancel the pending hold")
                if H is not None:
                    want = fe if fe is not None else now
                    if f2 != want:
                        problems.append(f"false period starts at {f2}, specified {want} (the first false evaluation)")
            else:
                if H is not None and has_expr and f2 is not None:
                    problems.append("after a true evaluation the false period is still running (a later true evaluation would fire although the expression was last seen true)")
                if nd > 1:
                    problems.append(f"{nd} dispatches for one evaluation")
                if nd and not (gate_f and gate_t):
                    problems.append("a run is dispatched although " + ("state_hold_false is not satisfied" if not gate_f else "state_hold has not elapsed"))
                if gate_f and gate_t and S is None and nd != 1:
                    problems.append("a qualifying true evaluation without state_hold does not dispatch")
                if gate_f and S is not None and te is None and (t2 != now or nd):
                    problems.append(f"first true evaluation with state_hold must start the hold at now (true_since'={t2}, dispatches={nd})")
                if gate_f and S is not None and te is not None and now - te < S and (t2 != te or nd):
                    problems.append(f"a true evaluation during a pending hold must neither restart nor cancel it (true_since'={t2}, dispatches={nd})")
                if gate_f and S is not None and te is not None and now - te >= S and nd != 1:
                    problems.append("hold elapsed (inclusive threshold) but no run dispatched")
        ctx.check(not problems, rid, CNS, label, msg=f"_check_new_state [{label}]: {problems[:2]} (outcome {res})", key=f"step {label}", node=f, rel="decorators/state.py")



def run(ctx):
    program = ctx.program
    step_grid(ctx, program, "R05.T")
    S0, H0 = 5.0, 3.0

    ctx.rule("R05.1", "a notification that causes no evaluation (no any-change match, no watched name changed) leaves timers and recorded arguments untouched", floor=2)
    r = _cycle_run(program, [("note", A1, False, True, True), ("note", A2, False, False, True), ("timeout",)], te=None, fe=None, S=S0, H=None, times=[100.0, 101.0, 105.0])
    ok = r is not None and r["dispatch"] == [A1]
    ctx.check(ok, "R05.1", CYC, "new: attribute-only update during a pending hold changes nothing",
              msg=f"StateTriggerDecorator._cycle: hold started at 100.0 by event 'first'; an update that changes no watched value arrives at 101.0; at 105.0 (hold elapsed) the dispatches are "
              f"{[repr(d) for d in (r['dispatch'] if r else [])]} (specified: exactly one run with the arguments of 'first')", key="new non-evaluation touches timers", node=program.func(CYC), rel="decorators/state.py")
    r = _cycle_run(program, [("note", A2, False, False, True)], te=None, fe=None, S=None, H=H0, times=[101.0])
    ok = r is not None and r["dispatch"] == [] and r["fe"] is None
    ctx.check(ok, "R05.1", CYC, "new: attribute-only update does not start a false period",
              msg=f"StateTriggerDecorator._cycle: a non-evaluating update with state_hold_false set: false_since={r and r['fe']} (specified: unchanged None)", key="new non-evaluation starts false period",
              node=program.func(CYC), rel="decorators/state.py")

    ctx.rule("R05.2", "the run released when a hold expires carries the arguments of the event that started the hold", floor=1)
    hold_expiry_rule(ctx, program, "R05.2")

    ctx.rule("R05.7", "while a hold is pending every wait is armed for exactly the time that is left of it (state_hold minus the time already elapsed)", floor=2)
    r = _cycle_run(program, [("note", A1, False, True, True), ("note", A2, False, False, True), ("note", A2, False, True, True), ("timeout",)], te=None, fe=None, S=S0, H=None,
                   times=[100.0, 101.0, 103.5, 105.0])
    waits = r["timeouts"] if r else None
    want = ["no deadline", 5.0, 4.0, 1.5]
    ctx.check(waits is not None and waits[:4] == want, "R05.7", CYC, "new: waits armed for the remaining hold time",
              msg=f"StateTriggerDecorator._cycle: hold of 5.0 s started at t=100.0, notifications at 101.0 and 103.5: the waits are armed with {waits}, specified {want} "
              f"(first wait has no deadline; then 5.0 - elapsed): a notification during the hold must neither stretch nor shorten it", key="new remaining hold time", node=program.func(CYC), rel="decorators/state.py")
    r = _cycle_run(program, [("note", A1, False, True, True), ("timeout",), ("note", A2, False, False, True)], te=None, fe=None, S=S0, H=None, times=[100.0, 105.0, 106.0])
    waits = r["timeouts"] if r else None
    ctx.check(waits is not None and waits[:3] == ["no deadline", 5.0, "no deadline"], "R05.7", CYC, "new: no deadline once the hold has been released",
              msg=f"StateTriggerDecorator._cycle: after the held run was released the waits are armed with {waits}, specified ['no deadline', 5.0, 'no deadline']", key="new deadline after release",
              node=program.func(CYC), rel="decorators/state.py")

    ctx.rule("R05.5", "start-up: a run or hold is started only with state_check_now and a true expression", floor=4)
    # (docs/reference.rst, table "trigger at start?": with state_check_now the trigger occurs at start if the expression is true - for every state_hold_false)
    for check_now, expr_true, S, H in itertools.product((True, False, None), (True, False), (None, S0), (None, 0, 10.0)):
        r = _cycle_run(program, [("stop",)], te=None, fe=None, S=S, H=H, times=[50.0], check_now=check_now, expr_true=expr_true, from_start=True)
        want_disp = 1 if (check_now and expr_true and S is None) else 0
        want_hold = 50.0 if (check_now and expr_true and S is not None) else None
        # (documented: with state_hold_false the expression is evaluated at start-up; if False the state_hold_false period begins - with or without state_check_now)
        want_false = 50.0 if (H is not None and not expr_true) else None
        ok = r is not None and len(r["dispatch"]) == want_disp and r["te"] == want_hold and r["fe"] == want_false
        ctx.check(ok, "R05.5", CYC, f"start-up check_now={check_now} expr={expr_true} hold={S} hold_false={H}",
                  msg=f"StateTriggerDecorator._cycle start-up with state_check_now={check_now}, expression {'true' if expr_true else 'false'}, state_hold={S}, state_hold_false={H}: "
                  f"{len(r['dispatch']) if r else '?'} dispatch(es), hold since {r and r['te']}, false since {r and r['fe']}; documented {want_disp} dispatch(es), hold since {want_hold}, "
                  f"false since {want_false}", key=f"startup {check_now}/{expr_true}/{S}/{H}",
                  node=program.func(CYC), rel="decorators/state.py")

    ctx.rule("R05.12", "an any-change name next to an expression: its occurrence is no evaluation of the expression - it runs without the state_hold_false test and does not use "
             "up the recorded false period (both subsystems; the legacy loop is the reference)", floor=3)
    # new subsystem: false seen at 100.0 (recorded), any-change occurrence at 101.0 (H = 3: too early for the expression, irrelevant for an any-change), expression true at 104.0
    r = _cycle_run(program, [("note", A1, True, False, False), ("note", A2, False, True, True), ("stop",)], te=None, fe=100.0, S=None, H=3.0, times=[101.0, 104.0])
    n = len(r["dispatch"]) if r else None
    ctx.check(r is not None and n == 2, "R05.12", CYC, "new: any-change occurrence during the false period, expression true after it",
              msg=f"StateTriggerDecorator._cycle, state_hold_false=3, expression false since 100.0: any-change match at 101.0, expression true at 104.0: {n} run(s), specified 2 "
              "(the any-change occurrence runs; it is not an evaluation, so the true evaluation 4 s after the false still runs)", key="new any-change under hold_false", node=program.func(CYC),
              rel="decorators/state.py")
    r = _cycle_run(program, [("note", A1, True, False, False), ("note", A2, False, False, False), ("stop",)], te=None, fe=None, S=None, H=0, times=[101.0, 102.0])
    n = len(r["dispatch"]) if r else None
    ctx.check(r is not None and n == 1, "R05.12", CYC, "new: any-change occurrence, expression never seen false",
              msg=f"StateTriggerDecorator._cycle, state_hold_false=0, expression never seen false: any-change match: {n} run(s), specified 1", key="new any-change, never false", node=program.func(CYC),
              rel="decorators/state.py")
    for luid in ("trigger.py::TrigInfo.trigger_watch",):
        got = legacy_run(program, luid, [("note", False, True, False), ("note", True, False, False), ("note", False, True, True)], None, 3.0, [100.0, 101.0, 104.0])
        runs = {r for _, r in got}
        ctx.check(runs == {((2, "v1"), (3, "v2"))}, "R05.12", luid, "legacy: any-change occurrence during the false period, expression true after it",
                  msg=f"{luid}: false at 100.0, any-change match at 101.0, expression true at 104.0 (state_hold_false=3): runs {sorted(runs)}, specified [((2, 'v1'), (3, 'v2'))]",
                  key="legacy any-change under hold_false", node=program.func(luid), rel="trigger.py")

    ctx.rule("R05.11", "task.wait_until (new subsystem) with state_hold and state_hold_false: an initially true expression starts the hold at once, but the state_hold_false "
             "rule stays in force for the rest of the wait (a false cancels the hold; a true that follows too soon is ignored) - as in the legacy subsystem", floor=2)
    wait_hold_false_rule(ctx, program, "R05.11")

    ctx.rule("R05.8", "what counts as an evaluation: the change predicates that decide whether a notification starts, continues or resets a hold equal their reference "
             "definition (value / named attribute / any attribute changed - attributes that appear or disappear included)", floor=150)
    from .c04 import change_predicate_table, watched_set_table
    change_predicate_table(ctx, program, "R05.8")
    ctx.rule("R05.9", "which entities can start a hold at all: the trigger subscribes to watch= if given, else to the names of the expression plus every any-change name - "
             "a change of any other entity is never an evaluation", floor=10)
    watched_set_table(ctx, program, "R05.9")

    ctx.rule("R05.6", "legacy loops on scripted histories: hold neither released nor cancelled by non-evaluating / still-true notifications, cancelled by false, released with the first event's arguments; hold_false thresholds", floor=16)
    legacy_hold_rules(ctx, program, "R05.6")
    return (
        "Static, source-only: _check_new_state is abstractly interpreted on the full grid trig_ok x hold x hold_false x expression x timer states x 4 instants (512 steps) and each "
        "clause of the statement is asserted on the resulting timer fields and dispatch events; one or two loop iterations of _cycle are interpreted for the non-evaluation, "
        "hold-expiry-arguments and start-up clauses; structural sibling rules on the two legacy loops.  Not decided: behaviour over timed histories on a real clock."
    )


LEGACY_T0 = __import__("datetime").datetime(2024, 1, 1, 12, 0, 0)


def legacy_run(program, uid, script, S, H, monos, want_waits=False, hold_off=None, check_now=False, init=None, mono0=None):
    """One of the two legacy loops driven by a scripted queue.
    script items: ('note', any-change matched, watched changed, expression value) | ('timeout',); monos[i] is the monotonic clock while item i is processed.
    Result: set of (how the scenario ended, ((phase, arguments of the run / returned dictionary), ...))."""
    import datetime as dtm
    is_wait = uid.endswith("wait_until")

    def phase(c):
        return c.heap.get("$phase", Const(0)).v

    def deliver(cfg, out, via_wait_for):
        ph = phase(cfg)
        if ph >= len(script):
            out.add("raise", cfg.set("$exc", ExcV("CancelledError", "end of scenario")))
            return []
        item = script[ph]
        cfg = cfg.hset("$phase", Const(ph + 1)).hset("$cur", Const(ph))
        if item[0] == "timeout":
            if not via_wait_for:
                out.add("raise", cfg.set("$exc", ExcV("CancelledError", "end of scenario (no deadline pending)")))
                return []
            out.add("raise", cfg.set("$exc", ExcV("TimeoutError", "timeout")))
            return []
        info = DictV([(Const("trigger_type"), Const("state")), (Const("var_name"), Const("d.e")), (Const("value"), Const(f"v{ph}"))])
        return [(cfg, ListV([Const("state"), ListV([DictV([(Const("d.e"), Const(f"v{ph}"))]), info])], "tuple"))]

    def qget(interp, node, a, k, cfg, out):
        if isinstance(getattr(node, "_parent", None), ast.Call):
            return [(cfg, Sym(("coro",)))]  # the coroutine handed to asyncio.wait_for, which consumes the script
        return deliver(cfg, out, False)

    def cur(c):
        it = script[min(c.heap.get("$cur", Const(0)).v, len(script) - 1)]
        return it if it[0] == "note" else ("note", False, False, False)

    def mono_now(cfg):
        if init is not None and phase(cfg) == 0:
            return mono0  # the evaluation made when the trigger / the wait starts
        return monos[min(max(phase(cfg) - 1, 0), len(monos) - 1)]

    def action(interp, node, a, k, cfg, out):
        lst = cfg.heap.get("$runs", ListV(()))
        return [(cfg.hset("$runs", ListV(lst.items + (ListV((Const(phase(cfg)), a[1] if len(a) > 1 else NONE), "tuple"),))), Const(True))]

    expr = lambda i, n, a, k, c, o: [(c, Const(init if (init is not None and phase(c) == 0) else cur(c)[3]))]  # noqa: E731
    has_guard = any(len(it) > 4 for it in script)
    guard = lambda i, n, a, k, c, o: [(c, Const(cur(c)[4] if len(cur(c)) > 4 else True))]  # noqa: E731
    def wait_for(i, n, a, k, c, o):
        tmo = k.get("timeout") if "timeout" in k else (a[1] if len(a) > 1 else Const("?"))
        c = c.hset("$timeouts", ListV(c.heap.get("$timeouts", ListV(())).items + (tmo,)))
        return deliver(c, o, True)

    summ = {"self.notify_q.get": qget, "notify_q.get": qget, "asyncio.wait_for": wait_for,
            "dt_now": lambda i, n, a, k, c, o: [(c, Const(LEGACY_T0 + dtm.timedelta(seconds=mono_now(c))))],
            "time.monotonic": lambda i, n, a, k, c, o: [(c, Const(mono_now(c)))],
            "ident_any_values_changed": lambda i, n, a, k, c, o: [(c, Const(cur(c)[1]))], "ident_values_changed": lambda i, n, a, k, c, o: [(c, Const(cur(c)[2]))],
            "self.state_trig_eval.eval": expr, "state_trig_eval.eval": expr, "self._call_expression": expr, "AstEval": lambda i, n, a, k, c, o: [(c, ObjV("expr", "AstEval"))],
            "state_trig_eval.get_names": lambda i, n, a, k, c, o: [(c, ListV((Const("d.e"),), "set"))], "state_trig_eval.parse": lambda i, n, a, k, c, o: [(c, NONE)],
            "STATE_RE.match": lambda i, n, a, k, c, o: [(c, NONE)], "Function.install_ast_funcs": lambda i, n, a, k, c, o: [(c, NONE)],
            "State.notify_add": lambda i, n, a, k, c, o: [(c, Const(True))], "State.notify_del": lambda i, n, a, k, c, o: [(c, NONE)],
            "State.notify_var_get": lambda i, n, a, k, c, o: [(c, DictV([]))], "asyncio.Queue": lambda i, n, a, k, c, o: [(c, ObjV("q", "Queue"))],
            "self.active_expr.eval": guard, "self.active_expr.get_names": lambda i, n, a, k, c, o: [(c, ListV((), "set"))],
            "self.call_action": action, "TrigTime.timer_trigger_next": lambda i, n, a, k, c, o: [(c, ListV((NONE, NONE), "tuple"))]}
    pol = FlowPolicy(program, may_raise_all=False, cancel=False, summaries=summ)
    pol.loop_unroll = len(script) + 3
    if is_wait:
        args = {"cls": ClassV("TrigTime"), "ast_ctx": ObjV("actx", "AstEval"), "state_trigger": Const("d.e == 'x'"), "state_check_now": Const(check_now), "time_trigger": NONE,
                "event_trigger": NONE, "mqtt_trigger": NONE, "mqtt_trigger_encoding": NONE, "webhook_trigger": NONE, "webhook_local_only": Const(True), "webhook_methods": NONE,
                "timeout": NONE, "state_hold": Const(S), "state_hold_false": Const(H), "__test_handshake__": NONE}
        heap = {"actx.name": Const("file.x.f")}
    else:
        args = {"self": ObjV("self", "TrigInfo")}
        heap = {"self.state_trigger": ListV([Const("x")]), "self.state_user_watch": NONE, "self.state_trig_eval": ObjV("expr", "AstEval"), "self.state_trig_ident": ListV((Const("d.e"),), "set"),
                "self.state_trig_ident_any": ListV((), "set"), "self.active_expr": NONE, "self.event_trigger": NONE, "self.mqtt_trigger": NONE, "self.webhook_trigger": NONE,
                "self.state_check_now": Const(check_now), "self.state_hold_false": Const(H), "self.state_hold": Const(S), "self.run_on_startup": Const(False), "self.time_trigger": NONE,
                "self.have_trigger": Const(True), "self.time_active": NONE, "self.time_active_hold_off": Const(hold_off), "self.notify_q": ObjV("q", "Queue"),
                "self.state_trigger_kwargs": DictV(()), "self.name": Const("file.x.f")}
        if has_guard:
            heap.update({"self.active_expr": ObjV("aexpr", "AstEval"), "self.state_active_ident": ListV((), "set")})
    out = run_flow(program, uid, pol, args=args, heap=heap)
    res = set()
    waits = set()
    for k, c, d in exits(out):
        runs = [(r.items[0].v, r.items[1]) for r in c.heap.get("$runs", ListV(())).items]
        if is_wait and k == "return":
            runs.append((phase(c), c.env.get("$ret")))
        shown = []
        for ph, v in runs:
            val = v.get(Const("value")) if isinstance(v, DictV) else None
            shown.append((ph, val.v if isinstance(val, Const) else repr(v)))
        res.add(("return" if k == "return" else d.replace("raise ", ""), tuple(shown)))
        waits.add(tuple(round(t.v, 6) if isinstance(t, Const) and isinstance(t.v, (int, float)) else repr(t) for t in c.heap.get("$timeouts", ListV(())).items))
    if want_waits:
        return res, waits
    return res


LEGACY_SCENARIOS = [
    # label, script, state_hold, state_hold_false, monotonic clock per item, expected runs (phase after which it happens, value of the event whose arguments are passed)
    ("hold: attribute-only update during the hold neither releases nor cancels it", [("note", False, True, True), ("note", False, False, False), ("timeout",)], 5.0, None, [100.0, 100.1, 105.0], [(3, "v0")]),
    ("hold: a further true evaluation neither restarts the hold nor replaces the arguments", [("note", False, True, True), ("note", False, True, True), ("timeout",)], 5.0, None, [100.0, 102.0, 105.0], [(3, "v0")]),
    ("hold: a false evaluation cancels the pending run", [("note", False, True, True), ("note", False, True, False), ("timeout",)], 5.0, None, [100.0, 100.1, 105.0], []),
    ("hold: expiry releases the run with the first event's arguments", [("note", False, True, True), ("timeout",)], 5.0, None, [100.0, 105.0], [(2, "v0")]),
    ("no hold: a true evaluation runs at once", [("note", False, True, True)], None, None, [100.0], [(1, "v0")]),
    ("hold_false: true again before H elapsed is ignored", [("note", False, True, False), ("note", False, True, True)], None, 3.0, [100.0, 101.0], []),
    ("hold_false: true again exactly H later runs", [("note", False, True, False), ("note", False, True, True)], None, 3.0, [100.0, 103.0], [(2, "v1")]),
    ("hold_false: true again after H runs", [("note", False, True, False), ("note", False, True, True)], None, 3.0, [100.0, 104.0], [(2, "v1")]),
    ("hold + hold_false: after a long enough false period the hold starts and its expiry runs", [("note", False, True, False), ("note", False, True, True), ("timeout",)], 5.0, 3.0, [100.0, 104.0, 109.0], [(3, "v1")]),
    ("hold + hold_false: a false evaluation during the hold cancels the pending run", [("note", False, True, False), ("note", False, True, True), ("note", False, True, False), ("timeout",)], 5.0, 3.0,
     [100.0, 104.0, 105.0, 109.5], []),
    ("hold_false: true -> true without a false period in between does not run", [("note", False, True, False), ("note", False, True, True), ("note", False, True, True)], None, 3.0, [100.0, 104.0, 105.0], [(2, "v1")]),
]


LEGACY_START_SCENARIOS = [
    # label, state_check_now, value at the start, clock at the start, script, state_hold, state_hold_false, clock per item, expected runs
    ("hold_false, state_check_now: false at the start begins the false period", True, False, 100.0, [("note", False, True, True)], None, 3.0, [104.0], [(1, "v0")]),
    ("hold_false, no state_check_now: false at the start begins the false period", False, False, 100.0, [("note", False, True, True)], None, 3.0, [104.0], [(1, "v0")]),
    ("hold_false, state_check_now: true too soon after a false start is ignored", True, False, 100.0, [("note", False, True, True)], None, 3.0, [101.0], []),
    ("hold_false=0, state_check_now: false at the start, then true, runs", True, False, 100.0, [("note", False, True, True)], None, 0, [100.5], [(1, "v0")]),
]


def legacy_hold_rules(ctx, program, rid, uids=("trigger.py::TrigInfo.trigger_watch", "trigger.py::TrigTime.wait_until")):
    """The legacy loops interpreted on scripted notification histories (shared with C15 for wait_until)."""
    for uid in uids:
        is_wait = uid.endswith("wait_until")
        for label, check_now, init, mono0, script, S, H, monos, want in LEGACY_START_SCENARIOS:
            got = legacy_run(program, uid, script, S, H, monos, check_now=check_now, init=init, mono0=mono0)
            runs = {r for _, r in got}
            ctx.check(runs == {tuple(want)}, rid, uid, f"{'wait_until' if is_wait else 'trigger_watch'}: {label}",
                      msg=f"{uid} started at {mono0} with the expression {init} (state_check_now={check_now}, state_hold={S}, state_hold_false={H}), then {script} at {monos}: runs {sorted(runs)}, "
                      f"specified {[tuple(want)]} (documented: the expression is evaluated immediately; if False the state_hold_false period begins)", key=f"legacy start {label}",
                      node=program.func(uid), rel="trigger.py")
        for label, script, S, H, monos, want in LEGACY_SCENARIOS:
            if is_wait and len(want) > 1:
                continue
            got = legacy_run(program, uid, script, S, H, monos)
            runs = {r for _, r in got}
            # wait_until returns at the first run; trigger_watch keeps looping
            exp = tuple(want[:1]) if is_wait else tuple(want)
            ok = runs == {exp}
            if S is not None and H is None and script[-1] == ("timeout",) and len(script) == 3 and want:
                _, waits = legacy_run(program, uid, script, S, H, monos, want_waits=True)
                exp_w = (round(S - (monos[0] - monos[0]), 6), round(S - (monos[1] - monos[0]), 6))
                ctx.check(waits == {exp_w}, rid, uid, f"{'wait_until' if is_wait else 'trigger_watch'}: waits armed for the remaining hold time ({label.split(':')[1].strip()[:40]})",
                          msg=f"{uid} on the history {script} (state_hold={S}, clock {monos}): the timed waits are armed with {sorted(waits)}, specified {[exp_w]} (state_hold minus the time elapsed since "
                          f"the hold started)", key=f"legacy waits {label}", node=program.func(uid), rel="trigger.py")
            ctx.check(ok, rid, uid, f"{'wait_until' if is_wait else 'trigger_watch'}: {label}",
                      msg=f"{uid} on the history {script} (state_hold={S}, state_hold_false={H}, clock {monos}): runs {sorted(runs)}, specified {[exp]} "
                      f"[(n, v): released after the n-th history item with the arguments of the event whose value is v]", key=f"legacy scenario {label}", node=program.func(uid), rel="trigger.py")


def hold_expiry_rule(ctx, program, rid):
    """New subsystem: the run released at hold expiry (timer path and notification path) carries the first event's arguments and guard values."""
    S0 = 5.0
    r = _cycle_run(program, [("note", A1, False, True, True), ("note", A2, False, True, True), ("timeout",)], te=None, fe=None, S=S0, H=None, times=[100.0, 101.0, 106.0])
    first_vars = DictV([(Const("d.e"), Const("v0"))])
    ok = r is not None and len(r["dispatch"]) == 1 and r["dispatch"][0] == A1 and r["dispatch_vars"] == [first_vars]
    ctx.check(ok, rid, CYC, "new: hold expiry dispatches the first event's arguments and values",
              msg=f"StateTriggerDecorator._cycle: hold started by event 'first'; a second true evaluation 'second' arrives during the hold; at expiry the run is dispatched with "
              f"{[repr(d) for d in (r['dispatch'] if r else [])]} and the values {[repr(d) for d in (r['dispatch_vars'] if r else [])]} for the guards (specified: the arguments and the values of 'first', {first_vars!r})", key="new hold expiry args", node=program.func(CYC), rel="decorators/state.py")

    # expiry noticed on a later notification (not by the timer)
    r = _cycle_run(program, [("note", A1, False, True, True), ("note", A2, False, True, True)], te=None, fe=None, S=S0, H=None, times=[100.0, 106.0])
    ok = r is not None and len(r["dispatch"]) == 1 and r["dispatch"][0] == A1 and r["dispatch_vars"] == [first_vars]
    ctx.check(ok, rid, CYC, "new: hold found expired on a later notification dispatches the first event's arguments and values",
              msg=f"StateTriggerDecorator._cycle: hold started by 'first' at 100.0, the next true evaluation arrives at 106.0 (> state_hold): dispatched with "
              f"{[repr(d) for d in (r['dispatch'] if r else [])]} / values {[repr(d) for d in (r['dispatch_vars'] if r else [])]} (specified: those of 'first')", key="new hold expiry args (late notification)",
              node=program.func(CYC), rel="decorators/state.py")


def _cycle_run(program, script, te, fe, S, H, times, check_now=False, expr_true=True, from_start=False, in_wait=False):
    """Run _cycle with a scripted queue: ('note', func_args, any, changed, expr_true) | ('timeout',) | ('stop',)."""
    def phase(cfg):
        return cfg.heap.get("$phase", Const(0)).v

    def nxt(interp, node, args, kwargs, cfg, out, via_wait_for=False):
        par = getattr(node, "_parent", None)
        if isinstance(par, ast.Call) and call_name(par) == "asyncio.wait_for":
            return [(cfg, Sym(("coroutine", "notify_q.get")))]  # the awaited object; asyncio.wait_for consumes the script
        p = phase(cfg)
        if call_name(node) == "asyncio.wait_for":
            tmo = kwargs.get("timeout") if kwargs and "timeout" in kwargs else (args[1] if len(args) > 1 else Const("?"))
            cfg = cfg.hset("$timeouts", ListV(cfg.heap.get("$timeouts", ListV(())).items + (tmo,)))
        else:
            cfg = cfg.hset("$timeouts", ListV(cfg.heap.get("$timeouts", ListV(())).items + (Const("no deadline"),)))
        if p >= len(script) or script[p][0] == "stop":
            return [(cfg.hset("dm.status", Sym(("clsattr", "DecoratorManagerStatus", "STOPPED"))).hset("$phase", Const(p + 1)), ListV([Const("state"), ListV([DictV(()), DictV(())])], "tuple"))]
        item = script[p]
        cfg = cfg.hset("$phase", Const(p + 1))
        if item[0] == "timeout":
            out.add("raise", cfg.set("$exc", ExcV("TimeoutError", "hold expiry")))
            return []
        cfg = cfg.hset("$cur", Const(p))
        return [(cfg, ListV([Const("state"), ListV([DictV([(Const("d.e"), Const(f"v{p}"))]), item[1]])], "tuple"))]

    def cur(cfg):
        item = script[cfg.heap.get("$cur", Const(0)).v]
        return item if item[0] == "note" else ("note", DictV(()), False, False, False)

    def now_of(cfg):
        p = min(phase(cfg), len(times)) - 1
        return times[max(p, 0)]

    summ = {
        "self.notify_q.get": nxt,
        "asyncio.wait_for": nxt,
        "ident_any_values_changed": lambda i, n, a, k, c, o: [(c, Const(cur(c)[2]))],
        "ident_values_changed": lambda i, n, a, k, c, o: [(c, Const(cur(c)[3]))],
        "self.check_expression_vars": lambda i, n, a, k, c, o: [(c, Const(cur(c)[4] if not from_start or phase(c) > 0 else expr_true))],
        "self.has_expression": lambda i, n, a, k, c, o: [(c, Const(True))],
        "asyncio.get_running_loop": lambda i, n, a, k, c, o: [(c, ObjV("loop", "Loop"))],
        "_LOGGER.isEnabledFor": lambda i, n, a, k, c, o: [(c, Const(False))],
        "State.notify_var_get": lambda i, n, a, k, c, o: [(c, DictV(()))],
        "DispatchData": lambda i, n, a, k, c, o: [(c, App("new", (ClassV("DispatchData"), a[0] if a else NONE, k.get("trigger_context", NONE))))],
    }

    class P(FlowPolicy):
        def call(self, interp, node, fname, fval, args, kwargs, cfg, out):
            if isinstance(node.func, ast.Attribute) and node.func.attr == "time" and not args:
                return [(cfg, Const(now_of(cfg)))]
            if fname == "self.dispatch":
                dd = args[0] if args else None
                fa = dd.args[1] if isinstance(dd, App) and dd.op == "new" and len(dd.args) > 1 else dd
                cfg = cfg.hset("$dispatched", ListV(cfg.heap.get("$dispatched", ListV(())).items + (fa,)))
                tc = dd.args[2] if isinstance(dd, App) and dd.op == "new" and len(dd.args) > 2 else NONE
                nv = tc.get(Const("new_vars")) if isinstance(tc, DictV) else None
                cfg = cfg.hset("$dispatched_vars", ListV(cfg.heap.get("$dispatched_vars", ListV(())).items + (nv if nv is not None else NONE,)))
                return [(cfg, NONE)]
            return super().call(interp, node, fname, fval, args, kwargs, cfg, out)

    pol = P(program, may_raise_all=False, cancel=False, summaries=summ,
            inline={"self._check_new_state", "self._is_trig_ok", "self._check_state_hold", "StateTriggerDecorator._check_new_state", "StateTriggerDecorator._is_trig_ok", "StateTriggerDecorator._check_state_hold"})
    pol.loop_unroll = len(script) + 3
    heap = {"self.state_check_now": Const(check_now), "self.state_hold_false": Const(H), "self.state_hold": Const(S), "self.__test_handshake__": NONE,
            "self.dm": ObjV("dm", "DecoratorManager"), "dm.status": Sym(("clsattr", "DecoratorManagerStatus", "RUNNING")), "self.state_trig_ident": ListV((), "set"),
            "self.state_trig_ident_any": ListV((), "set"), "self.notify_q": ObjV("q", "Queue"), "self.in_wait_until_function": Const(in_wait), "$phase": Const(0 if not from_start else 0)}
    fn = program.func(CYC)
    if from_start:
        out = run_flow(program, CYC, pol, args={"self": ObjV("self", "StateTriggerDecorator")}, heap=heap)
    else:
        # enter the loop with a given timer state: interpret only the while statement of _cycle
        from ..flow import FlowInterp
        from ..absint import Out
        loop = [s for s in fn.body if isinstance(s, ast.While)]
        if not loop:
            raise AnalysisError("_cycle: main loop not found")
        heap.update({"self.true_entered_at": Const(te), "self.false_entered_at": Const(fe), "self.last_func_args": A1, "self.last_new_vars": DictV(())})
        interp = FlowInterp(pol, "decorators/state.py")
        interp.call_stack.append(fn)
        o = interp.exec_block(loop, [Cfg(env={"self": ObjV("self", "StateTriggerDecorator"), "loop": ObjV("loop", "Loop")}, heap=heap)])
        out = Out()
        out.merge(o)
        for c in o.get("normal"):
            out.add("return", c)
    ends = out.get("return")
    if len(ends) != 1 or out.get("raise"):
        return None
    c = ends[0]
    te2, fe2 = c.heap.get("self.true_entered_at"), c.heap.get("self.false_entered_at")
    return {"dispatch": list(c.heap.get("$dispatched", ListV(())).items), "te": te2.v if isinstance(te2, Const) else repr(te2), "fe": fe2.v if isinstance(fe2, Const) else repr(fe2),
            "args": c.heap.get("self.last_func_args"), "dispatch_vars": list(c.heap.get("$dispatched_vars", ListV(())).items),
            "timeouts": [t.v if isinstance(t, Const) else repr(t) for t in c.heap.get("$timeouts", ListV(())).items]}


def wait_hold_false_rule(ctx, program, rid):
    """StateTriggerDecorator._cycle from its start inside a wait: true at the start (hold begins), false, true again too soon, true again later."""
    for label, script, times, want in (
        ("true at the start, false, true 2 s later (< hold_false), still true later", [("note", A1, False, True, False), ("note", A2, False, True, True), ("note", A2, False, True, True), ("stop",)],
         [100.0, 102.0, 109.0], 0),
        ("true at the start, an update that changes nothing watched, then nothing: the hold expires", [("note", A1, False, False, False), ("timeout",), ("stop",)], [100.0, 105.5], 1),
    ):
        r = _cycle_run(program, script, te=None, fe=None, S=5.0, H=3.0, times=times, check_now=True, expr_true=True, from_start=True, in_wait=True)
        n = len(r["dispatch"]) if r else None
        ctx.check(r is not None and n == want, rid, CYC, f"wait_until: {label}",
                  msg=f"task.wait_until(state_hold=5, state_hold_false=3) in the new subsystem, expression {label} (clock {times}): {n} return(s), specified {want}: "
                  "after an initially true expression the state_hold_false rule is switched off for the whole wait", key=f"wait hold_false {label}", node=program.func(CYC), rel="decorators/state.py")
