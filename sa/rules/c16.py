"""C16 - state variables read and write Home Assistant state faithfully (structural clauses)."""

from __future__ import annotations

import ast
import itertools

from ..absint import NONE, App, Cfg, ClassV, Const, DictV, ExcV, ListV, ObjV, Sym
from ..flow import FlowPolicy, exits, run_flow
from ..repo import AnalysisError, body_walk, call_name, const_set, norm, short
from ..schematic import HandlerPolicy, run_handler, to_nodev
from ..absint import NodeV

LEVEL_TEXT = (
    "decides structural clauses of C16, not agreement with the state machine over histories: State.set computes the value "
    "and attribute dictionary handed to Home Assistant exactly as documented on the finite model "
    "value in {omitted, plain, snapshot} x new_attributes in {omitted, {}, dict} x entity in {exists, missing} x keyword "
    "attributes in {none, one}, with exactly one async_set and without mutating the caller's snapshot or Home "
    "Assistant's attribute mapping; assignment/deletion route by the number of dots; State.get/delete raise the "
    "documented exception types; attribute writes cannot collide with State.set's own parameter names; name lookup "
    "precedence (services before state variables, Python variables before both)"
    "; `del a.b` uses the Python object bound to `a` when there is one and the state variable only when `a` is undefined"
    '; State.get / State.delete follow their documented outcome tables (an attribute whose value is None is still an attribute); container-valued attributes of a snapshot are checked for aliasing (known finding)'
    '; precedence of dotted names (Python variable, then function/service, then state); a non-Context `context` keyword is an attribute'
)
LEVEL_NOTE = "Home Assistant's state machine is trusted; the finite model covers every guard of State.set (None tests, isinstance, truthiness of kwargs)"
TECHNIQUE = "abstract interpretation of State.set/delete/setattr on an exhaustive finite model with alias-aware dictionaries (decision table), routing via schematic evaluation of recurse_assign"

SET = "state.py::State.set"
VIRTUAL = ("entity_id", "last_changed", "last_updated", "last_reported")


def _scenario(program, value_kind, attrs_kind, exists, kw):
    heap = {}
    sv = ObjV("snap", "StateVal")
    sv_dict = DictV([(Const("a"), Sym(("snapattr", "a")))] + [(Const(v), Sym(("virtual", v))) for v in VIRTUAL])
    heap["snap.__dict__"] = sv_dict
    st = ObjV("cur", "CoreState")
    heap["cur.state"] = Sym(("curstate",))
    heap["cur.attributes"] = DictV([(Const("old"), Sym(("curattr", "old")))])
    value = {"omitted": Const(None), "plain": ObjV("plain", "object"), "snapshot": sv}[value_kind]
    na = {"omitted": Const(None), "empty": DictV((), "$caller.new_attributes"), "dict": DictV([(Const("n"), Sym(("newattr", "n")))], "$caller.new_attributes")}[attrs_kind]
    if isinstance(na, DictV):
        heap["$caller.new_attributes"] = DictV(na.items)
    kwargs = DictV([(Const("k"), Sym(("kwattr", "k")))]) if kw else DictV(())
    if kw == "context-str":     # an attribute that happens to be called `context`: merged like any keyword attribute
        kwargs = DictV([(Const("context"), Const("front_door"))])
    elif kw == "context-obj":   # a real Home Assistant context: handed to async_set, not an attribute
        kwargs = DictV([(Const("context"), ObjV("given_ctx", "Context"))])

    def states_get(interp, node, args, kwargs_, cfg, out):
        return [(cfg, st if exists else Const(None))]

    pol = FlowPolicy(program, events=["cls.hass.states.async_set"], may_raise_all=False, cancel=False,
                     summaries={"cls.hass.states.get": states_get, "asyncio.current_task": lambda i, n, a, k, c, o: [(c, Sym(("task",)))]},
                     globals_={"STATE_VIRTUAL_ATTRS": ListV([Const(v) for v in VIRTUAL], "set"), "Context": ClassV("Context")})
    pol.track_aliases = True
    heap["State.notify_var_last"] = DictV(())
    heap["State.notify"] = DictV(())
    heap["State.persisted_vars"] = DictV(())
    out = run_flow(program, SET, pol, args={"cls": ClassV("State"), "var_name": Const("dom.ent"), "value": value, "new_attributes": na, "kwargs": kwargs}, heap=heap)
    res = []
    for kind, c, desc in exits(out):
        calls = [e for e in c.trace if e[0] == "call"]
        mutated = []
        if c.heap.get("snap.__dict__") != sv_dict:
            mutated.append("the caller's snapshot (value.__dict__)")
        if c.heap.get("cur.attributes") != heap["cur.attributes"]:
            mutated.append("Home Assistant's attribute mapping of the entity")
        if "$caller.new_attributes" in heap and c.heap.get("$caller.new_attributes") != heap["$caller.new_attributes"]:
            mutated.append("the dictionary the caller passed as new_attributes")
        res.append((kind, calls, mutated, c))
    return res, value, na


def _canon_attrs(v):
    if isinstance(v, DictV):
        return tuple(sorted((k.v if isinstance(k, Const) else repr(k), repr(x)) for k, x in v.items))
    return repr(v)


def get_table(ctx, program, rid):
    """State.get interpreted: entity missing -> NameError; attribute missing -> AttributeError; value / attribute found -> returned; malformed names -> NameError."""
    from ..flow import FlowPolicy, exits, run_flow
    uid = "state.py::State.get"
    snap = ObjV("snap", "StateVal")
    cases = [("d.e", True, "value"), ("d.e", False, "NameError"), ("d.e.a", True, "attr"), ("d.e.missing", True, "AttributeError"), ("d.e.a", False, "NameError"),
             ("plain", True, "NameError"), ("d.e.a.b", True, "NameError")]
    for name, exists, want in cases:
        st = ObjV("st", "State") if exists else NONE

        def getattr_(i, n, a, k, c, o):
            if a[0] == snap and a[1] == Const("a"):
                return [(c, Sym(("attr", "a")))]
            if a[0] == snap:
                o.add("raise", c.set("$exc", ExcV("AttributeError", "no such attribute")))
                return []
            return None

        pol = FlowPolicy(program, may_raise_all=False, cancel=False, summaries={"cls.hass.states.get": lambda i, n, a, k, c, o, st=st: [(c, st)], "StateVal": lambda i, n, a, k, c, o: [(c, snap)],
                                                                               "getattr": getattr_},
                         globals_={"StateVal": ClassV("StateVal")})
        out = run_flow(program, uid, pol, args={"cls": ClassV("State"), "var_name": Const(name)}, heap={"State.service2args": DictV([])})
        got = set()
        for k, c, d in exits(out):
            r = c.env.get("$ret")
            if k == "raise":
                got.add(getattr(c.env.get("$exc"), "cls", "?"))
            elif r == snap:
                got.add("value")
            elif r == Sym(("attr", "a")):
                got.add("attr")
            else:
                got.add(repr(r))
        ctx.check(got == {want}, rid, uid, f"state.get({name!r}), entity {'exists' if exists else 'missing'}", msg=f"State.get({name!r}) with the entity {'present' if exists else 'absent'} gives {sorted(got)}, "
                  f"specified {want}", key=f"get {name} {exists}", node=program.func(uid), rel="state.py")
    # delete: the exception types are decided by the table of R16.8


def delete_table(ctx, program, rid):
    from ..flow import FlowPolicy, exits, run_flow
    uid = "state.py::State.delete"
    cases = [("d.e.a", {"a": 1, "b": 2}, None, {"b": 2}), ("d.e.a", {"a": None, "b": 2}, None, {"b": 2}), ("d.e.a", {"a": 0}, None, {}), ("d.e.a", {"a": ""}, None, {}),
             ("d.e.a", {"a": False, "z": None}, None, {"z": None}), ("d.e.a", {"b": 2}, "AttributeError", None), ("d.e.a", {}, "AttributeError", None),
             ("d.e.a", None, "NameError", None), ("d.e", {"a": 1}, None, "removed"), ("d.e", None, "NameError", None), ("d.e.a.x", {"a": 1}, "NameError", None), ("plain", {"a": 1}, "NameError", None)]
    for name, attrs, exc, after in cases:
        st = ObjV("st", "State") if attrs is not None else NONE
        heap = {"st.attributes": DictV([(Const(k), Const(v)) for k, v in (attrs or {}).items()]), "st.state": Const("on"), "State.notify_var_last": DictV([]), "State.notify": DictV([])}
        pol = FlowPolicy(program, may_raise_all=False, cancel=False, events=["cls.set", "cls.hass.states.async_remove"],
                         summaries={"cls.hass.states.get": lambda i, n, a, k, c, o, st=st: [(c, st)], "Function.task2context.get": lambda i, n, a, k, c, o: [(c, NONE)],
                                    "asyncio.current_task": lambda i, n, a, k, c, o: [(c, NONE)]})
        pol.summaries["cls.hass.states.async_remove"] = lambda i, n, a, k, c, o, ok=attrs is not None: [(c.emit(("call", "remove", tuple(a), (), 0)), Const(ok))]
        out = run_flow(program, uid, pol, args={"cls": ClassV("State"), "var_name": Const(name), "context": NONE}, heap=heap)
        got = set()
        for k, c, d in exits(out):
            sets = [e for e in c.trace if e[0] == "call" and e[1] == "cls.set"]
            rem = [e for e in c.trace if e[0] == "call" and e[1] == "remove"]
            if k == "raise":
                got.add(("raise", getattr(c.env.get("$exc"), "cls", "?"), len(sets)))
            elif rem and not sets:
                got.add(("removed",))
            elif len(sets) == 1:
                na = dict(sets[0][3]).get("new_attributes")
                got.add(("set", tuple(sorted((kk.v, vv.v) for kk, vv in na.items)) if isinstance(na, DictV) and all(isinstance(vv, Const) for _, vv in na.items) else repr(na)))
            else:
                got.add(("return", len(sets), len(rem)))
        if exc:
            want = {("raise", exc, 0)}
        elif after == "removed":
            want = {("removed",)}
        else:
            want = {("set", tuple(sorted(after.items(), key=lambda kv: kv[0])))}
        ctx.check(got == want, rid, uid, f"del {name} with attributes {attrs}", msg=f"State.delete('{name}') on an entity with attributes {attrs}: {sorted(map(repr, got))}, documented {sorted(map(repr, want))}",
                  key=f"delete {name} {attrs}", node=program.func(uid), rel="state.py")


def run(ctx):
    program = ctx.program
    fn = program.func(SET)
    ctx.rule("R16.1", "State.set: value/attributes handed to Home Assistant follow the documented rules; one async_set; no mutation of inputs", floor=30)
    cases = list(itertools.product(("omitted", "plain", "snapshot"), ("omitted", "empty", "dict"), (True, False), (False, True))) + \
        [("plain", "omitted", True, "context-str"), ("plain", "dict", False, "context-str"), ("plain", "omitted", True, "context-obj")]
    for value_kind, attrs_kind, exists, kw in cases:
        res, value, na = _scenario(program, value_kind, attrs_kind, exists, kw)
        # specification
        if value_kind == "omitted":
            exp_val = "$('curstate',)" if exists else "None"
        elif value_kind == "plain":
            exp_val = "<obj plain:object>"
        else:
            exp_val = "str(<obj snap:StateVal>)"
        if attrs_kind == "empty":
            base = {}
        elif attrs_kind == "dict":
            base = {"n": "$('newattr', 'n')"}
        elif value_kind == "snapshot":
            base = {"a": "$('snapattr', 'a')"}
        elif exists:
            base = {"old": "$('curattr', 'old')"}
        else:
            base = {}
        if kw == "context-str":
            base = dict(base, context="'front_door'")
        elif kw is True:
            base = dict(base, k="$('kwattr', 'k')")
        exp_attrs = tuple(sorted(base.items()))
        label = f"value={value_kind} new_attributes={attrs_kind} entity={'exists' if exists else 'missing'} kwargs={'one' if kw is True else ('none' if not kw else kw)}"
        problems = []
        rets = [r for r in res if r[0] == "return"]
        if not rets:
            problems.append("no normal completion")
        for kind, calls, mutated, c in rets:
            if len(calls) != 1:
                problems.append(f"{len(calls)} async_set calls")
                continue
            args = calls[0][2]
            got_val = repr(args[1]) if len(args) > 1 else "?"
            got_attrs = _canon_attrs(args[2]) if len(args) > 2 else "?"
            if got_val != exp_val:
                problems.append(f"state value {got_val}, specified {exp_val}")
            if got_attrs != exp_attrs:
                problems.append(f"attributes {got_attrs}, specified {exp_attrs}")
            if kw == "context-obj" and dict(calls[0][3]).get("context") != ObjV("given_ctx", "Context"):
                problems.append(f"the given Context is not handed to async_set (context={dict(calls[0][3]).get('context')!r})")
            if mutated:
                problems.append("mutates " + " and ".join(mutated))
        ctx.check(not problems, "R16.1", SET, f"set: {label}",
                  msg=f"State.set with {label}: {problems[:2]}", key=f"set {label}", node=fn, rel="state.py", sample={"expected_value": exp_val, "expected_attrs": repr(exp_attrs)})

    # R16.2 routing by dot count ---------------------------------------------------------------------------------------
    ctx.rule("R16.2", "assignment routes by dot count: one dot -> State.set, two -> State.setattr, more -> NameError", floor=3)
    pol = HandlerPolicy(program)
    for name, exp in (("dom.ent", "State.set"), ("dom.ent.attr", "State.setattr"), ("dom.ent.attr.x", "NameError")):
        lhs = NodeV("Name", {"id": Const(name), "ctx": NodeV("Store", {}, "ctx")}, "lhs")
        out = run_handler(program, lhs, pol, method="recurse_assign", extra_args=[Sym(("val", "rhs"))])
        got = set()
        for c in out.get("return"):
            for e in c.trace:
                if e[0] == "call" and str(e[1]).startswith("State."):
                    got.add((e[1], tuple(map(repr, e[2]))))
        for c in out.get("raise"):
            got.add((getattr(c.env.get("$exc"), "cls", "?"), ()))
        ok = {g[0] for g in got} == {exp} and (exp == "NameError" or all(a == (repr(Const(name)), repr(Sym(("val", "rhs")))) for _, a in got))
        ctx.check(ok, "R16.2", "eval.py::AstEval.recurse_assign", f"`{name} = v` -> {exp}",
                  msg=f"assignment to `{name}` is routed to {sorted(got)}; documented: {exp}(name, value)", key=f"route {name.count('.')} dots",
                  node=program.func("eval.py::AstEval.recurse_assign"), rel="eval.py")

    # R16.7 precedence for attribute targets: a Python object bound to the first name wins over a state variable of the same dotted name ----
    ctx.rule("R16.7", "`del a.b`, `a.b = v` and reading `a.b`: when `a` is a Python variable the object's attribute is used; only when `a` is undefined the dotted name denotes a state variable", floor=4)
    from ..flow import FlowPolicy, exits, run_flow
    from ..schematic import to_nodev
    for defined in (True, False):
        for src, uid, is_del in (("del a.b", "eval.py::AstEval.ast_delete", True), ("del a.b.c", "eval.py::AstEval.ast_delete", True)):
            node = to_nodev(ast.parse(src).body[0])
            seen = []

            def ast_name(i, n, a, k, c, o, defined=defined):
                nm = a[0].fields.get("id") if isinstance(a[0], NodeV) else (a[0].args[1] if isinstance(a[0], App) and len(a[0].args) > 1 else None)
                first = nm.v.split(".")[0] if isinstance(nm, Const) else "?"
                return [(c, ObjV("pyobj", "object") if (defined and first == "a" and isinstance(nm, Const) and "." not in nm.v) else ObjV("undef", "EvalName"))]

            def state_delete(i, n, a, k, c, o):
                seen.append(("State.delete", a[0].v if isinstance(a[0], Const) else repr(a[0])))
                return [(c, Const(None))]

            def py_delattr(i, n, a, k, c, o):
                seen.append(("delattr", getattr(a[0], "oid", repr(a[0])), a[1].v if isinstance(a[1], Const) else repr(a[1])))
                return [(c, Const(None))]

            pol = FlowPolicy(program, may_raise_all=False, cancel=False, inline={"AstEval.ast_attribute_collapse", "self.ast_attribute_collapse"},
                             summaries={"self.ast_name": ast_name, "State.delete": state_delete, "delattr": py_delattr,
                                        "ast.Name": lambda i, n, a, k, c, o: [(c, NodeV("Name", {"id": k.get("id", Const("?")), "ctx": NodeV("Load", {}, "ctx")}, "synthetic"))],
                                        "self.aeval": lambda i, n, a, k, c, o: [(c, ObjV("attr_of_pyobj" if isinstance(a[0], NodeV) and a[0].cls == "Attribute" else "pyobj", "object"))]})
            pol.loop_unroll = 2
            out = run_flow(program, uid, pol, args={"self": ObjV("self", "AstEval"), "arg": node}, heap={"self.curr_func": Const(None)})
            dotted_name = src[4:]
            last = dotted_name.rsplit(".", 1)[1]
            want = [("delattr", "pyobj" if dotted_name.count(".") == 1 else "attr_of_pyobj", last)] if defined else [("State.delete", dotted_name)]
            ok = bool(exits(out)) and all(k == "return" for k, c, d in exits(out)) and seen == want
            ctx.check(ok, "R16.7", uid, f"`{src}` with `a` {'bound to a Python object' if defined else 'undefined'}",
                      msg=f"`{src}` while `a` is {'a Python variable' if defined else 'not defined'}: performs {seen}, specified {want}"
                      + (": an entity whose id equals the dotted expression is removed instead of the object's attribute" if defined else ""),
                      key=f"del routing {src} {defined}", node=program.func(uid), rel="eval.py")

    # R16.4 exception types -------------------------------------------------------------------------------------------
    ctx.rule("R16.4", "State.get raises NameError for a missing entity and AttributeError for a missing attribute; delete likewise", floor=4)
    get_table(ctx, program, "R16.4")

    ctx.rule("R16.8", "State.delete: `del d.e.attr` removes exactly that attribute whatever its value (None, 0, '' included) and raises AttributeError only when it is absent; "
             "`del d.e` removes the entity or raises NameError; other shapes raise NameError", floor=8)
    delete_table(ctx, program, "R16.8")

    # R16.5 snapshots are copies ----------------------------------------------------------------------------------------
    ctx.rule("R16.9", "reading a dotted name: a Python variable (local, then global) comes before a pyscript function/service of that name, and that before the state "
             "variable or attribute of that name; a one-dot name nothing else defines is read from the state machine, a two-dot one only if the attribute exists", floor=12)
    name_precedence_table(ctx, program, "R16.9")

    ctx.rule("R16.5", "values handed to scripts are copies: StateVal copies the attribute mapping, getattr/delete copy before changing", floor=4)
    new = program.func("state.py::StateVal.__new__")
    from ..flow import FlowPolicy as _FP0, exits as _exits0, run_flow as _run0
    class _NewPolicy(_FP0):
        def call(self, interp, node, fname, fval, args, kwargs, cfg, out):
            if isinstance(node.func, ast.Attribute) and node.func.attr == "__new__":
                return [(cfg, ObjV("snapshot", "StateVal"))]
            return super().call(interp, node, fname, fval, args, kwargs, cfg, out)

    pol0 = _NewPolicy(program, may_raise_all=False, cancel=False)
    pol0.track_aliases = True
    attrs0 = DictV([(Const("a"), Const(1))])
    out0 = _run0(program, "state.py::StateVal.__new__", pol0, args={"cls": ClassV("StateVal"), "state": ObjV("ha_state", "State")},
                 heap={"ha_state.attributes": attrs0, "ha_state.state": Const("on"), "ha_state.entity_id": Const("d.e"), "ha_state.last_updated": Const(1), "ha_state.last_changed": Const(1),
                       "ha_state.last_reported": Const(1)})
    bad0 = None
    ex0 = _exits0(out0)
    for k, c, d in ex0:
        own = c.heap.get("snapshot.__dict__")
        if k != "return" or not isinstance(own, DictV):
            bad0 = f"the snapshot's attribute mapping is {own!r} ({d})"
        elif own.origin is not None:
            bad0 = f"the snapshot shares Home Assistant's attribute mapping ({own.origin}): a captured value changes when the entity changes, and setting snapshot fields edits the state machine's object"
        elif own.get(Const("a")) != Const(1) or c.heap.get("ha_state.attributes") != attrs0:
            bad0 = f"attributes copied wrongly: {own!r} / source now {c.heap.get('ha_state.attributes')!r}"
    ctx.check(bool(ex0) and bad0 is None, "R16.5", "state.py::StateVal.__new__", "snapshot owns a copy of the attributes", msg=f"StateVal(state): {bad0 or 'no exit'}",
              key="StateVal copies attributes", node=new, rel="state.py")
    # nested containers: a list/dict-valued attribute of the snapshot must not be the object Home Assistant (and every other snapshot) holds
    nested = DictV([(Const("k"), Const(1))], "ha_state.attributes[hist]")
    attrs1 = DictV([(Const("a"), Const(1)), (Const("hist"), nested)])
    out1 = _run0(program, "state.py::StateVal.__new__", pol0, args={"cls": ClassV("StateVal"), "state": ObjV("ha_state", "State")},
                 heap={"ha_state.attributes": attrs1, "ha_state.attributes[hist]": DictV(nested.items), "ha_state.state": Const("on"), "ha_state.entity_id": Const("d.e"),
                       "ha_state.last_updated": Const(1), "ha_state.last_changed": Const(1), "ha_state.last_reported": Const(1)})
    bad1 = None
    ex1 = _exits0(out1)
    for k, c, d in ex1:
        own = c.heap.get("snapshot.__dict__")
        inner = own.get(Const("hist")) if isinstance(own, DictV) else None
        if k != "return" or not isinstance(inner, DictV):
            bad1 = f"the snapshot's container-valued attribute is {inner!r} ({d})"
        elif inner.origin is not None:
            bad1 = ("a list/dict-valued attribute of the snapshot is the very object held by Home Assistant's state (shallow copy): `x = d.e.hist; x.append(..)` changes every "
                    "captured snapshot of d.e and the state machine's own copy, without any state_changed event")
    ctx.check(bool(ex1) and bad1 is None, "R16.5", "state.py::StateVal.__new__", "container-valued attributes of a snapshot are copies too", msg=f"StateVal(state): {bad1 or 'no exit'}",
              key="StateVal shares nested attribute values", node=new, rel="state.py")
    # what scripts get back never aliases the snapshot / Home Assistant's mapping, and taking it does not change them (alias analysis on scenarios)
    from ..flow import FlowPolicy as _FP, exits as _exits, run_flow as _run
    virt = const_set(program.module_const("state.py", "STATE_VIRTUAL_ATTRS")) or set()
    snap_items = [(Const("a"), Const(1)), (Const("b"), Const(2))] + [(Const(v), Const("virt")) for v in sorted(virt)]
    ha_attrs = DictV([(Const("a"), Const(1)), (Const("b"), Const(2))])
    pol = _FP(program, may_raise_all=False, cancel=False, globals_={"STATE_VIRTUAL_ATTRS": ListV(tuple(Const(v) for v in sorted(virt)), "set"), "StateVal": ClassV("StateVal")},
              summaries={"cls.hass.states.get": lambda i, n, a, k, c, o: [(c, ObjV("ha_state", "State"))]})
    pol.track_aliases = True
    pol.loop_unroll = 8
    for label, arg, src_slot, src_val in (("a captured snapshot", ObjV("snap", "StateVal"), "snap.__dict__", DictV(snap_items)), ("an entity name", Const("d.e"), "ha_state.attributes", ha_attrs)):
        heap = {"snap.__dict__": DictV(snap_items), "ha_state.attributes": ha_attrs, "ha_state.state": Const("on")}
        out = _run(program, "state.py::State.getattr", pol, args={"cls": ClassV("State"), "var_name": arg}, heap=heap)
        bad = None
        ex = _exits(out)
        for k, c, d in ex:
            r = c.env.get("$ret")
            if k != "return" or not isinstance(r, DictV):
                bad = f"returns {r!r} ({d})"
            elif {kk.v: vv for kk, vv in r.items} != {"a": Const(1), "b": Const(2)}:
                bad = f"returns {r!r}, specified the attributes {{'a': 1, 'b': 2}} without the virtual fields {sorted(virt)}"
            elif r.origin is not None:
                bad = f"the returned dictionary is the live mapping of {label} ({r.origin}): editing it edits the snapshot / Home Assistant's state"
            elif c.heap.get(src_slot) != src_val:
                bad = f"taking the attributes changes {label} itself: {c.heap.get(src_slot)!r}"
        ctx.check(bool(ex) and bad is None, "R16.5", "state.py::State.getattr", f"state.getattr of {label} returns an independent copy",
                  msg=f"state.getattr({label}): {bad or 'no exit'}", key=f"getattr copy {label}", node=program.func("state.py::State.getattr"), rel="state.py")
    # deleting an attribute builds the new mapping from a copy
    sets = []
    pol2 = _FP(program, may_raise_all=False, cancel=False, summaries={"cls.hass.states.get": lambda i, n, a, k, c, o: [(c, ObjV("ha_state", "State"))],
                                                                      "cls.set": lambda i, n, a, k, c, o: (sets.append((tuple(a), dict(k))), [(c, Const(None))])[1],
                                                                      "asyncio.current_task": lambda i, n, a, k, c, o: [(c, Const("T"))]})
    pol2.track_aliases = True
    heap = {"ha_state.attributes": ha_attrs, "ha_state.state": Const("on"), "Function.task2context": DictV([])}
    out = _run(program, "state.py::State.delete", pol2, args={"cls": ClassV("State"), "var_name": Const("d.e.a"), "context": Const(None)}, heap=heap)
    bad = None
    for k, c, d in _exits(out):
        if c.heap.get("ha_state.attributes") != ha_attrs:
            bad = f"Home Assistant's attribute mapping is edited in place: {c.heap.get('ha_state.attributes')!r}"
    na = sets[0][1].get("new_attributes") if len(sets) == 1 else None
    if bad is None and (len(sets) != 1 or not isinstance(na, DictV) or {kk.v: vv for kk, vv in na.items} != {"b": Const(2)}):
        bad = f"State.set is called {len(sets)} time(s) with new_attributes={na!r}, specified one call with {{'b': 2}}"
    ctx.check(bad is None, "R16.5", "state.py::State.delete", "deleting an attribute writes a new mapping without touching Home Assistant's", msg=f"del d.e.a: {bad}",
              key="delete attribute copies", node=program.func("state.py::State.delete"), rel="state.py")

    # R16.6 attribute names cannot collide with State.set's parameters -------------------------------------------------
    ctx.rule("R16.6", "attribute writes do not pass the attribute name as a keyword of State.set (names like value/new_attributes/context would be misrouted)", floor=1)
    params = {a.arg for a in fn.args.args[1:]} | {"context"}
    for u in program.functions("state.py"):
        for n in body_walk(u.node):
            if isinstance(n, ast.Call) and call_name(n) in ("cls.set", "State.set"):
                dyn = [k for k in n.keywords if k.arg is None and isinstance(k.value, ast.Dict) and any(not isinstance(x, ast.Constant) for x in k.value.keys)]
                ctx.check(not dyn, "R16.6", u.uid, f"`{short(n, 60)}` has no dynamic keyword names",
                          msg=f"{u.uid}: `{short(n)}` passes a run-time attribute name as keyword of State.set; an attribute called {sorted(params)} is taken as that parameter "
                          f"(e.g. state.setattr('dom.ent.value', 5) changes the state value, not the attribute)", key="dynamic keyword into State.set", node=n, rel="state.py")

    # R16.3 precedence (shared with C03's R03.7) ------------------------------------------------------------------------
    from .c03 import _lookup_order_rule
    _lookup_order_rule(ctx, program)  # rule R03.7: Python variables, then functions/services, then state variables
    return (
        "Static, source-only: State.set is abstractly interpreted on all 36 combinations of the finite argument/entity model with alias-aware "
        "dictionaries; the (value, attributes) passed to hass.states.async_set and the heap (caller's snapshot, HA's mapping) are compared with the documented "
        "rules.  Routing of assignments by dot count via schematic evaluation of recurse_assign; exception types, copies, keyword collision and lookup order structurally. "
        "Not decided: agreement with Home Assistant's state machine over operation histories."
    )


class _PrecedencePolicy(HandlerPolicy):
    """ast_name interpreted with the two outside tables (functions/services, state machine) fixed per case."""

    def __init__(self, program, func, state):
        super().__init__(program, opaque_methods=("call_func",))
        self.plain_ast_name = True
        self.func, self.state = func, state

    def call(self, interp, node, fname, fval, args, kwargs, cfg, out):
        if fname == "Function.get":
            return [(cfg, self.func if self.func is not None else NONE)]
        if fname == "State.exist":
            return [(cfg, Const(self.state is not None))]
        if fname == "State.get":
            # State.get raises NameError for an entity the state machine does not have
            if self.state is None:
                out.add("raise", cfg.set("$exc", ExcV("NameError", "State.get")))
                return []
            return [(cfg, self.state)]
        return super().call(interp, node, fname, fval, args, kwargs, cfg, out)


def name_precedence_table(ctx, program, rid):
    from ..schematic import MODULE_SCOPE
    fn = program.func("eval.py::AstEval.ast_name")
    L, G, F, S = Sym(("scope", "local")), Sym(("scope", "global")), ObjV("function_or_service", "function"), ObjV("state_value", "StateVal")
    excl = const_set(program.module_const("eval.py", "BUILTIN_EXCLUDE")) or set()
    n = 0
    for name in ("dom.ent", "dom.ent.attr"):
        for loc, glob, func, state in itertools.product((None, L), (None, G), (None, F), (None, S)):
            want = next((v for v in (loc, glob, func, state) if v is not None), "NameError")
            pol = _PrecedencePolicy(program, func, state)
            pol.mod_consts["BUILTIN_EXCLUDE"] = Const(frozenset(excl))
            h = dict(MODULE_SCOPE)
            h["self.sym_table"] = DictV(((Const("$symtab"), Const("local")),) + (((Const(name), loc),) if loc is not None else ()))
            h["self.local_sym_table"] = DictV(())
            h["self.global_sym_table"] = DictV(((Const("$symtab"), Const("global")),) + (((Const(name), glob),) if glob is not None else ()))
            h["self.curr_func"] = Const(None)
            node = NodeV("Name", {"id": Const(name), "ctx": NodeV("Load", {}, "ctx")}, f"name:{name}")
            out = run_handler(program, node, pol, method="ast_name", heap=h)
            got = set()
            for c in out.get("return"):
                v = c.env.get("$ret")
                got.add("NameError" if isinstance(v, App) and v.op == "new" and "EvalName" in repr(v) else v)
            for c in out.get("raise"):
                got.add(getattr(c.env.get("$exc"), "cls", "?"))
            have = [t for t, v in (("a local variable", loc), ("a global variable", glob), ("a function/service", func), ("a state " + ("attribute" if name.count(".") == 2 else "variable"), state)) if v is not None]
            label = f"`{name}` defined as " + (", ".join(have) if have else "nothing")
            n += 1
            ctx.check(got == {want}, rid, "eval.py::AstEval.ast_name", label,
                      msg=f"reading {label} gives {sorted(map(repr, got))}, specified {want!r} (Python variables, then functions and services, then state)",
                      key=f"precedence {name.count('.')} dots {'L' if loc else '-'}{'G' if glob else '-'}{'F' if func else '-'}{'S' if state else '-'}", node=fn, rel="eval.py")
    return n
