"""C09 - triggers live exactly as long as their function and leave nothing behind (release/ownership clauses)."""

from __future__ import annotations

import ast

from ..flow import FlowPolicy, exits, run_flow
from ..repo import AnalysisError, body_walk, call_name, dotted, enclosing_func, norm, short

LEVEL_TEXT = (
    "decides release/ownership clauses of C09, not garbage-collection timing: every owner class releases in its stop "
    "path each kind of registration it acquires in its start path; per-element cleanup loops cannot exit early; "
    "listener handles are stored and all stored handles are called on unload; the finaliser paths reach the stop "
    "routines and no manager/decorator holds a strong reference to the function variable; a context is stopped before "
    "it is dropped or replaced and when its load fails"
    "; legacy @service registrations made by a decorator set that then fails are rolled back; State.notify_del releases every entity for every name order; GlobalContext.stop always switches auto-start off; the manager of a function whose variable died is stopped or, if not started yet, never started; a refused @service name never releases another context's registration"
    "; a manager stopped during its start starts nothing further; the stop of a dead function's manager begins inside the finaliser; an EvalFunc has one trigger-stopping holder; a manager is recorded in its context before its start; subscription sets are owned copies"
    '; the shutdown occurrence is produced by the removal path only (who-may-call TrigInfo.stop); subscriptions of every name form are released'
)
LEVEL_NOTE = "when the last reference to a function dies is decided by the host GC and is out of scope; acquire/release kinds are recognised by the repo's own API names (table in the checker)"
TECHNIQUE = "acquire/release kind tables per owner class (sibling agreement), loop early-exit rule, handle def-use, closure free-variable check, ordered must-pass events in load_file/delete"

ACQ = {
    "State.notify_add": "state subscription", "Event.notify_add": "event subscription", "Mqtt.notify_add": "mqtt subscription",
    "Webhook.notify_add": "webhook subscription", "webhook.async_register": "webhook registration", "Function.service_register": "service registration",
}
REL = {
    "State.notify_del": "state subscription", "Event.notify_del": "event subscription", "Mqtt.notify_del": "mqtt subscription",
    "Webhook.notify_del": "webhook subscription", "webhook.async_unregister": "webhook registration", "Function.service_remove": "service registration",
}
HANDLE_CALLS = ("async_listen", "async_subscribe")
TASK_CALLS = ("async_create_background_task", "create_task")

# owner -> (functions that acquire, functions that release)
OWNERS = {
    "TrigInfo (legacy trigger)": (["trigger.py::TrigInfo.trigger_watch", "trigger.py::TrigInfo.start"], ["trigger.py::TrigInfo.stop"]),
    "EvalFunc (legacy @service)": (["eval.py::EvalFunc.trigger_init"], ["eval.py::EvalFunc.trigger_stop"]),
    "StateTriggerDecorator": (["decorators/state.py::StateTriggerDecorator.start"], ["decorators/state.py::StateTriggerDecorator.stop"]),
    "TimeTriggerDecorator": (["decorators/timing.py::TimeTriggerDecorator.start"], ["decorators/timing.py::TimeTriggerDecorator.stop"]),
    "EventTriggerDecorator": (["decorators/event.py::EventTriggerDecorator.start"], ["decorators/event.py::EventTriggerDecorator.stop"]),
    "MQTTTriggerDecorator": (["decorators/mqtt.py::MQTTTriggerDecorator.start"], ["decorators/mqtt.py::MQTTTriggerDecorator.stop"]),
    "WebhookTriggerDecorator": (["decorators/webhook.py::WebhookTriggerDecorator.start"], ["decorators/webhook.py::WebhookTriggerDecorator.stop"]),
    "ServiceDecorator": (["decorators/service.py::ServiceDecorator.start"], ["decorators/service.py::ServiceDecorator.stop"]),
    "Event (shared bus listener)": (["event.py::Event.notify_add"], ["event.py::Event.notify_del"]),
    "Mqtt (shared subscription)": (["mqtt.py::Mqtt.notify_add"], ["mqtt.py::Mqtt.notify_del"]),
    "Webhook (shared registration)": (["webhook.py::Webhook.notify_add"], ["webhook.py::Webhook.notify_del"]),
}


def _stored_target(call):
    """Where the value of ``call`` (possibly awaited) is stored: attribute/subscript text, else None."""
    p = getattr(call, "_parent", None)
    if isinstance(p, ast.Await):
        p = getattr(p, "_parent", None)
    if isinstance(p, ast.Assign) and len(p.targets) == 1:
        tgt = p.targets[0]
        if isinstance(tgt, ast.Name):
            # held in a local first: the slot is where that local is stored afterwards (`slot[k] = local`)
            from ..repo import enclosing_func
            fn = enclosing_func(call)
            for m in (body_walk(fn) if fn is not None else ()):
                if isinstance(m, ast.Assign) and isinstance(m.value, ast.Name) and m.value.id == tgt.id and len(m.targets) == 1 and not isinstance(m.targets[0], ast.Name):
                    return norm(m.targets[0])
        return norm(tgt)
    return None


def kinds_acquired(fn, nodes=None):
    kinds = {}
    nodes = list(body_walk(fn)) if nodes is None else nodes
    for n in nodes:
        if not isinstance(n, ast.Call):
            continue
        name = call_name(n) or ""
        if name in ACQ:
            kinds[ACQ[name]] = n
        elif name.split(".")[-1] in HANDLE_CALLS:
            tgt = _stored_target(n)
            kinds[f"handle stored in {tgt}"] = n
        elif name.split(".")[-1] in TASK_CALLS:
            tgt = _stored_target(n)
            if tgt:
                kinds[f"task stored in {tgt}"] = n
    # a release closure stored as a handle: slot = lambda: <release call>  => the kind is released by calling the slot
    for n in nodes:
        if isinstance(n, ast.Assign) and isinstance(n.value, ast.Lambda) and len(n.targets) == 1:
            for m in ast.walk(n.value.body):
                if isinstance(m, ast.Call) and (call_name(m) or "") in REL and REL[call_name(m)] in kinds:
                    node = kinds.pop(REL[call_name(m)])
                    kinds[f"handle stored in {norm(n.targets[0])}"] = node
    return kinds


def kinds_released(fn, nodes=None):
    kinds = set()
    for n in (body_walk(fn) if nodes is None else nodes):
        if not isinstance(n, ast.Call):
            continue
        name = call_name(n) or ""
        if name in REL:
            kinds.add(REL[name])
        elif "." in name and isinstance(n.func, ast.Attribute) and isinstance(n.func.value, ast.Name):
            # `for source, trig in ((Event, ..), (Mqtt, ..)): source.notify_del(..)`: the call is made on each source of the literal table
            var, meth = n.func.value.id, n.func.attr
            p_ = getattr(n, "_parent", None)
            while p_ is not None and not isinstance(p_, (ast.FunctionDef, ast.AsyncFunctionDef)):
                if isinstance(p_, ast.For) and isinstance(p_.iter, (ast.Tuple, ast.List)):
                    tg = p_.target
                    idx = 0 if isinstance(tg, ast.Name) and tg.id == var else next((i for i, e in enumerate(getattr(tg, "elts", ())) if isinstance(e, ast.Name) and e.id == var), None)
                    if idx is not None:
                        for e in p_.iter.elts:
                            src = e if isinstance(tg, ast.Name) else (e.elts[idx] if isinstance(e, (ast.Tuple, ast.List)) and idx < len(e.elts) else None)
                            if src is not None and f"{norm(src)}.{meth}" in REL:
                                kinds.add(REL[f"{norm(src)}.{meth}"])
                p_ = getattr(p_, "_parent", None)
        from ..repo import expand_locals
        efn = enclosing_func(n)

        def _slot(e):
            # (a handle or task read into a local first - `task = self._cycle_task` - is still the stored one)
            return norm(expand_locals(efn, e)) if efn is not None else norm(e)
        if name.endswith(".cancel") and name.count(".") >= 1:
            kinds.add(f"task stored in {name[:-7]}")
            kinds.add(f"task stored in {_slot(n.func.value)}")
        if name in ("Function.reaper_cancel",) and n.args:
            kinds.add(f"task stored in {norm(n.args[0])}")
            kinds.add(f"task stored in {_slot(n.args[0])}")
        # calling a stored handle: self.x() or cls.notify_remove[k]()
        if isinstance(n.func, (ast.Attribute, ast.Subscript, ast.Name)) and not n.args and not n.keywords:
            kinds.add(f"handle stored in {norm(n.func)}")
            kinds.add(f"handle stored in {_slot(n.func)}")
    return kinds


def run(ctx):
    program = ctx.program
    ctx.rule("R09.1", "each owner releases in its stop path every kind of registration it acquires in its start path", floor=12)
    for owner, (acqs, rels) in OWNERS.items():
        acquired = {}
        for uid in acqs:
            acquired.update({k: (uid, n) for k, n in kinds_acquired(program.func(uid)).items()})
            # subscriptions made in a helper of the owner (an extracted `_subscribe_all`) are the owner's; tasks and handles created by what it calls are not
            acquired.update({k: (uid, n) for k, n in kinds_acquired(program.func(uid), program.walk_with_helpers(uid)).items() if k in ACQ.values() and k not in acquired})
        released = set()
        for uid in rels:
            released |= kinds_released(program.func(uid), program.walk_with_helpers(uid))
        if not acquired:
            raise AnalysisError(f"{owner}: no acquisition recognised in {acqs} - the kind table no longer matches the code")
        for k, (uid, n) in acquired.items():
            kk = k
            # handle keyed by container slot: cls.notify_remove[event_type] vs cls.notify_remove[topic] (same container)
            ok = kk in released or any(_same_slot(kk, r) for r in released)
            ctx.check(ok, "R09.1", rels[0], f"{owner}: {k} released",
                      msg=f"{owner}: `{short(n)}` acquires a {k} in {uid.split('::')[1]} but {', '.join(r.split('::')[1] for r in rels)} never releases it",
                      key=f"{owner}: {k.split(' stored in ')[0]} not released", node=program.func(rels[0]), rel=rels[0].split("::")[0],
                      sample={"acquired_at": program.loc(uid.split("::")[0], n)})

    ctx.rule("R09.7", "a service registration is released exactly when its last declaring function goes away (reference-count transition table)", floor=20)
    from .c12 import refcount_table
    refcount_table(ctx, program, "R09.7")

    ctx.rule("R09.19", "service_register and service_remove agree on the key of a service (Home Assistant lower-cases names): a declaration under another spelling neither "
             "removes a service that is still declared nor leaves an owner record behind", floor=6)
    from .c12 import case_table
    case_table(ctx, program, "R09.19")

    ctx.rule("R09.8", "legacy @service: no exit of trigger_init leaves a service registered that the context's stop() cannot reach", floor=2)
    from .c12 import legacy_service_reachability
    legacy_service_reachability(ctx, program, "R09.8")

    ctx.rule("R09.9", "new subsystem: the manager of a function whose variable died is stopped, or - when not started yet - never started", floor=4)
    func_var_death_rule(ctx, program, "R09.9")
    ctx.rule("R09.15", "legacy ownership: an EvalFunc is held by at most one object whose finaliser stops its triggers (fresh, transferred with remove_func(), "
             "never shared through get_func()/.func)", floor=1)  # (the number of construction sites is not part of the rule: duplicated branches may be merged)
    single_owner_rule(ctx, program, "R09.15")
    ctx.rule("R09.16", "new subsystem: a manager is in its context's manager set (which stop() walks) before its start is entered; while the context loads it is queued, not started", floor=2)
    tracked_before_start_rule(ctx, program, "R09.16")
    ctx.rule("R09.17", "the set of entities a trigger unsubscribes at stop is the trigger's own object: it is built (set(...), a scan result), never the very list/set the script "
             "passed as watch= (which the script may change later - the removed entities would stay subscribed for ever)", floor=3)
    own_ident_rule(ctx, program, "R09.17")
    ctx.rule("R09.18", "legacy subsystem: the shutdown occurrence belongs to the removal of the function: TrigInfo.stop() - which runs it - is called by the function's "
             "trigger_stop() only; the trigger task's own error path releases its subscriptions without it (else a function that is still defined gets a shutdown run when its "
             "task dies, and a second one at the real removal)", floor=1)
    stop_sites = []
    for u in program.functions():
        if u.rel.startswith("stubs/"):
            continue
        for n in body_walk(u.node):
            if isinstance(n, ast.Call) and isinstance(n.func, ast.Attribute) and n.func.attr == "stop" and not n.args:
                recv = norm(n.func.value)
                if (u.cls == "TrigInfo" and recv == "self") or (u.uid.startswith("eval.py::EvalFunc.") and recv in ("trigger", "trig")):
                    stop_sites.append((u.uid, n))
    if not any(uid == "eval.py::EvalFunc.trigger_stop" for uid, _ in stop_sites):
        raise AnalysisError("R09.18: EvalFunc.trigger_stop no longer stops its TrigInfo objects")
    for uid, n in stop_sites:
        ctx.check(uid == "eval.py::EvalFunc.trigger_stop", "R09.18", uid, f"`{short(n)}` is the removal path",
                  msg=f"{uid}: `{short(n)}` runs TrigInfo.stop() - and with it the @time_trigger('shutdown') occurrence - outside the removal of the function", key=f"TrigInfo.stop caller {uid}",
                  node=n, rel=uid.split("::")[0])

    ctx.rule("R09.14", "new subsystem: the stop of a running manager whose function variable died begins inside the finaliser (eagerly started task), not in a later loop iteration", floor=1)
    eager_stop_rule(ctx, program, "R09.14")

    ctx.rule("R09.10", "new subsystem @service: names registered by start() are exactly the names stop() removes; a refused name never releases another context's registration", floor=8)
    from .c12 import service_forms
    service_forms(ctx, program, "R09.10")

    ctx.rule("R09.11", "State.notify_del releases the queue's subscription of every watched entity for every ordering of the names", floor=20)
    from .c15 import state_unsubscribe_table
    state_unsubscribe_table(ctx, program, "R09.11")

    ctx.rule("R09.12", "GlobalContext.stop leaves nothing registered or queued and switches auto-start off, whatever was registered before", floor=4)
    context_stop_table(ctx, program, "R09.12")

    ctx.rule("R09.13", "new subsystem: a manager stopped while its start loop is suspended in a trigger's start (reload/redefinition arriving then) starts no further "
             "trigger - every trigger it did start is stopped", floor=2)
    from .c15 import start_typestate
    start_typestate(ctx, program, "R09.13")

    ctx.rule("R09.2", "cleanup loops that release per element never return or break on a missing element", floor=3)
    loops = 0
    for u in program.functions():
        if u.rel.startswith("stubs/"):
            continue
        if not any(x in u.qual for x in ("notify_del", "stop", "trigger_stop", "unload", "delete")):
            continue
        for loop in body_walk(u.node):
            if not isinstance(loop, ast.For):
                continue
            releases = [m for m in ast.walk(loop) if isinstance(m, ast.Delete) or (isinstance(m, ast.Call) and (
                (call_name(m) or "").split(".")[-1] in ("discard", "pop", "stop", "trigger_stop", "service_remove", "delete", "notify_del", "cancel", "_stop_decorator")
                or (not m.args and isinstance(m.func, ast.Name) and "unsub" in m.func.id)))]
            if not releases:
                continue
            loops += 1
            early = [m for m in ast.walk(loop) if isinstance(m, (ast.Return, ast.Break))]
            ctx.check(not early, "R09.2", u.uid, f"release loop over `{short(loop.iter, 40)}` has no early exit",
                      msg=f"{u.uid}: the loop releasing per element leaves with `{short(early[0]) if early else ''}` when one element is already gone; the remaining elements stay registered",
                      key=f"early exit in release loop over {short(loop.iter, 40)}", node=early[0] if early else loop, rel=u.rel)

    ctx.rule("R09.3", "listener handles are stored; unload calls every stored handle", floor=5)
    for u in program.functions():
        if u.rel.startswith("stubs/"):
            continue
        for n in body_walk(u.node):
            if isinstance(n, ast.Call) and (call_name(n) or "").split(".")[-1] in HANDLE_CALLS:
                tgt = _stored_target(n)
                p = getattr(n, "_parent", None)
                stored = tgt is not None or (isinstance(p, ast.Call) and isinstance(p.func, ast.Attribute) and p.func.attr in ("append", "add"))
                ctx.check(stored, "R09.3", u.uid, f"handle of `{short(n, 50)}` stored",
                          msg=f"{u.uid}: the unsubscribe handle returned by `{short(n)}` is dropped: the listener can never be removed",
                          key=f"handle dropped {short(n, 50)}", node=n, rel=u.rel)
    f = program.func("__init__.py::async_unload_entry")
    ok = any(isinstance(l, ast.For) and "UNSUB_LISTENERS" in norm(l.iter) and any(isinstance(m, ast.Call) and isinstance(m.func, ast.Name)
             and m.func.id == (l.target.id if isinstance(l.target, ast.Name) else None) for m in ast.walk(l)) for l in body_walk(f))
    ctx.check(ok, "R09.3", "__init__.py::async_unload_entry", "unload calls every stored unsubscribe handle",
              msg="async_unload_entry no longer iterates over UNSUB_LISTENERS calling each handle", key="unload calls handles", node=f, rel="__init__.py")
    names = [call_name(n) for n in body_walk(f) if isinstance(n, ast.Call)]
    ctx.check("unload_scripts" in names and "Function.reaper_stop" in names and "Function.waiter_stop" in names, "R09.3", "__init__.py::async_unload_entry",
              "unload stops scripts, waiter and reaper", msg=f"async_unload_entry calls {names}", key="unload sequence", node=f, rel="__init__.py")

    ctx.rule("R09.4", "finalisers reach the stop routines; managers/decorators never hold the function variable strongly", floor=4)
    f = program.func("eval.py::EvalFuncVar.__del__")
    ctx.check(any((call_name(n) or "").endswith("trigger_stop") for n in body_walk(f) if isinstance(n, ast.Call)), "R09.4", "eval.py::EvalFuncVar.__del__",
              "__del__ stops the legacy triggers", msg="EvalFuncVar.__del__ no longer calls trigger_stop()", key="__del__ reaches trigger_stop", node=f, rel="eval.py")
    init = program.func("decorator.py::FunctionDecoratorManager.__init__")
    fin = [n for n in body_walk(init) if isinstance(n, ast.Call) and call_name(n) == "weakref.finalize"]
    ok = False
    why = "weakref.finalize(eval_func_var, ...) not found"
    if fin:
        cb = fin[0].args[1] if len(fin[0].args) > 1 else None
        tracked = norm(fin[0].args[0]) if fin[0].args else ""
        cbu = program.resolve_callable(program.unit("decorator.py::FunctionDecoratorManager.__init__"), cb) if cb is not None else None
        cbdef = cbu.node if cbu is not None and isinstance(cbu.node, ast.FunctionDef) else None  # a nested function or a method of the manager
        if cbdef is not None and tracked == "eval_func_var":
            free = {m.id for m in ast.walk(cbdef) if isinstance(m, ast.Name)}
            stops = any((call_name(m) or "").endswith(".stop") for m in ast.walk(cbdef) if isinstance(m, ast.Call))
            ok = "eval_func_var" not in free and stops
            why = "the finalizer callback captures eval_func_var (it could never be collected)" if "eval_func_var" in free else "the finalizer callback does not stop the manager"
    ctx.check(ok, "R09.4", "decorator.py::FunctionDecoratorManager.__init__", "finalizer on the function variable stops the manager without capturing it",
              msg=f"FunctionDecoratorManager.__init__: {why}", key="finalizer callback", node=init, rel="decorator.py")
    for cuid in ("decorator.py::FunctionDecoratorManager", "decorator_abc.py::DecoratorManager", "decorator_abc.py::Decorator", "trigger.py::TrigInfo"):
        cls = program.cls(cuid)
        bad = None
        for m in ast.walk(cls):
            if isinstance(m, ast.Assign) and any(isinstance(t, ast.Attribute) and isinstance(t.value, ast.Name) and t.value.id == "self" for t in m.targets):
                if isinstance(m.value, ast.Name) and m.value.id in ("eval_func_var", "func_var"):
                    bad = m
        ctx.check(bad is None, "R09.4", cuid, "no strong reference to the function variable",
                  msg=f"{cuid}: `{short(bad) if bad is not None else ''}` keeps the EvalFuncVar alive, so deleting/redefining the function never stops its triggers",
                  key="strong reference to EvalFuncVar", node=bad or cls, rel=cuid.split("::")[0])

    ctx.rule("R09.5", "a global context is stopped before it is dropped/replaced and when its load fails; stop() stops every trigger and manager and clears the sets", floor=6)
    context_stop_table(ctx, program, "R09.5")   # stop() stops every registered trigger/manager, clears all four sets, switches auto-start off
    # delete(): stop precedes removal
    f = program.func("global_ctx.py::GlobalContextMgr.delete")
    from ..absint import ClassV, Const, DictV, ObjV
    gc = ObjV("gc", "GlobalContext")
    seen = []

    def stop(i, n, a, k, c, o):
        tab = c.heap.get("GlobalContextMgr.contexts")
        seen.append(isinstance(tab, DictV) and tab.get(Const("file.a")) == gc)
        return [(c, Const(None))]

    pol = FlowPolicy(program, may_raise_all=False, cancel=False, summaries={"<gc>.stop": stop})
    out = run_flow(program, "global_ctx.py::GlobalContextMgr.delete", pol, args={"cls": ClassV("GlobalContextMgr"), "name": Const("file.a")},
                   heap={"GlobalContextMgr.contexts": DictV([(Const("file.a"), gc), (Const("file.b"), ObjV("other", "GlobalContext"))])})
    ex = exits(out)
    left = [sorted(kk.v for kk, _ in c.heap["GlobalContextMgr.contexts"].items) if isinstance(c.heap.get("GlobalContextMgr.contexts"), DictV) else None for k, c, d in ex]
    seq = (["stop" if x else "stop after del" for x in seen] + ["del" if l == ["file.b"] else f"table {l}" for l in left]) if all(k == "return" for k, c, d in ex) else [d for k, c, d in ex]
    ctx.check(seq == ["stop", "del"], "R09.5", "global_ctx.py::GlobalContextMgr.delete", "delete stops the context before forgetting it",
              msg=f"GlobalContextMgr.delete performs {seq}: the context must be stopped before it is removed from the table", key="delete order", node=f, rel="global_ctx.py")
    load_file_rule(ctx, program, "R09.5")
    # module_import: failing module load stops the module context
    uid = "global_ctx.py::GlobalContext.module_import"
    f = program.func(uid)
    ok = any(isinstance(t, ast.Try) and any(any((call_name(m) or "") == "global_ctx.stop" for m in ast.walk(h) if isinstance(m, ast.Call)) and
             any(isinstance(m, ast.Raise) for m in ast.walk(h)) for h in t.handlers) for t in body_walk(f))
    ctx.check(ok, "R09.5", uid, "failed module import stops the module context and re-raises", msg="module_import no longer stops the module context when its load fails",
              key="module_import failure", node=f, rel="global_ctx.py")
    # unload_scripts stops then deletes
    f = program.func("__init__.py::unload_scripts")
    names = [call_name(n) for n in body_walk(f) if isinstance(n, ast.Call)]
    ctx.check("global_ctx.stop" in names and "GlobalContextMgr.delete" in names and "Function.waiter_sync" in names, "R09.5", "__init__.py::unload_scripts",
              "unload stops, deletes and waits for shutdown triggers", msg=f"unload_scripts calls {names}", key="unload_scripts sequence", node=f, rel="__init__.py")
    return (
        "Static, source-only: acquire kinds (subscriptions, listener handles, webhook/service registrations, background tasks) found in each owner's start "
        "path are matched against the release kinds of its stop path (table of 11 owners); release loops are checked for early exits; handle def-use; "
        "finalizer closure free variables; ordered events in load_file (flow analysis with exceptional exits).  Not decided: when references die (GC), "
        "container-held closures."
    )


def load_file_rule(ctx, program, rid):
    """load_file: old context removed before the new source runs; failed load stops the context; registered only after success."""
    # load_file: old context stopped+deleted before parse; new context stopped on failure
    uid = "global_ctx.py::GlobalContextMgr.load_file"
    f = program.func(uid)
    pol = FlowPolicy(program, events=["ctx_curr.stop", "cls.delete", "ast_ctx.parse", "ast_ctx.eval", "global_ctx.stop", "cls.set"],
                     locals_={"ctx_curr", "global_ctx", "ast_ctx", "cls", "source"}, no_raise={"cls.get", "global_ctx.get_name", "cls.delete", "ctx_curr.stop", "global_ctx.stop", "cls.set"})
    pol.acquire_labels = {"cls.set"}
    out = run_flow(program, uid, pol)
    bad_order = bad_fail = bad_reg = None
    n = 0
    for kind, c, desc in exits(out):
        evs = [e[1] for e in c.trace if e[0] == "call"]
        n += 1
        if "ast_ctx.parse" in evs:
            no_old = any("cls.get" in repr(a) and not v for a, v in c.assume)  # the lookup of the old context came back empty
            i = evs.index("ast_ctx.parse")
            if kind == "raise" and ("parse" in desc or "eval" in desc) and "global_ctx.stop" not in evs[i:]:
                bad_fail = desc
        if "cls.set" in evs and kind == "raise":
            bad_reg = desc
        if kind == "return" and "ast_ctx.eval" in evs and "cls.set" not in evs:
            bad_reg = "successful load not registered"
    # the order "old context stopped and forgotten, then the new source parsed" is decided on a two-scenario model of the context table
    from ..absint import ClassV, Const, DictV, ObjV
    for has_old in (True, False):
        old, new, ev = ObjV("old", "GlobalContext"), ObjV("new", "GlobalContext"), ObjV("ev", "AstEval")
        seen = {"stops": 0, "parse": []}

        def stop(i, n, a, k, c, o, seen=seen):
            seen["stops"] += 1
            return [(c, Const(None))]

        def parse(i, n, a, k, c, o, seen=seen, old=old):
            tab = c.heap.get("GlobalContextMgr.contexts")
            seen["parse"].append((seen["stops"], isinstance(tab, DictV) and old in [v for _, v in tab.items]))
            return [(c, Const(None))]

        pol2 = FlowPolicy(program, may_raise_all=False, cancel=False,
                          summaries={"AstEval": lambda i, n, a, k, c, o, ev=ev: [(c, ev)], "Function.install_ast_funcs": lambda i, n, a, k, c, o: [(c, Const(None))],
                                     "<old>.stop": stop, "<ev>.parse": parse, "<ev>.eval": lambda i, n, a, k, c, o: [(c, Const(None))]})
        heap2 = {"GlobalContextMgr.contexts": DictV(([(Const("file.a"), old)] if has_old else []) + [(Const("file.b"), ObjV("other", "GlobalContext"))]), "new.name": Const("file.a"),
                 "old.name": Const("file.a")}
        ex2 = exits(run_flow(program, uid, pol2, args={"cls": ClassV("GlobalContextMgr"), "global_ctx": new, "file_path": Const("/cfg/pyscript/a.py"), "source": Const("x = 1"),
                                                      "reload": Const(False)}, heap=heap2))
        if not ex2 or any(k != "return" for k, c, d in ex2) or not seen["parse"]:
            bad_order = f"old context {'registered' if has_old else 'absent'}: exits {[d for k, c, d in ex2]}, parse reached {len(seen['parse'])} time(s)"
        elif has_old and any(stops == 0 or still for stops, still in seen["parse"]):
            bad_order = "the old context is " + ("still registered" if any(still for _, still in seen["parse"]) else "not stopped") + " when the new source is parsed"
    ctx.check(bad_order is None, rid, uid, "previous context of the same name stopped/deleted before the new source runs",
              msg=f"load_file: on [{bad_order}] the new source is parsed/evaluated while the old context of the same name is still registered and running",
              key="old context removed before parse", node=f, rel="global_ctx.py", sample={"exits": n})
    ctx.check(bad_fail is None, rid, uid, "a context whose load fails is stopped",
              msg=f"load_file: on [{bad_fail}] the partially loaded context is not stopped: whatever it registered while evaluating stays active",
              key="failed load stops context", node=f, rel="global_ctx.py")
    ctx.check(bad_reg is None, rid, uid, "a context is registered exactly when its source evaluated without exception",
              msg=f"load_file: {bad_reg}", key="register only after success", node=f, rel="global_ctx.py")


def context_stop_table(ctx, program, rid):
    from ..absint import Const, ListV, ObjV
    uid = "global_ctx.py::GlobalContext.stop"
    for n_trig in (0, 2):
        for n_dm in (0, 1):
            for delayed in (False, True):
                trigs = tuple(ObjV(f"t{i}", "EvalFunc") for i in range(n_trig))
                dms = tuple(ObjV(f"m{i}", "FunctionDecoratorManager") for i in range(n_dm))
                stopped = []

                def tstop(i, n, a, k, c, o, stopped=stopped):
                    stopped.append(c.env.get("func").oid)
                    return [(c, Const(None))]

                def dstop(i, n, a, k, c, o, stopped=stopped):
                    stopped.append(c.env.get("dm").oid)
                    return [(c, Const(None))]

                pol = FlowPolicy(program, may_raise_all=False, cancel=False, inline={"GlobalContext.set_auto_start", "self.set_auto_start"},
                                 summaries={"func.trigger_stop": tstop, "dm.stop": dstop, "Function.hass.async_create_task": lambda i, n, a, k, c, o: [(c, Const(None))]})
                pol.loop_unroll = 4
                heap = {"self.triggers": ListV(trigs, "set"), "self.triggers_delay_start": ListV(trigs if delayed else (), "set"), "self.dms": ListV(dms, "set"),
                        "self.dms_delay_start": ListV(dms if delayed else (), "set"), "self.auto_start": Const(True)}
                out = run_flow(program, uid, pol, args={"self": ObjV("self", "GlobalContext")}, heap=heap)
                bad = None
                ex = exits(out)
                for k, c, d in ex:
                    h = c.heap
                    left = {x: h.get(f"self.{x}") for x in ("triggers", "triggers_delay_start", "dms", "dms_delay_start")}
                    if k != "return":
                        bad = f"leaves with {d}"
                    elif any(not isinstance(v, ListV) or v.items for v in left.values()):
                        bad = f"still registered/queued afterwards: { {x: repr(v) for x, v in left.items() if not isinstance(v, ListV) or v.items} }"
                    elif h.get("self.auto_start") != Const(False):
                        bad = ("auto-start stays on: a trigger function defined later by a still running task of the removed file is started at once and nothing ever stops it")
                    elif sorted(stopped) != sorted([t.oid for t in trigs] + [m.oid for m in dms]):
                        bad = f"stopped {sorted(stopped)}, registered {[t.oid for t in trigs] + [m.oid for m in dms]}"
                label = f"{n_trig} legacy trigger function(s), {n_dm} decorator manager(s), {'queued for a delayed start' if delayed else 'running'}"
                ctx.check(bool(ex) and bad is None, rid, uid, label, msg=f"GlobalContext.stop with {label}: {bad or 'no exit'}", key=f"context stop {label}", node=program.func(uid), rel="global_ctx.py")


def func_var_death_rule(ctx, program, rid):
    """New subsystem: when the function variable of a decorated function dies (deleted, redefined), its manager is stopped if it runs and can never be started if it does not run yet."""
    from ..absint import Const, ListV, ObjV, Sym
    uid = "decorator.py::FunctionDecoratorManager.__init__.on_func_var_deleted"
    suid = "global_ctx.py::GlobalContext.start"
    for st in ("VALIDATED", "RUNNING", "STOPPED", "INVALID"):
        dm = ObjV("dm", "FunctionDecoratorManager")
        pol = FlowPolicy(program, may_raise_all=False, cancel=False, events=["self.stop", "dm.start"], globals_={"self": dm},
                         inline={"DecoratorManager.update_status", "self.update_status", "FunctionDecoratorManager.update_status"})
        heap = {"dm.status": Sym(("clsattr", "DecoratorManagerStatus", st)), "dm.eval_func": ObjV("ef", "EvalFunc"), "ef.global_ctx": ObjV("gctx", "GlobalContext"),
                "gctx.dms": ListV((dm,), "set"), "gctx.dms_delay_start": ListV((dm,) if st == "VALIDATED" else (), "set"), "gctx.triggers_delay_start": ListV((), "set"),
                "dm._decorators": ListV((ObjV("d0", "Decorator"),), "list"), "dm.name": Const("f")}
        out = run_flow(program, uid, pol, args={"self": dm}, heap=heap)  # (`self` is the closure variable of a nested finaliser, the receiver of a method)
        bad = None
        ex = exits(out)
        for k, c, d in ex:
            stops = [e for e in c.trace if e[0] == "call" and e[1] == "self.stop"]
            if k != "return":
                bad = f"the finaliser leaves with {d}"
            elif st == "RUNNING" and len(stops) != 1:
                bad = "a running manager is not stopped"
            elif st != "RUNNING" and stops:
                bad = "stop() is called on a manager that is not running"
            else:
                # would the context still start it?
                o2 = run_flow(program, suid, pol, args={"self": ObjV("gctx", "GlobalContext")}, heap=dict(c.heap))
                for k2, c2, d2 in exits(o2):
                    if any(e[0] == "call" and e[1] == "dm.start" for e in c2.trace):
                        bad = ("the manager of the dead function is still queued for a delayed start: GlobalContext.start() starts it, so a function that was redefined while its file "
                               "was loading runs in its old and its new definition")
        ctx.check(bool(ex) and bad is None, rid, uid, f"function variable dies while its manager is {st}", msg=f"FunctionDecoratorManager, status {st}: {bad or 'no exit'}",
                  key=f"func var death {st}", node=program.func(uid), rel="decorator.py")


def _scheduler_kind(program, call):
    """eager: the coroutine runs up to its first suspension inside the scheduling call; deferred: nothing of it runs before the next loop iteration."""
    name = call_name(call) or ""
    kw = {k.arg: k.value for k in call.keywords}
    if "eager_start" in kw and isinstance(kw["eager_start"], ast.Constant):
        return "eager" if kw["eager_start"].value else "deferred"
    if name.endswith("hass.async_create_task") or name.endswith("hass.async_create_background_task"):
        # Home Assistant's own helper: the default of eager_start is read from the installed library (host oracle, nothing is run)
        import inspect
        from homeassistant.core import HomeAssistant
        meth = getattr(HomeAssistant, name.rsplit(".", 1)[1])
        p = inspect.signature(meth).parameters.get("eager_start")
        return "eager" if p is not None and p.default is True else "deferred"
    if name in ("asyncio.create_task", "asyncio.ensure_future") or name.endswith("loop.create_task") or name.endswith("Function.create_task") or name == "create_task":
        return "deferred"
    return "unknown:" + name


def eager_stop_rule(ctx, program, rid):
    """The finaliser of a running manager hands stop() to a scheduler that starts it at once: until stop() has run, the dead function's listeners, queues and
    services are still registered, and an occurrence delivered in the same loop iteration as the `del`/redefinition would still run it."""
    uid = "decorator.py::FunctionDecoratorManager.__init__.on_func_var_deleted"
    fn = program.func(uid)
    sites = [n for n in body_walk(fn) if isinstance(n, ast.Call) and any(isinstance(a, ast.Call) and call_name(a) == "self.stop" for a in n.args)]
    if not sites:
        raise AnalysisError("on_func_var_deleted: no call that schedules self.stop() found")
    for site in sites:
        kind = _scheduler_kind(program, site)
        ctx.check(kind == "eager", rid, uid, f"stop() of a dead function's manager is started eagerly ({call_name(site)})",
                  msg=f"`{short(site)}`: stop() is handed to a {kind} scheduler: it first runs in a later loop iteration, so an occurrence arriving right after the function was deleted "
                  f"or redefined still runs the old function (its listener/queue/service are still registered)", key="eager stop on variable death", node=site, rel="decorator.py")


def single_owner_rule(ctx, program, rid):
    """Legacy ownership: the finaliser (__del__) of an EvalFuncVar stops the triggers and services of the EvalFunc it holds.  So every object of a class
    that inherits this finaliser must be the only such holder of its EvalFunc: at each construction site the function handed over is fresh (EvalFunc(...)),
    transferred (remove_func(): the previous holder forgets it), or the result of a call - never one that another holder keeps (`.get_func()`, `.func`)."""
    tree = program.module("eval.py")
    classes = {c.name: c for c in tree.body if isinstance(c, ast.ClassDef)}

    def mro(name):
        out = []
        while name in classes:
            out.append(classes[name])
            bases = [b.id for b in classes[name].bases if isinstance(b, ast.Name)]
            name = bases[0] if bases else None
        return out

    def stopping_finaliser(name):
        for c in mro(name):
            for f in c.body:
                if isinstance(f, ast.FunctionDef) and f.name == "__del__":
                    return any(isinstance(n, ast.Call) and (call_name(n) or "").endswith("trigger_stop") for n in ast.walk(f)), f"{c.name}.__del__"
        return False, None

    holders = {n for n in classes if any(c.name == "EvalFuncVar" for c in mro(n))}
    stopping = {n: stopping_finaliser(n) for n in holders}
    if "EvalFuncVar" not in holders or not stopping["EvalFuncVar"][0]:
        raise AnalysisError("EvalFuncVar.__del__ no longer stops the function's triggers: the ownership rule has lost its anchor")
    n_sites = 0
    for u in program.functions():
        if not u.uid.startswith("eval.py::"):
            continue
        fn = u.node
        for site in [n for n in body_walk(fn) if isinstance(n, ast.Call) and isinstance(n.func, ast.Name) and n.func.id in holders and n.args]:
            n_sites += 1
            stops, where = stopping[site.func.id]
            arg = site.args[0]
            srcs = [arg]
            if isinstance(arg, ast.Name):
                srcs = [a.value for a in body_walk(fn) if isinstance(a, ast.Assign) and any(isinstance(t, ast.Name) and t.id == arg.id for t in a.targets)] or [arg]
            shared = []
            for v in srcs:
                if isinstance(v, ast.Await):
                    v = v.value
                if isinstance(v, ast.Call) and isinstance(v.func, ast.Attribute) and v.func.attr == "get_func":
                    shared.append(short(v))
                elif isinstance(v, ast.Attribute) and v.attr == "func":
                    shared.append(short(v))
            ok = not (stops and shared)
            ctx.check(ok, rid, u.uid, f"{short(site)}: the function handed to the new holder is not kept by another holder",
                      msg=f"`{short(site)}` in {u.uid}: the new {site.func.id} receives `{', '.join(shared)}`, which its previous holder keeps as well; {where} of whichever "
                      f"holder dies first calls trigger_stop() on the shared function: its triggers are cancelled and its services removed while it is still bound",
                      key=f"shared EvalFunc {site.func.id} <- {', '.join(shared)}", node=site, rel="eval.py")
    if n_sites < 1:  # (how many sites there are is not part of the rule: duplicated branches may be merged)
        raise AnalysisError("no EvalFuncVar construction site found")


def own_ident_rule(ctx, program, rid):
    """Ownership of the subscription key sets: every value stored in <trigger>.state_trig_ident is freshly built."""
    n = 0
    for uid in ("trigger.py::TrigInfo.trigger_watch", "trigger.py::TrigInfo.__init__", "decorators/state.py::StateTriggerDecorator.validate"):
        fn = program.func(uid)
        for a in [x for x in body_walk(fn) if isinstance(x, ast.Assign) and any(norm(t) == "self.state_trig_ident" for t in x.targets)]:
            n += 1
            v = a.value
            if isinstance(v, ast.Await):
                v = v.value
            fresh = isinstance(v, (ast.Call, ast.Set, ast.SetComp, ast.Constant, ast.BinOp))
            ctx.check(fresh, rid, uid, f"`{short(a)}` stores a container of its own",
                      msg=f"{uid}: `{short(a)}` makes the trigger's subscription set the same object as `{short(v)}` (supplied by the script): if the script changes it after the trigger "
                      f"started, stop() unsubscribes the changed set and the entities removed from it stay subscribed (the dead trigger's queue keeps receiving their changes)",
                      key=f"ident alias {short(v)}", node=a, rel=uid.split("::")[0])
    if n < 3:
        raise AnalysisError(f"only {n} assignments of state_trig_ident found")


def tracked_before_start_rule(ctx, program, rid):
    """GlobalContext.stop() reaches the managers in self.dms.  A manager acquires registrations inside dm.start(), which suspends; so it must be in self.dms
    before dm.start() is entered (a stop arriving while the start is suspended would otherwise miss it, and nothing removes its registrations later)."""
    from ..absint import Const, ListV, ObjV, Sym
    uid = "global_ctx.py::GlobalContext.create_decorator_manager"
    dm = ObjV("dm", "FunctionDecoratorManager")
    for auto in (True, False):
        pol = FlowPolicy(program, may_raise_all=False, cancel=False, events=["dm.start"],
                         summaries={"FunctionDecoratorManager": lambda i, n, a, k, c, o: [(c, dm)], "dm.validate": lambda i, n, a, k, c, o: [(c, Const(None))],
                                    "dm.add": lambda i, n, a, k, c, o: [(c, Const(None))]})
        seen = []

        def on_start(i, n, a, k, c, o, seen=seen):
            seen.append((c.heap.get("self.dms"), c.heap.get("self.dms_delay_start")))
            return [(c.emit(("call", "dm.start")), Const(None))]

        pol.summaries["dm.start"] = on_start
        heap = {"self.dms": ListV((), "set"), "self.dms_delay_start": ListV((), "set"), "self.auto_start": Const(auto),
                "dm.status": Sym(("clsattr", "DecoratorManagerStatus", "VALIDATED"))}
        out = run_flow(program, uid, pol, args={"self": ObjV("self", "GlobalContext"), "decs": ListV((ObjV("d0", "Decorator"),), "list"), "ast_ctx": ObjV("actx", "AstEval"),
                                                  "func_var": ObjV("fv", "EvalFuncVar")}, heap=heap)
        bad = None
        ex = exits(out)
        for k, c, d in ex:
            dms = c.heap.get("self.dms")
            if k != "return":
                bad = f"ends with {d}"
            elif not (isinstance(dms, ListV) and dm in dms.items):
                bad = "the validated manager is not recorded in the context's manager set"
            elif not auto and dm not in getattr(c.heap.get("self.dms_delay_start"), "items", ()):
                bad = "the manager of a context that is still loading is not queued for the delayed start"
        if auto:
            if len(seen) != 1:
                bad = bad or f"dm.start() entered {len(seen)} times for a running context"
            elif not (isinstance(seen[0][0], ListV) and dm in seen[0][0].items):
                bad = ("dm.start() is entered before the manager is recorded in the context's manager set: a reload/unload arriving while that start is suspended does not stop it, "
                       "its service/listeners stay registered for ever")
        elif seen:
            bad = "the manager is started although its context is still loading"
        ctx.check(bool(ex) and bad is None, rid, uid, f"manager tracked before its start (context {'running' if auto else 'loading'})",
                  msg=f"create_decorator_manager, context {'running' if auto else 'still loading'}: {bad or 'no exit'}", key=f"tracked before start auto={auto}",
                  node=program.func(uid), rel="global_ctx.py")


def load_file_identity_rule(ctx, program, rid):
    """While a file's code is being evaluated its context already knows which file it is (relative imports inside it are named from that)."""
    from ..absint import Const, ObjV, Sym
    uid = "global_ctx.py::GlobalContextMgr.load_file"
    seen = []

    def on_eval(i, n, a, k, c, o):
        seen.append((c.heap.get("gctx.file_path"), c.heap.get("gctx.source")))
        return [(c, Const(None))]

    pol = FlowPolicy(program, may_raise_all=False, cancel=False, summaries={"ast_ctx.eval": on_eval, "cls.get": lambda i, n, a, k, c, o: [(c, Const(None))],
                                                                            "global_ctx.get_name": lambda i, n, a, k, c, o: [(c, Const("modules.pkg.helper"))]})
    run_flow(program, uid, pol, args={"cls": Sym(("cls",)), "global_ctx": ObjV("gctx", "GlobalContext"),
                                      "file_path": Const("/cfg/pyscript/modules/pkg/helper.py"), "source": Const("from .counter import bump"), "reload": Const(False)},
             heap={"gctx.file_path": Const(None), "gctx.source": Const(None), "gctx.mtime": Const(None)})
    ok = bool(seen) and all(fp == Const("/cfg/pyscript/modules/pkg/helper.py") and src == Const("from .counter import bump") for fp, src in seen)
    ctx.check(ok, rid, uid, "file path and source are recorded in the context before its code runs",
              msg=f"load_file: when the file's code is evaluated the context holds file_path/source {[(repr(a), repr(b)) for a, b in seen]}: a relative import executed at top level of a plain "
              f"package module is then named after the wrong package (module_import reads the importer's file_path), the sibling is loaded under a name the file scan does not know and is "
              f"dropped at the next reload", key="identity before eval", node=program.func(uid), rel="global_ctx.py")


def _same_slot(a, b):
    """handle stored in cls.notify_remove[event_type] ~ handle stored in cls.notify_remove[event_type] (call) / same container."""
    if a.startswith("handle stored in ") and b.startswith("handle stored in "):
        x, y = a[17:], b[17:]
        return x.split("[")[0] == y.split("[")[0]
    return False
