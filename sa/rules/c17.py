"""C17 - import and builtin restrictions hold for every import form (structural clauses)."""

from __future__ import annotations

import ast

from ..absint import App, Const, DictV, ListV, NodeV, ObjV, Sym, ClassV
from ..repo import AnalysisError, body_walk, call_name, const_set, norm, short
from ..schematic import MODULE_SCOPE, HandlerPolicy, run_handler, shape_stmt

LEVEL_TEXT = (
    "decides structural clauses of C17, not the set of installed modules: for every import statement form and every "
    "combination of {pyscript module found, allow_all_imports, name on the allow-list, already in sys.modules} the "
    "handler raises ModuleNotFoundError before binding or importing anything exactly when the module is neither a "
    "pyscript module nor allowed, decided per imported name (no state carried between names); stubs imports bind "
    "nothing; importlib/sys.modules are touched only by the two import handlers; the excluded builtins and underscore "
    "names are never returned by name lookup in any evaluation context; eval()/exec() run through the same interpreter"
    "; a from-import always looks the module up (stubs look-alikes are not skipped); pyscript modules are searched at <root>/<dotted name as path>/__init__.py and .py; excluded builtins stay unreachable through a `global` declaration; setting the integration up again rebinds the configuration entry the evaluators read"
    '; module lookups made inside functions use the defining context; print/log.* stay defined in trigger expressions; __builtins__ is not readable as a name'
    '; eval()/exec() with explicit namespaces keep print/log.*; relative imports never fall back to installed modules'
)
LEVEL_NOTE = "the allow-list membership test is evaluated concretely on representative names (listed: math, json; not listed: os, subprocess); native code compiled by @pyscript_compile/lambda is a recorded known finding"
TECHNIQUE = "schematic abstract interpretation of ast_import/ast_importfrom/ast_name producing a decision table over guard atoms; who-may-call for importlib/sys.modules/exec"

REQUIRED_EXCLUDED = {"open", "compile", "input", "breakpoint", "memoryview", "print"}
FORMS = [
    "import math", "import os", "import os.path", "import os as x", "import math, os", "import os, math", "import json, subprocess as sp",
    "import json.decoder", "import homeassistant.const", "import homeassistant.core", "from json.decoder import JSONDecoder", "from homeassistant.const import x",
    "from stubs_util import helper", "from stubsx.sub import y", "import stubs_util",
    "from os import path", "from os.path import *", "from os import path as p", "from math import floor", "from subprocess import run, PIPE",
]


def _atoms(c):
    found = allow = None
    per = {}
    for atom, val in c.assume:
        s = repr(atom)
        if "module_import" in s and "__dict__" not in s and "__all__" not in s:
            # one decision per imported module name (decisions about the *contents* of the module found - its __all__ - are not lookups)
            for nm in ("math", "os.path", "os", "json.decoder", "json", "subprocess", "homeassistant.const", "homeassistant.core", "stubs_util", "stubsx.sub"):
                if f"'{nm}'" in s:
                    per[nm] = val
        if "config_entry" in s and "get" in s:
            allow = val
    return per, allow


def expression_scope_rule(ctx, program, rid):
    from ..flow import FlowPolicy, exits, run_flow
    ev = ObjV("self", "AstEval")
    seen = []

    def aeval(i, n, a, k, c, o, seen=seen):
        seen.append(c.heap.get("self.local_sym_table"))
        return [(c, Const(True))]

    pol = FlowPolicy(program, may_raise_all=False, cancel=False, summaries={"self.aeval": aeval}, globals_={"EvalStopFlow": ClassV("EvalStopFlow")})
    funcs = DictV([(Const("print"), Sym(("script", "print"))), (Const("log.info"), Sym(("script", "log.info")))])
    heap = {"self.local_sym_table": DictV([]), "self.ast": ObjV("tree", "Expression")}
    out = run_flow(program, "eval.py::AstEval.set_local_sym_table", pol, args={"self": ev, "sym_table": funcs}, heap=heap)
    rets = [c for k, c, d in exits(out) if k == "return"]
    if len(rets) != 1:
        raise AnalysisError("AstEval.set_local_sym_table: not a single normal exit")
    heap = dict(rets[0].heap)
    msgs = [DictV([(Const("trigger_type"), Const("event")), (Const("arg1"), Const(20))]), DictV([(Const("trigger_type"), Const("event")), (Const("arg2"), Const(5))])]
    bad = None
    for m in msgs:
        out = run_flow(program, "eval.py::AstEval.eval", pol, args={"self": ev, "new_state_vars": m, "merge_local": Const(False)}, heap=heap)
        rets = [c for k, c, d in exits(out) if k == "return"]
        if len(rets) != 1:
            bad = f"eval(): {len(rets)} normal exits"
            break
        heap = dict(rets[0].heap)
    if bad is None and (len(seen) != 2 or not all(isinstance(x, DictV) for x in seen)):
        bad = f"{len(seen)} evaluations seen"
    if bad is None:
        for idx, (scope, m) in enumerate(zip(seen, msgs)):
            d = {k.v: v for k, v in scope.items if isinstance(k, Const)}
            lost = [k for k in ("print", "log.info") if d.get(k) != funcs.get(Const(k))]
            wrong = [k.v for k, v in m.items if d.get(k.v) != v]
            stale = [k for k in ("arg1",) if idx == 1 and k in d]
            if lost:
                bad = f"message {idx + 1}: {lost} are no longer defined in the expression's scope (NameError instead of a line on the script's logger)"
            elif wrong or stale:
                bad = f"message {idx + 1}: variables {wrong} missing / stale {stale} in the expression's scope"
    ctx.check(bad is None, rid, "eval.py::AstEval.eval", "installed functions and the message's variables in an expression's scope",
              msg=f"AstEval.eval(vars) after install_ast_funcs: {bad}", key="expression scope", node=program.func("eval.py::AstEval.eval"), rel="eval.py")
    # __builtins__ in the module globals (put there by exec of natively compiled code) is not readable as a name
    npol = HandlerPolicy(program, opaque_methods=("call_func",))
    npol.mod_consts["BUILTIN_EXCLUDE"] = Const(frozenset(const_set(program.module_const("eval.py", "BUILTIN_EXCLUDE")) or set()))
    npol.plain_ast_name = True
    for name, want_visible, at_module_level in (("__builtins__", False, False), ("__builtins__", False, True), ("__version__", True, False)):
        h = dict(MODULE_SCOPE)
        h["self.sym_table"] = DictV(((Const("$symtab"), Const("local")),) + (((Const(name), Sym(("globals", name))),) if at_module_level else ()))
        h["self.local_sym_table"] = DictV(())
        h["self.global_sym_table"] = DictV(((Const("$symtab"), Const("global")), (Const(name), Sym(("globals", name)))))
        node = NodeV("Name", {"id": Const(name), "ctx": NodeV("Load", {}, "ctx")}, f"name:{name}")
        out = run_handler(program, node, npol, method="ast_name", heap=h)
        vis = any(c.env.get("$ret") == Sym(("globals", name)) for c in out.get("return"))
        ctx.check(vis == want_visible, rid, "eval.py::AstEval.ast_name", f"`{name}` present in the module globals ({'read at module level' if at_module_level else 'read inside a function'})",
                  msg=(f"name lookup returns the module-global `{name}`: after any lambda or @pyscript_compile definition `__builtins__['open']` hands out every excluded builtin"
                       if vis else f"a script's own global `{name}` is no longer readable"), key=f"globals {name} {at_module_level}", node=program.func("eval.py::AstEval.ast_name"), rel="eval.py")


def run(ctx):
    program = ctx.program
    allowed = const_set(program.module_const("const.py", "ALLOWED_IMPORTS")) or set()
    if not {"math", "json"} <= allowed or {"os", "subprocess"} & allowed:
        raise AnalysisError("ALLOWED_IMPORTS no longer contains math/json or now contains os/subprocess: adjust the probe names")

    ctx.rule("R17.1", "import handlers: ModuleNotFoundError before any binding/import exactly when not found, not allow_all and not on the allow-list - per name", floor=15)
    pol = HandlerPolicy(program, opaque_methods=("call_func", "log_exception", "get_names", "ast_attribute_collapse", "loopvar_scope_save", "loopvar_scope_restore"))
    pol.mod_consts["ALLOWED_IMPORTS"] = Const(frozenset(allowed))
    heap = dict(MODULE_SCOPE)
    for src in FORMS:
        shape = shape_stmt(src)
        node = ast.parse(src).body[0]
        handler = f"ast_{type(node).__name__.lower()}"
        unit = f"eval.py::AstEval.{handler}"
        out = run_handler(program, shape, pol, heap=heap)
        mods = [a.name for a in node.names] if isinstance(node, ast.Import) else [node.module]
        problems = []
        npaths = 0
        for kind in ("return", "raise"):
            for c in out.get(kind):
                npaths += 1
                per, allow = _atoms(c)
                stores = [e for e in c.trace if e[0] == "setitem" and isinstance(e[1], DictV) and any(k == Const("$symtab") for k, _ in e[1].items)]
                imports = [e for e in c.trace if e[0] == "call" and "async_add_executor_job" in str(e[1])]
                sysmods = [a for a, v in c.assume if "sys.modules" in repr(a)]
                exc = c.env.get("$exc")
                # walk the names in order and decide what must have happened
                expect_raise_at = None
                for i, m in enumerate(mods):
                    found = per.get(m)
                    if found is None:
                        if i == 0 and kind == "return":
                            problems.append(f"the statement completes without ever looking up module {m}: nothing is imported, bound or refused")
                        break  # this name was never reached on this path
                    if not found and not allow and m not in allowed:
                        expect_raise_at = i
                        break
                if expect_raise_at is not None:
                    forbidden = mods[expect_raise_at]
                    if kind != "raise" or getattr(exc, "cls", "") != "ModuleNotFoundError":
                        problems.append(f"module {forbidden} (not found as pyscript module, allow_all_imports off, not on the allow-list) does not raise ModuleNotFoundError: path ends with {kind} {getattr(exc, 'cls', '')}")
                    bound_forbidden = [e for e in stores if forbidden.split('.')[0] in repr(e[2]) or forbidden in repr(e[3])]
                    if any(forbidden in repr(e) for e in imports):
                        problems.append(f"importlib.import_module({forbidden}) is reached although the module is not allowed")
                    if len(stores) > expect_raise_at and isinstance(node, ast.Import):
                        problems.append(f"a name is bound for the forbidden module {forbidden}")
                    if isinstance(node, ast.ImportFrom) and stores:
                        problems.append(f"names are bound from the forbidden module {forbidden}")
                elif kind == "raise" and getattr(exc, "cls", "") == "ModuleNotFoundError" and all(per.get(m) is not None for m in mods[:1]):
                    # raising although allowed
                    reached = [m for m in mods if per.get(m) is not None]
                    last = reached[-1] if reached else None
                    if last is not None and (per.get(last) or allow or last in allowed):
                        problems.append(f"ModuleNotFoundError for {last} although it is a pyscript module / allowed")
        shown = src
        ctx.check(not problems and npaths > 0, "R17.1", unit, f"`{shown}`: decision table over {npaths} paths",
                  msg=f"`{shown}`: {problems[:2]}", key=f"import form `{shown}`", node=program.func(unit), rel="eval.py", sample={"paths": npaths})
    # stubs imports are ignored
    for src in ("from stubs import x", "from stubs.pyscript_builtins import *"):
        out = run_handler(program, shape_stmt(src), pol, heap=heap)
        quiet = all(not [e for e in c.trace if e[0] == "setitem" or (e[0] == "call" and not str(e[1]).startswith("_LOGGER."))] for c in out.get("return")) \
            and out.get("return") and not out.get("raise")
        ctx.check(bool(quiet), "R17.1", "eval.py::AstEval.ast_importfrom", f"`{src}` binds nothing and imports nothing",
                  msg=f"`{src}`: stubs imports are no longer ignored", key=f"stubs form `{src}`", node=program.func("eval.py::AstEval.ast_importfrom"), rel="eval.py")

    ctx.rule("R17.5", "pyscript modules are searched where the documentation says: <root>/<dotted name as path>/__init__.py, then <root>/<dotted name as path>.py, apps/ before modules/ for apps", floor=8)
    from .c11 import import_candidate_cases
    mi = "global_ctx.py::GlobalContext.module_import"
    for case, got in import_candidate_cases(program):
        ctx.check(got == "ok", "R17.5", mi, f"candidates: {case}", msg=f"module_import: {case}: {got}: an existing pyscript module is not found (ModuleNotFoundError) or another file is imported in its place",
                  key=f"candidates {case}", node=program.func(mi), rel="global_ctx.py")

    ctx.rule("R17.7", "which script a module lookup is made for: an import executed inside a function is resolved by the context that defined the function "
             "(the evaluator is switched to the defining context object for the body)", floor=2)
    from .c11 import defining_context_rule
    defining_context_rule(ctx, program, "R17.7")
    ctx.rule("R17.8", "print and log.* stay defined (bound to the script's logger) in trigger, guard and filter expressions: installing the evaluator's own functions and then "
             "evaluating with the variables of a message leaves both visible - and nothing of an earlier message; `__builtins__`, which natively executed code leaves in the "
             "module globals, is not a name scripts can read", floor=3)
    expression_scope_rule(ctx, program, "R17.8")
    ctx.rule("R17.2", "importlib.import_module, sys.modules, exec and compile are used only at the reviewed sites", floor=3)
    allowed_sites = {
        "importlib.import_module": {"eval.py::AstEval.ast_import", "eval.py::AstEval.ast_importfrom"},
        "sys.modules": {"eval.py::AstEval.ast_import", "eval.py::AstEval.ast_importfrom"},
        "exec": {"eval.py::AstEval.ast_functiondef"},
        "compile": {"eval.py::AstEval.ast_functiondef"},
        "__import__": set(),
        "importlib.reload": set(),
    }
    for u in program.functions():
        if u.rel.startswith("stubs/"):
            continue
        for n in body_walk(u.node):
            name = None
            if isinstance(n, ast.Attribute) and norm(n) in ("importlib.import_module", "sys.modules", "importlib.reload"):
                name = norm(n)
            elif isinstance(n, ast.Call) and isinstance(n.func, ast.Name) and n.func.id in ("exec", "compile", "__import__", "eval"):
                name = n.func.id
            if name is None:
                continue
            if name == "eval":
                ok = False
                sites = set()
            else:
                sites = allowed_sites.get(name, set())
                # (a helper that only the reviewed sites call is part of them: R17.1 interprets the handlers with their helpers inlined)
                ok = u.uid in sites or (bool(sites) and program.only_reached_from(u.uid, sites))
            ctx.check(ok, "R17.2", u.uid, f"use of {name} at a reviewed site",
                      msg=f"{u.uid} uses {name} (`{short(n)}`): modules must enter a script only through the import handlers' allow-list check (reviewed sites: {sorted(sites)})",
                      key=f"use of {name}", node=n, rel=u.rel)

    ctx.rule("R17.3", "excluded builtins and underscore names are never returned by name lookup, in script and in expression contexts; print/log go to the script logger", floor=12)
    excl = const_set(program.module_const("eval.py", "BUILTIN_EXCLUDE")) or set()
    ctx.check(REQUIRED_EXCLUDED <= excl, "R17.3", "eval.py::BUILTIN_EXCLUDE", "exclusion set covers open, compile, input, breakpoint, memoryview, print",
              msg=f"BUILTIN_EXCLUDE lacks {sorted(REQUIRED_EXCLUDED - excl)}: in contexts without pyscript's own definition (trigger/active/filter expressions) the name resolves to the real builtin",
              key="BUILTIN_EXCLUDE contents", rel="eval.py", node=program.module_const("eval.py", "BUILTIN_EXCLUDE"))
    npol = HandlerPolicy(program, opaque_methods=("call_func",))
    npol.mod_consts["BUILTIN_EXCLUDE"] = Const(frozenset(excl))
    npol.plain_ast_name = True
    for name in sorted(REQUIRED_EXCLUDED | {"__import__", "_private", "len"}):
        for scen, local in (("script context", DictV(((Const("print"), Sym(("pyscript", "print"))),))), ("expression context", DictV(())),
                            ("function that declares the name global", DictV(((Const("print"), Sym(("pyscript", "print"))),)))):
            h = dict(MODULE_SCOPE)
            h["self.local_sym_table"] = local
            h["self.sym_table"] = DictV(((Const("$symtab"), Const("local")),))
            if scen.startswith("function"):
                h["self.curr_func"] = ObjV("curfunc", "EvalFunc")
                h["curfunc.global_names"] = ListV((Const(name),), "set")
                h["curfunc.nonlocal_names"] = ListV((), "set")
            node = NodeV("Name", {"id": Const(name), "ctx": NodeV("Load", {}, "ctx")}, f"name:{name}")
            out = run_handler(program, node, npol, method="ast_name", heap=h)
            real = False
            for c in out.get("return"):
                v = c.env.get("$ret")
                if isinstance(v, App) and v.op == "getattr" and "builtins" in repr(v.args[0]) and v.args[1] == Const(name):
                    real = True
            want = name == "len"
            if scen.startswith("function") and name == "len":
                continue  # whether a builtin declared global resolves at all is not part of this property
            ctx.check(real == want, "R17.3", "eval.py::AstEval.ast_name", f"lookup of `{name}` in {scen}",
                      msg=(f"name lookup can return the real builtin `{name}` in a {scen}" if real else f"builtin `{name}` is no longer reachable in a {scen}"),
                      key=f"builtin {name} in {scen}", node=program.func("eval.py::AstEval.ast_name"), rel="eval.py")
    init = program.func("function.py::Function.init")
    mapping = {}
    # the table Function.init installs is interpreted: each of print / log.* is called with an evaluator and must give that evaluator's logger's method
    from ..flow import FlowInterp, FlowPolicy as _FP
    from ..absint import Cfg, ClassV, Out
    for n in body_walk(init):
        if isinstance(n, ast.Dict) and any((isinstance(k, ast.Constant) and k.value == "print") for k in n.keys):
            for key in ("print", "log.debug", "log.info", "log.warning", "log.error"):
                polm = _FP(program, may_raise_all=False, cancel=False, summaries={"<ev>.get_logger": lambda i, nn, a, k, c, o: [(c, ObjV("script_logger", "Logger"))]})
                polm.inline_depth = 4
                polm.inline_nested = lambda fval: True  # the lambdas / closures of the table are what is being examined
                im = FlowInterp(polm, "function.py")
                im.unit = program.unit("function.py::Function.init")
                im.call_stack.append(init)
                call = ast.Call(func=ast.Subscript(value=n, slice=ast.Constant(key), ctx=ast.Load()), args=[ast.Name(id="$ev", ctx=ast.Load())], keywords=[])
                ast.fix_missing_locations(ast.copy_location(call, n))
                call._parent = getattr(n, "_parent", None)
                try:
                    res = im.ev(call, Cfg(env={"$ev": ObjV("ev", "AstEval"), "cls": ClassV("Function")}), Out())
                except AnalysisError:
                    res = []
                vals = {repr(v) for _, v in res}
                for level in ("debug", "info", "warning", "error"):
                    if vals == {repr(Sym(("attr", "script_logger", level)))}:
                        mapping[key] = level
    want_map = {"print": "debug", "log.debug": "debug", "log.info": "info", "log.warning": "warning", "log.error": "error"}
    ctx.check(all(mapping.get(k) == v for k, v in want_map.items()), "R17.3", "function.py::Function.init", "print and log.* are bound to the evaluator's own logger at the matching level",
              msg=f"Function.init maps {mapping}; documented: {want_map} on the logger of the evaluator that runs the code", key="print/log mapping", node=init, rel="function.py")

    ctx.rule("R17.6", "setting the integration up (again) makes the evaluators consult the entry being set up: the allow_all_imports switch read by import statements is the current one", floor=1)
    from ..flow import FlowPolicy, exits, module_constants, run_flow
    consts = module_constants(program, "const.py")
    D, CE = consts["DOMAIN"].v, consts["CONFIG_ENTRY"].v
    spol = FlowPolicy(program, may_raise_all=False, cancel=False, globals_=dict(consts), record_atoms=False)
    spol.track_aliases = True
    spol.loop_unroll = 1
    sheap = {"hass.data": DictV([(Const(D), DictV([(Const(CE), ObjV("removed_entry", "ConfigEntry"))]))])}
    sout = run_flow(program, "__init__.py::async_setup_entry", spol, args={"hass": ObjV("hass", "HomeAssistant"), "config_entry": ObjV("new_entry", "ConfigEntry")}, heap=sheap)
    got = set()
    for k, c, d in exits(sout):
        dd = c.heap.get("hass.data")
        inner = dd.get(Const(D)) if isinstance(dd, DictV) else None
        got.add(repr(inner.get(Const(CE))) if isinstance(inner, DictV) and k == "return" else f"{k} {d}")
    reads = [n for u in program.functions() for n in body_walk(u.node) if isinstance(n, ast.Subscript) and "CONFIG_ENTRY" in norm(n) and isinstance(n.ctx, ast.Load)] + \
            [n for u in program.functions() for n in body_walk(u.node) if isinstance(n, ast.Call) and "CONFIG_ENTRY" in norm(n) and (call_name(n) or "").endswith(".get")]
    ctx.check(got == {repr(ObjV("new_entry", "ConfigEntry"))} and bool(reads), "R17.6", "__init__.py::async_setup_entry", "hass.data[DOMAIN][CONFIG_ENTRY] is the entry being set up",
              msg=f"async_setup_entry with an entry of an earlier set-up still recorded (integration removed and added again in one Home Assistant run) leaves hass.data[DOMAIN][CONFIG_ENTRY] = {sorted(got)}: "
              f"AstEval reads allow_all_imports from the removed entry, imports the new configuration forbids are performed", key="config entry rebound on setup",
              node=program.func("__init__.py::async_setup_entry"), rel="__init__.py", sample={"readers": len(reads)})

    ctx.rule("R17.10", "a relative import that finds no pyscript module fails with ModuleNotFoundError: it never falls back to an installed module of that name "
             "(`from .math import floor` in a package without math.py must not bind the standard library's math)", floor=2)
    relative_import_rule(ctx, program, "R17.10")

    ctx.rule("R17.9", "text run through eval()/exec() keeps the script's print and log.* (the evaluator-level names of the calling evaluator) for every combination of "
             "explicit globals / locals: explicit namespaces replace the variables, not the logger functions", floor=3)
    eval_namespace_rule(ctx, program, "R17.9")

    ctx.rule("R17.4", "eval()/exec() of source text run through the interpreter; natively executed script code gets no unrestricted builtins", floor=2)
    f = program.func("eval.py::ast_eval_exec_factory.eval_func")
    ok = any(isinstance(n, ast.Call) and call_name(n) == "AstEval" for n in body_walk(f)) and any(isinstance(n, ast.Call) and (call_name(n) or "").endswith(".aeval") for n in body_walk(f))
    ctx.check(ok, "R17.4", "eval.py::ast_eval_exec_factory.eval_func", "eval/exec build an AstEval and interpret the parsed source",
              msg="pyscript's eval()/exec() no longer interpret the source with AstEval (import and builtin restrictions would not apply)", key="eval/exec interpreted", node=f, rel="eval.py")
    fd = program.func("eval.py::AstEval.ast_functiondef")
    for n in body_walk(fd):
        if isinstance(n, ast.Call) and isinstance(n.func, ast.Name) and n.func.id == "exec":
            g = norm(n.args[1]) if len(n.args) > 1 else "?"
            restricted = "__builtins__" in norm(fd)
            ctx.check(restricted, "R17.4", "eval.py::AstEval.ast_functiondef", "native exec receives restricted builtins",
                      msg=f"`{short(n)}` executes script code natively with globals `{g}` that carry no restricted __builtins__: lambda and @pyscript_compile bodies "
                      f"reach open, __import__ and every module", key="native exec without restricted builtins", node=n, rel="eval.py")
    return (
        "Static, source-only: ast_import/ast_importfrom are abstractly interpreted on 12 statement forms; every path carries the decisions taken on the "
        "atoms {module_import found, allow_all_imports, in sys.modules} while allow-list membership is concrete; the expected outcome per path is computed from the atoms "
        "name by name and compared (raise before bind/import).  ast_name is interpreted for the excluded names in two evaluation contexts.  Who-may-call for importlib/sys.modules/exec/compile. "
        "Not decided: the universe of installed module names."
    )


def eval_namespace_rule(ctx, program, rid):
    from ..absint import Const, DictV, ObjV, Sym
    from ..flow import FlowPolicy, exits, run_flow
    uid = "eval.py::ast_eval_exec_factory.eval_func"
    own = DictV([(Const("print"), Sym(("script print",))), (Const("log.info"), Sym(("script log.info",)))], "caller.local_sym_table")
    for label, g, l in (("no namespaces", None, None), ("explicit globals", "g", None), ("explicit globals and locals", "g", "l")):
        seen = []

        def aeval(i, n, a, k, c, o, seen=seen):
            seen.append(c.heap.get("ev.local_sym_table"))
            return [(c, Const(None))]

        pol = FlowPolicy(program, may_raise_all=False, cancel=False, globals_={"ast_ctx": ObjV("caller", "AstEval"), "mode": Const("exec")},
                         summaries={"AstEval": lambda i, n, a, k, c, o: [(c, ObjV("ev", "AstEval"))], "eval_ast.parse": lambda i, n, a, k, c, o: [(c, Const(None))], "eval_ast.aeval": aeval})
        pol.loop_unroll = 3
        gtab = DictV([(Const("x"), Const(1))], "caller.global_sym_table")
        heap = {"caller.local_sym_table": own, "caller.global_sym_table": gtab, "caller.sym_table": gtab, "caller.sym_table_stack": ListV((), "list"), "caller.user_locals": DictV([]),
                "ev.local_sym_table": DictV([], "ev.local_sym_table")}
        args = {"arg_str": Const("print(1)"), "eval_globals": DictV([(Const("y"), Const(2))], "$g") if g else Const(None), "eval_locals": DictV([], "$l") if l else Const(None)}
        out = run_flow(program, uid, pol, args=args, heap=heap)
        ex = exits(out)
        good = bool(seen) and all(isinstance(t, DictV) and dict(t.items).get(Const("print")) == Sym(("script print",)) and dict(t.items).get(Const("log.info")) == Sym(("script log.info",)) for t in seen)
        ctx.check(bool(ex) and good, rid, uid, f"{label}: print/log.* visible to the evaluated text",
                  msg=f"eval()/exec() with {label}: the evaluator that runs the text has evaluator-level names {[sorted(k.v for k, _ in t.items) if isinstance(t, DictV) else repr(t) for t in seen]}: "
                  "print / log.* of the calling script are not defined in the evaluated text (NameError instead of a line in the script's log)", key=f"eval namespaces {label}",
                  node=program.func(uid), rel="eval.py")


def relative_import_rule(ctx, program, rid):
    from ..absint import Const, DictV, ObjV, Sym
    from ..flow import FlowPolicy, exits, run_flow
    from ..schematic import to_nodev
    uid = "eval.py::AstEval.ast_importfrom"
    allowed = const_set(program.module_const("const.py", "ALLOWED_IMPORTS")) or set()
    for src in ("from .math import floor", "from ..json import dumps", "from .math import *"):
        for allow_all in (False, True):
            pol = FlowPolicy(program, may_raise_all=False, cancel=False, events=["Function.hass.async_add_executor_job", "self.bind_name"],
                             globals_={"ALLOWED_IMPORTS": Const(frozenset(allowed)), "CONF_ALLOW_ALL_IMPORTS": Const("allow_all_imports")},
                             summaries={"self.global_ctx.module_import": lambda i, n, a, k, c, o: [(c, Const(None))],
                                        "self.config_entry.data.get": lambda i, n, a, k, c, o, v=allow_all: [(c, Const(v))]})
            pol.loop_unroll = 3
            out = run_flow(program, uid, pol, args={"self": ObjV("self", "AstEval"), "arg": to_nodev(ast.parse(src).body[0])},
                           heap={"sys.modules": DictV([(Const("math"), Sym(("stdlib math",))), (Const("json"), Sym(("stdlib json",)))]), "self.sym_table": DictV([])})
            got = sorted({(k, getattr(c.env.get("$exc"), "cls", None), sum(1 for e in c.trace if e[0] == "call")) for k, c, d in exits(out)})
            ctx.check(got == [("raise", "ModuleNotFoundError", 0)], rid, uid, f"`{src}` with no such pyscript module, allow_all_imports={allow_all}",
                      msg=f"`{src}` when the package has no such module (allow_all_imports={allow_all}): (exit, exception, imports/bindings made) = {got}; Python raises ModuleNotFoundError - "
                      "here the installed module of that name is imported and bound instead", key=f"relative fallback {src} {allow_all}", node=program.func(uid), rel="eval.py")
