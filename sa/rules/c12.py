"""C12 - a @service exists exactly while declared and calls the current definition (structural clauses)."""

from __future__ import annotations

import ast

from ..absint import App, Cfg, ClassV, Const, DictV, ExcV, ListV, ObjV, Sym
from ..flow import FlowInterp, FlowPolicy, exits, run_flow
from ..repo import AnalysisError, body_walk, call_name, norm, short

LEVEL_TEXT = (
    "decides structural clauses of C12, not registration state over histories: the reference-count / ownership "
    "transition function of service_register and service_remove is exactly the specified one on the finite model "
    "count in {absent,0,1,2,3} x owner in {absent,same,other} (a refused registration changes nothing; the service is "
    "removed from Home Assistant exactly when the count reaches zero); every registration site passes the global "
    "context name as owner and records the name for removal; both subsystems reject the built-in service names, "
    "build the same call arguments and return the function's result; the three implementations of outgoing "
    "service calls split parameters the same way"
    "; an option is split off an outgoing call only when it has the option's type (table over value types for the three siblings); legacy and new @service register exactly the declared names (none, one, several, repeated), remove exactly those, and roll back when a later name is refused or the decorator set fails"
    '; run-time declared services stay reachable for removal (manager recorded before start, single owner); count and owner are kept per Home Assistant service, not per spelling'
    '; stopping a context reaches functions still queued for start; service.call delivers fields named like its own parameters; response-only services are recognised by equality; built-in names are refused case-insensitively; a registered legacy name is recorded before anything can fail'
)
LEVEL_NOTE = "the finite model covers the count guards exhaustively (guards compare with 0/1 only); Home Assistant's service registry is trusted"
TECHNIQUE = "abstract interpretation of the transition functions on an exhaustive finite model (decision table), sibling agreement of registration sites and of parameter-splitting implementations"

REG = "function.py::Function.service_register"
REM = "function.py::Function.service_remove"
KEY = "dom.svc"


def _run(program, uid, cnt, owner, caller="ctxA"):
    heap = {
        "Function.service_cnt": DictV(() if cnt is None else ((Const(KEY), Const(cnt)),)),
        "Function.service2global_ctx": DictV(() if owner is None else ((Const(KEY), Const(owner)),)),
    }
    pol = FlowPolicy(program, events=["cls.hass.services.async_register", "cls.hass.services.async_remove"], may_raise_all=False, cancel=False)
    args = {"cls": ClassV("Function"), "global_ctx_name": Const(caller), "domain": Const("dom"), "service": Const("svc"),
            "callback": Sym(("cb",)), "supports_response": Sym(("sr",))}
    out = run_flow(program, uid, pol, args=args, heap=heap)
    res = []
    for kind, c, desc in exits(out):
        cntv = c.heap["Function.service_cnt"].get(Const(KEY))
        ownv = c.heap["Function.service2global_ctx"].get(Const(KEY))
        evs = [e[1].split(".")[-1] for e in c.trace if e[0] == "call"]
        exc = c.env.get("$exc")
        res.append((kind if kind == "return" else f"raise {getattr(exc, 'cls', '?')}", None if cntv is None else cntv.v, None if ownv is None else ownv.v, tuple(evs)))
    return sorted(set(res), key=repr)


def case_table(ctx, program, rid):
    # host fact (read from the installed library's source, nothing is run): the registry lower-cases both names
    import inspect
    from homeassistant.core import ServiceRegistry
    reg = getattr(ServiceRegistry, "_async_register", None) or ServiceRegistry.async_register
    tree = ast.parse(__import__("textwrap").dedent(inspect.getsource(reg)))
    lowered = {n.func.value.id for n in ast.walk(tree) if isinstance(n, ast.Call) and isinstance(n.func, ast.Attribute) and n.func.attr == "lower" and isinstance(n.func.value, ast.Name)}
    if not {"domain", "service"} <= lowered:
        ctx.skip(rid, REG, "the installed Home Assistant does not lower-case service names: spellings are distinct services")
        return

    def step(uid, heap, caller, domain, service):
        pol = FlowPolicy(program, events=["cls.hass.services.async_register", "cls.hass.services.async_remove"], may_raise_all=False, cancel=False)
        args = {"cls": ClassV("Function"), "global_ctx_name": Const(caller), "domain": Const(domain), "service": Const(service)}
        if uid == REG:
            args.update({"callback": Sym(("cb",)), "supports_response": Sym(("sr",))})
        ex = exits(run_flow(program, uid, pol, args=args, heap=dict(heap)))
        if len(ex) != 1:
            raise AnalysisError(f"{uid}: {len(ex)} exits on a concrete registry")
        k, c, d = ex[0]
        evs = [e[1].split(".")[-1] for e in c.trace if e[0] == "call"]
        return k, getattr(c.env.get("$exc"), "cls", None), evs, {kk: v for kk, v in c.heap.items() if kk.startswith("Function.")}

    empty = {"Function.service_cnt": DictV(()), "Function.service2global_ctx": DictV(())}
    k1, e1, ev1, h1 = step(REG, empty, "ctxA", "tools", "Ping")
    k2, e2, ev2, h2 = step(REG, h1, "ctxB", "tools", "ping")
    ctx.check(k1 == "return" and k2 == "raise" and e2 == "ValueError" and not ev2, rid, REG, "another context, other spelling: refused",
              msg=f"after ctxA declared tools.Ping, ctxB declaring tools.ping ends with {k2} {e2} {ev2}: Home Assistant replaces ctxA's handler by ctxB's (one service), "
              f"a second context takes over a name that another context owns", key="case takeover", node=program.func(REG), rel="function.py")
    # same context, two spellings on two functions: removing one must keep the service registered
    k3, e3, ev3, h3 = step(REG, h1, "ctxA", "tools", "ping")
    k4, e4, ev4, h4 = step(REM, h3, "ctxA", "tools", "ping")
    ctx.check(k3 == "return" and k4 == "return" and "async_remove" not in ev4, rid, REM, "two spellings in one context: the service stays while one declaration is alive",
              msg=f"ctxA declares tools.Ping and tools.ping (one Home Assistant service); removing tools.ping gives {ev4}: the service is removed although tools.Ping still declares it",
              key="case remove", node=program.func(REM), rel="function.py")
    # ... in either order: the spelling removed first may be the one that differs from the lower-cased name
    k6, e6, ev6, h6 = step(REM, h3, "ctxA", "tools", "Ping")
    ctx.check(k3 == "return" and k6 == "return" and "async_remove" not in ev6, rid, REM, "two spellings in one context, the capitalised one removed first: the service stays",
              msg=f"ctxA declares tools.Ping and tools.ping (one Home Assistant service); removing tools.Ping gives {ev6}: the service is removed although tools.ping still declares it "
              f"(register and remove have to agree on the key of a service)", key="case remove capitalised first", node=program.func(REM), rel="function.py")
    k7, e7, ev7, h7 = step(REM, h6, "ctxA", "tools", "ping")
    ctx.check(k7 == "return" and ev7 == ["async_remove"], rid, REM, "the last declaration removes the service (other order)", msg=f"removing the last spelling gives {ev7}",
              key="case last remove, other order", node=program.func(REM), rel="function.py")
    # one declaration under a capitalised name: its removal unregisters the service and frees the name for another context
    k8, e8, ev8, h8 = step(REM, h1, "ctxA", "tools", "Ping")
    k9, e9, ev9, h9 = step(REG, h8, "ctxB", "tools", "ping")
    ctx.check(k8 == "return" and ev8 == ["async_remove"] and k9 == "return" and ev9 == ["async_register"], rid, REM, "a capitalised declaration is released completely",
              msg=f"ctxA declares tools.Ping and removes it ({k8} {ev8}); ctxB then declaring tools.ping ends with {k9} {e9} {ev9}: the owner record of the removed service is still there",
              key="case release capitalised", node=program.func(REM), rel="function.py")
    k5, e5, ev5, h5 = step(REM, h4, "ctxA", "tools", "Ping")
    ctx.check(k5 == "return" and ev5 == ["async_remove"], rid, REM, "the last declaration removes the service", msg=f"removing the last spelling gives {ev5}", key="case last remove",
              node=program.func(REM), rel="function.py")


def refcount_table(ctx, program, rid):
    """Transition table of service_register / service_remove on the finite model count x owner."""
    for cnt in (None, 0, 1, 2, 3):
        for owner in (None, "ctxA", "ctxB"):
            if cnt in (None, 0) and owner == "ctxB":
                pass
            got = _run(program, REG, cnt, owner)
            base = cnt or 0
            if owner == "ctxB":
                # owned by another context: refuse, change nothing
                exp = [("raise ValueError", cnt, "ctxB", ())]
                # an absent counter may be initialised to 0 before the check (unobservable)
                alt = [("raise ValueError", 0, "ctxB", ())] if cnt is None else None
            else:
                exp = [("return", base + 1, "ctxA", ("async_register",))]
                alt = None
            ok = got == exp or (alt is not None and got == alt)
            ctx.check(ok, rid, REG, f"register: count={cnt} owner={owner}",
                      msg=f"service_register with count={cnt}, owner={owner}, caller=ctxA yields {got}; specified: {exp} "
                      f"(a refused registration must not change the count, otherwise the real owner's removal never unregisters the service)",
                      key=f"register count={cnt} owner={owner}", node=program.func(REG), rel="function.py", sample={"result": repr(got)})
    for cnt in (None, 0, 1, 2, 3):
        for owner in (None, "ctxA"):
            got = _run(program, REM, cnt, owner)
            if cnt is not None and cnt >= 2:
                exp = [("return", cnt - 1, owner, ())]
            else:
                exp = [("return", 0, None, ("async_remove",))]
            ctx.check(got == exp, rid, REM, f"remove: count={cnt} owner={owner}",
                      msg=f"service_remove with count={cnt}, owner={owner} yields {got}; specified: {exp}",
                      key=f"remove count={cnt} owner={owner}", node=program.func(REM), rel="function.py", sample={"result": repr(got)})



def run(ctx):
    program = ctx.program
    ctx.rule("R12.1", "service_register/service_remove implement the reference-count + ownership transition table", floor=20)
    refcount_table(ctx, program, "R12.1")

    ctx.rule("R12.10", "Home Assistant lower-cases domain and service names, so 'tools.Ping' and 'tools.ping' are one service: the reference count and the owner are kept per "
             "service, not per spelling - a second context is refused whatever case it uses, and removing one spelling (whichever comes first) does not remove the service another declaration still uses, and a removed one leaves no owner behind", floor=6)
    case_table(ctx, program, "R12.10")
    ctx.rule("R12.2", "every registration site passes the global context name as owner, the removal site passes the same, and each registered name is recorded for removal", floor=4)
    sites = []
    for u in program.functions():
        for n in body_walk(u.node):
            if isinstance(n, ast.Call) and call_name(n) == "Function.service_register":
                sites.append((u, n))
    if len(sites) < 2:
        raise AnalysisError("expected two service_register call sites (legacy and new subsystem)")
    for u, n in sites:
        from ..repo import expand_locals
        # (a local the name was bound to first is put back: `trig_ctx_name = trig_ctx.get_name()`)
        a0 = program.call_args(u, n)  # (positional or `global_ctx_name=`)
        owner = norm(expand_locals(u.node, a0[0])) if a0 else "?"
        # the owner expression must denote a global-context name
        ok = ("global_ctx" in owner and "name" in owner.lower()) or ("ctx" in owner and "get_name()" in owner)
        ctx.check(ok, "R12.2", u.uid, "owner key is the global context name",
                  msg=f"{u.uid}: service_register is given `{owner}` as owner; the ownership check compares global context names, so a function defined "
                  f"by another evaluator of the same file (e.g. inside a trigger run) cannot re-declare its own file's service", key="owner key at service_register",
                  node=n, rel=u.rel, sample={"owner_expr": owner})
    rems = [(u, n) for u in program.functions() for n in body_walk(u.node) if isinstance(n, ast.Call) and call_name(n) == "Function.service_remove"]
    for u, n in rems:
        a0 = program.call_args(u, n)
        owner = norm(a0[0]) if a0 else "?"
        ctx.check("global_ctx" in owner, "R12.2", u.uid, "removal names the global context", msg=f"{u.uid}: service_remove is given `{owner}`", key="owner key at service_remove",
                  node=n, rel=u.rel)
    # legacy: each registered name is remembered (same number of registrations and trigger_service.add on every path)
    uid = "eval.py::EvalFunc.trigger_init"
    pol = FlowPolicy(program, events=["Function.service_register", "self.trigger_service.add"], may_raise_all=False, cancel=False, locals_={"self"},
                     record_atoms=False)
    pol.loop_unroll = 2
    out = run_flow(program, uid, pol)
    bad = None
    n_paths = 0
    for kind, c, desc in exits(out):
        evs = [e[1] for e in c.trace if e[0] == "call"]
        r, a = evs.count("Function.service_register"), evs.count("self.trigger_service.add")
        if r:
            n_paths += 1
        if r != a and kind == "return":
            bad = f"{r} registration(s) but {a} recorded name(s) on a path ending in {desc}"
    ctx.check(bad is None and n_paths > 0, "R12.2", uid, "every registered service name is recorded for removal",
              msg=f"legacy @service: {bad}: trigger_stop() only removes recorded names, so the other aliases stay registered after the function is gone",
              key="registered names recorded", node=program.func(uid), rel="eval.py", sample={"paths": n_paths})
    # new: stop() removes what start() registered (same domain/name expressions)
    st = program.func("decorators/service.py::ServiceDecorator.start")
    sp = program.func("decorators/service.py::ServiceDecorator.stop")
    a = [n for n in body_walk(st) if isinstance(n, ast.Call) and call_name(n) == "Function.service_register"][0]
    b = [n for n in body_walk(sp) if isinstance(n, ast.Call) and call_name(n) == "Function.service_remove"]
    def resolve(fn, e):
        t = norm(e)
        for m in body_walk(fn):
            if isinstance(m, ast.Assign) and norm(m.targets[0]) == t:
                return norm(m.value)
        return t
    ok = bool(b) and [resolve(st, x) for x in a.args[1:3]] == [resolve(sp, x) for x in b[0].args[1:3]]
    ctx.check(ok, "R12.2", "decorators/service.py::ServiceDecorator.stop", "stop removes the domain/name that start registered",
              msg="ServiceDecorator.stop does not remove the same domain/name that start registered", key="new start/stop names", node=sp, rel="decorators/service.py")

    ctx.rule("R12.7", "legacy @service: a registration survives trigger_init only if the function is handed to its context (so stop/reload reaches it); failed decorator sets roll it back", floor=2)
    legacy_service_reachability(ctx, program, "R12.7")

    ctx.rule("R12.8", "new subsystem: every documented @service form (no name, one name, several names) registers exactly the declared names and stop() removes exactly those; "
             "a refused name rolls back the names registered before it", floor=8)
    service_forms(ctx, program, "R12.8")

    ctx.rule("R12.9", "a @service declared at run time stays reachable for removal: its manager is recorded in the context before start() registers the name; "
             "no second holder's finaliser removes the service of a function that is still bound", floor=4)
    from .c09 import single_owner_rule, tracked_before_start_rule
    tracked_before_start_rule(ctx, program, "R12.9")
    single_owner_rule(ctx, program, "R12.9")
    ctx.rule("R12.11", "stopping a context (unload, reload, failed load) reaches every function registered in it - also one still queued for a delayed start, "
             "whose legacy @service names were registered at definition time and are released only by its trigger_stop", floor=4)
    from .c09 import context_stop_table
    context_stop_table(ctx, program, "R12.11")

    ctx.rule("R12.12", "service.call() delivers exactly the given keyword parameters, whatever they are called (a field named `name` or `domain` is service data, "
             "not the function's own argument): the parameters of the call path are positional-only", floor=2)
    from .c03 import kwargs_namespace_rule
    kwargs_namespace_rule(ctx, program, "R12.12", only=("function.py::Function.service_call", "eval.py::AstEval.call_func"))

    ctx.rule("R12.13", "a script's call of a response-only service asks for the response (and gets the function's result) in both subsystems: the legacy subsystem registers "
             "the decorator's plain string 'only', which equals SupportsResponse.ONLY without being that object, so the test must be an equality", floor=2)
    response_only_rule(ctx, program, "R12.13")

    ctx.rule("R12.3", "service handlers pass trigger_type='service', the call context and the call data, run the function in its own task and return its result", floor=2)
    for uid in ("eval.py::EvalFunc.trigger_init.pyscript_service_factory.pyscript_service_handler", "decorators/service.py::ServiceDecorator._service_callback"):
        f = program.func(uid)
        call_ctx = ObjV("call_ctx", "Context")
        for data_label, data in (("two data fields", DictV([(Const("a"), Const(1)), (Const("trigger_type"), Const("spoofed"))])), ("no data", DictV([]))):
            tasks = []

            def create_task(i, n, a, k, c, o, tasks=tasks):
                tasks.append(a[0] if a else None)
                return [(c, ObjV("task", "Task"))]

            pol = FlowPolicy(program, may_raise_all=False, cancel=False, summaries={
                "Function.create_task": create_task, "task.result": lambda i, n, a, k, c, o: [(c, Sym(("function-result",)))],
                "task.cancelled": lambda i, n, a, k, c, o: [(c, Const(False))],  # the run completes (a cancelled run has no result: C14)
                "AstEval": lambda i, n, a, k, c, o: [(c, ObjV("run_evaluator", "AstEval"))], "Function.install_ast_funcs": lambda i, n, a, k, c, o: [(c, Const(None))]},
                globals_={"self": ObjV("owner", "Owner"), "func": ObjV("the_function", "EvalFunc"), "func_name": Const("f"), "trig_ctx_name": Const("file.x")})
            heap = {"call.context": call_ctx, "call.data": data, "call.service": Const("svc"), "owner.dm": ObjV("dm", "FunctionDecoratorManager"), "dm.eval_func": ObjV("the_function", "EvalFunc"),
                    "dm.name": Const("file.x.f"), "the_function.global_ctx": ObjV("gctx", "GlobalContext"), "owner.global_ctx": ObjV("gctx", "GlobalContext"), "self.dm": ObjV("dm", "FunctionDecoratorManager")}
            args = {"call": ObjV("call", "ServiceCall")}
            if "ServiceDecorator" in uid:
                args["self"] = ObjV("self", "ServiceDecorator")
            out = run_flow(program, uid, pol, args=args, heap=heap)
            want_args = {"trigger_type": Const("service"), "context": call_ctx}
            want_args.update({k.v: v for k, v in data.items})
            bad = None
            rets = [c.env.get("$ret") for k, c, d in exits(out) if k == "return"]
            if len(tasks) != 1:
                bad = f"{len(tasks)} tasks created for one service call"
            elif rets != [Sym(("function-result",))]:
                bad = f"the handler returns {rets!r}, not the result of the function's task"
            else:
                coro = tasks[0]
                passed = [x for x in (coro.args if isinstance(coro, App) else ()) if isinstance(x, DictV)]
                got_args = {k.v: v for k, v in passed[0].items} if passed else None
                runs_func = isinstance(coro, App) and ObjV("the_function", "EvalFunc") in coro.args
                if got_args != want_args:
                    bad = f"the function is called with {got_args}, specified {want_args} (trigger_type, the call's context, then the call's data fields)"
                elif not runs_func:
                    bad = f"the task does not run the declaring function ({coro!r})"
            ctx.check(bad is None, "R12.3", uid, f"handler contract, {data_label}", msg=f"{uid} for a service call with {data_label}: {bad}", key=f"service handler contract {data_label}",
                      node=f, rel=uid.split("::")[0])
        # the coroutine function the handler starts as the run's task: nested in the handler, in its factory, a method or a module-level coroutine
        inner = []
        for st in body_walk(f):
            if isinstance(st, ast.Call) and call_name(st) == "Function.create_task" and st.args:
                co = st.args[0]
                if isinstance(co, ast.Name):
                    defs = [m.value for m in body_walk(f) if isinstance(m, ast.Assign) and len(m.targets) == 1 and isinstance(m.targets[0], ast.Name) and m.targets[0].id == co.id]
                    co = defs[-1] if defs else co
                cu = program.resolve_callable(program.unit(uid), co.func) if isinstance(co, ast.Call) else None
                if cu is not None and isinstance(cu.node, ast.AsyncFunctionDef):
                    inner.append(cu.node)
        ok2 = bool(inner) and any(isinstance(t, ast.Try) and any(isinstance(h.type, ast.Name) and h.type.id in ("Exception", "BaseException") for h in t.handlers if h.type is not None) for t in ast.walk(inner[0]))
        ctx.check(ok2, "R12.3", uid, "the function call is protected", msg=f"{uid}: the service's function call is no longer wrapped in try/except Exception",
                  key="service call protected", node=f, rel=uid.split("::")[0])

    ctx.rule("R12.4", "the implementations of outgoing service calls split off exactly the Home Assistant call options", floor=3)
    impls = {
        "function.py::Function.service_call": None,
        "function.py::Function.get.service_call_factory.service_call": None,
        "state.py::State.get.service_call_factory.service_call": None,
    }
    tables = {}
    for uid in impls:
        f = program.func(uid)
        opts = []
        for n in program.walk_with_helpers(uid):  # (the option table may live in a helper shared by the implementations)
            it = n.iter if isinstance(n, ast.For) else None
            if isinstance(it, ast.Name):
                try:
                    it = program.module_const(uid.split("::")[0], it.id)  # a table kept as a module constant
                except Exception:  # noqa - not a module constant
                    it = None
            if isinstance(it, (ast.List, ast.Tuple)):
                for e in it.elts:
                    if isinstance(e, ast.Tuple) and isinstance(e.elts[0], ast.Constant):
                        opts.append(e.elts[0].value)
        tables[uid] = tuple(opts)
    ref = ("context", "blocking", "return_response")
    for uid, t in tables.items():
        ctx.check(t == ref, "R12.4", uid, "split-off options are context, blocking, return_response",
                  msg=f"{uid} strips {list(t)} from the caller's keyword parameters; the sibling implementations and hass.services.async_call accept only {list(ref)}: "
                  f"a service parameter named {sorted(set(t) - set(ref))} is not delivered to the service", key=f"split-off options {t}", node=program.func(uid), rel=uid.split("::")[0])

    ctx.rule("R12.6", "outgoing calls: an option is split off only when it has the option's type; any other parameter - including one merely named like an option - reaches the service", floor=150)
    split_table(ctx, program, "R12.6")

    ctx.rule("R12.14", "a @service name that Home Assistant files under one of the integration's own services (names are lower-cased: pyscript.Reload is pyscript.reload) is refused "
             "by both subsystems; other names are accepted", floor=10)
    builtin_name_table(ctx, program, "R12.14")

    ctx.rule("R12.5", "both subsystems reject the built-in service names", floor=2)
    # (decided by interpreting both validations on the two built-in names, not by the shape of the test)
    builtin_name_table(ctx, program, "R12.5", names=(("pyscript.reload", True), ("pyscript.jupyter_kernel_start", True)))
    return (
        "Static, source-only: service_register/service_remove are abstractly interpreted on every element of the finite model count x owner and the "
        "resulting (exit, count', owner', HA calls) is compared with the specified transition table; registration sites are cross-checked (owner key, "
        "recording of names, start/stop symmetry); handler contract; sibling agreement of the three parameter-splitting implementations. "
        "Not decided: registration state after arbitrary histories."
    )


SPLIT_IMPLS = {
    "function.py::Function.service_call": ("Function", {}, {"domain": "d", "name": "s"}),
    "function.py::Function.get.service_call_factory.service_call": ("Function", {"domain": "d", "service": "s"}, {}),
    "state.py::State.get.service_call_factory.service_call": ("State", {"domain": "d", "service": "s", "entity_id": "d.e", "params": ()}, {}),
}


def split_table(ctx, program, rid):
    """The three parameter-splitting implementations interpreted on every small keyword dictionary."""
    from ..absint import ClassV, ListV as _L
    ctxobj = ObjV("userctx", "Context")
    taskctx = ObjV("taskctx", "Context")
    opts = {"context": (None, ctxobj, Const("kitchen")), "blocking": (None, Const(True), Const("soon")), "return_response": (None, Const(False), Const("maybe"))}
    good = {"context": ctxobj, "blocking": Const(True), "return_response": Const(False)}
    for uid, (owner, closure, fixed) in SPLIT_IMPLS.items():
        fn = program.func(uid)
        for has_task_ctx in (True, False):
            for cv in opts["context"]:
                for bv in opts["blocking"]:
                    for rv in opts["return_response"]:
                        given = {k: v for k, v in (("context", cv), ("blocking", bv), ("return_response", rv)) if v is not None}
                        kw = DictV([(Const(k), v) for k, v in given.items()] + [(Const("level"), Const(3))])
                        calls = []

                        def ha(i, n, a, k, c, o):
                            calls.append((a, dict(k)))
                            return [(c, Sym(("resp",)))]

                        glob = {"Context": ClassV("Context"), "cls": ClassV(owner), "Function": ClassV("Function")}
                        glob.update({k: (Const(v) if not isinstance(v, tuple) else _L((), "tuple")) for k, v in closure.items()})
                        pol = FlowPolicy(program, may_raise_all=False, cancel=False, globals_=glob,
                                         summaries={"cls.hass_services_async_call": ha, "cls.hass.services.async_call": ha, "Function.hass_services_async_call": ha,
                                                    "asyncio.current_task": lambda i, n, a, k, c, o: [(c, Const("T"))]})
                        heap = {"Function.task2context": DictV([(Const("T"), taskctx)] if has_task_ctx else [])}
                        args = {"kwargs": kw, "args": _L((), "tuple")}
                        args.update({k: Const(v) for k, v in fixed.items()})
                        if owner == "Function" and not closure:
                            args["cls"] = ClassV("Function")
                        out = run_flow(program, uid, pol, args=args, heap=heap)
                        want_opts, want_data = {}, {"level": Const(3)}
                        for k, v in given.items():
                            if v == good[k]:
                                want_opts[k] = v
                            else:
                                want_data[k] = v
                        if "context" not in want_opts and has_task_ctx:
                            want_opts["context"] = taskctx
                        if "entity_id" in closure:
                            want_data["entity_id"] = Const("d.e")
                        label = f"context={'absent' if cv is None else cv!r}, blocking={'absent' if bv is None else bv!r}, return_response={'absent' if rv is None else rv!r}, " \
                                f"task context {'known' if has_task_ctx else 'unknown'}"
                        bad = None
                        ex = exits(out)
                        if len(calls) != len(ex) or not calls:
                            bad = f"{len(calls)} Home Assistant call(s) on {len(ex)} path(s)"
                        for a, k in calls:
                            data = a[2] if len(a) > 2 else None
                            got_data = dict(data.items) if isinstance(data, DictV) else None
                            got_data = {kk.v: vv for kk, vv in got_data.items()} if got_data is not None else None
                            if got_data != want_data:
                                lost = sorted(set(want_data) - set(got_data or {}))
                                bad = f"service data is {got_data}, expected {want_data}" + (f": parameter(s) {lost} never reach the service" if lost else "")
                            elif k != want_opts:
                                bad = f"call options are {k}, expected {want_opts}"
                        ctx.check(bad is None, rid, uid, f"{uid.split('::')[1].split('.')[0]}.{'get' if closure else 'service_call'}: {label}",
                                  msg=f"{uid} called with {label}: {bad}", key=f"split {label}", node=fn, rel=uid.split("::")[0])


def legacy_service_reachability(ctx, program, rid):
    """EvalFunc.trigger_init with every call a possible failure: exits on which a service stays registered although neither
    trigger_register (the context's stop() then reaches trigger_stop) nor a roll-back happened."""
    uid = "eval.py::EvalFunc.trigger_init"
    pol = FlowPolicy(program, events=["Function.service_register", "trig_ctx.trigger_register", "self.trigger_stop", "self.trigger_service.add"], may_raise_all=True, cancel=False,
                     locals_={"self", "trig_ctx"}, record_atoms=False)
    pol.acquire_labels = {"Function.service_register"}
    pol.loop_unroll = 2
    out = run_flow(program, uid, pol, heap={"self.trigger_service": ListV((), "set"), "self.trigger": ListV((), "list")})
    # does the (only) caller roll back when trigger_init raises?
    caller = program.func("eval.py::AstEval.ast_functiondef")
    caller_rolls_back = False
    n_sites = 0
    for t in body_walk(caller):
        if isinstance(t, ast.Try) and any(isinstance(m, ast.Call) and (call_name(m) or "").endswith(".trigger_init") for s2 in t.body for m in ast.walk(s2)):
            n_sites += 1
            recv = [norm(m.func.value) for s2 in t.body for m in ast.walk(s2) if isinstance(m, ast.Call) and (call_name(m) or "").endswith(".trigger_init")][0]
            caller_rolls_back = all(any(isinstance(m, ast.Call) and call_name(m) == f"{recv}.trigger_stop" for s2 in h.body for m in ast.walk(s2)) for h in t.handlers) and bool(t.handlers)
    sites = [u.uid for u in program.functions() for m in body_walk(u.node) if isinstance(m, ast.Call) and (call_name(m) or "").endswith(".trigger_init")]
    if n_sites != 1 or sites != ["eval.py::AstEval.ast_functiondef"]:
        raise AnalysisError(f"trigger_init call sites changed: {sites}")
    leaks_ret, leaks_exc, n_reg, unrecorded = [], [], 0, []
    for kind, c, desc in exits(out):
        evs = [e[1] for e in c.trace if e[0] == "call"]
        if "Function.service_register" not in evs:
            continue
        n_reg += 1
        last = max(i for i, e in enumerate(evs) if e == "Function.service_register")
        handed = "trig_ctx.trigger_register" in evs or "self.trigger_stop" in evs[last + 1:]
        if kind == "return" and not handed:
            leaks_ret.append(f"return at line {c.env.get('$retline', '?')}")
        if kind == "raise" and not handed and not caller_rolls_back:
            leaks_exc.append(desc)
        rec = c.heap.get("self.trigger_service")
        if kind == "raise" and not handed and isinstance(rec, ListV) and len(rec.items) < evs.count("Function.service_register"):
            # the caller's roll-back is trigger_stop(), which removes the names recorded in trigger_service: a name registered but not yet recorded stays
            unrecorded.append(desc)
    if n_reg == 0:
        raise AnalysisError("trigger_init: no path registers a service")
    ctx.check(not leaks_ret, rid, uid, "return paths with a registered service hand the function to its context",
              msg=f"legacy @service: trigger_init returns on {len(leaks_ret)} path(s) with a service registered but the function neither registered with its global context nor rolled back "
              f"(e.g. @service combined with @state_active/@time_active/@task_unique and no trigger): GlobalContext.stop() never reaches trigger_stop(), the HA service handler keeps the "
              f"function alive, so the service outlives its file", key="service registered, function not handed to context (return)", node=program.func(uid), rel="eval.py")
    ctx.check(not unrecorded, rid, uid, "a registered name is recorded for removal before anything else can fail",
              msg=f"legacy @service: on {len(unrecorded)} path(s) trigger_init fails after Function.service_register() and before the name is recorded in trigger_service "
              f"({sorted(set(unrecorded))[:2]}; e.g. a doc string starting with 'yaml' that is not a mapping makes async_set_service_schema raise): the caller's trigger_stop() has nothing to "
              f"remove, the service stays registered and counted for ever", key="service registered but not recorded (raise)", node=program.func(uid), rel="eval.py")
    # concrete alias lists: every registration made by trigger_init is matched by one removal in trigger_stop (the count is per registration)
    glob = {"TRIG_SERV_DECORATORS": ListV(tuple(Const(x) for x in ("service", "state_trigger", "event_trigger", "time_trigger", "mqtt_trigger", "webhook_trigger", "state_active",
                                                                   "time_active", "task_unique")), "set"),
            "DOMAIN": Const("pyscript"), "SERVICE_RELOAD": Const("reload"), "SERVICE_JUPYTER_KERNEL_START": Const("jupyter_kernel_start")}
    for decs in ([["p.a"]], [["p.a", "p.b"]], [["p.a", "p.a"]], [["p.a"], ["p.a"]], [["p.a"], ["p.b"]]):
        pol2 = FlowPolicy(program, events=["Function.service_register", "Function.service_remove"], may_raise_all=False, cancel=False, globals_=glob,
                          summaries={"trig_ctx.get_name": lambda i, n, a, k, c, o: [(c, Const("file.x"))], "self.get_positional_args": lambda i, n, a, k, c, o: [(c, ListV((), "list"))]})
        pol2.loop_unroll = 2
        dl = ListV(tuple(ListV((Const("service"), ListV(tuple(Const(n) for n in names), "list"), Const(None)), "list") for names in decs), "list")
        heap = {"self.trigger_service": ListV((), "set"), "self.trigger": ListV((), "list"), "self.decorators": dl, "self.doc_string": Const("doc"), "self.global_ctx": ObjV("g", "GlobalContext")}
        o1 = run_flow(program, uid, pol2, args={"self": ObjV("self", "EvalFunc"), "trig_ctx": ObjV("g", "GlobalContext"), "func_name": Const("f")}, heap=heap)
        bad = None
        ex1 = exits(o1)
        for kind, c, desc in ex1:
            if kind != "return":
                bad = f"trigger_init leaves with {desc}"
                continue
            reg = sorted(e[2][2].v for e in c.trace if e[0] == "call" and e[1] == "Function.service_register" and len(e[2]) > 2 and isinstance(e[2][2], Const))
            o2 = run_flow(program, "eval.py::EvalFunc.trigger_stop", pol2, args={"self": ObjV("self", "EvalFunc")}, heap=dict(c.heap))
            for k2, c2, d2 in exits(o2):
                rem = sorted(e[2][2].v for e in c2.trace if e[0] == "call" and e[1] == "Function.service_remove" and len(e[2]) > 2 and isinstance(e[2][2], Const))
                if rem != reg:
                    bad = f"trigger_init registers {reg} but trigger_stop removes {rem}: the service's reference count never returns to zero, it stays registered after the function is gone"
        ctx.check(bool(ex1) and bad is None, rid, uid, f"@service{tuple(tuple(d) for d in decs)}: registrations == removals",
                  msg=f"legacy @service with names {decs}: {bad or 'no exit'}", key=f"alias list {decs}", node=program.func(uid), rel="eval.py")
    ctx.check(not leaks_exc, rid, uid, "failing paths with a registered service are rolled back",
              msg=f"legacy @service: trigger_init can raise on {len(leaks_exc)} path(s) after a service was registered (e.g. {sorted(set(leaks_exc))[:3]}) and the caller only logs the exception: "
              f"the registered alias is never removed (a refused later alias, an invalid later decorator)", key="service registered, definition failed (raise)",
              node=caller, rel="eval.py")


def service_forms(ctx, program, rid):
    """ServiceDecorator: args schema -> service_validator -> validate -> start -> stop composed on finite name lists."""
    val_uid, v_uid = "decorators/service.py::service_validator", "decorators/service.py::ServiceDecorator.validate"
    st_uid, sp_uid = "decorators/service.py::ServiceDecorator.start", "decorators/service.py::ServiceDecorator.stop"
    # (a) the schema must not bound the number of names (documented: "Multiple arguments ... register multiple names")
    mod = program.module("decorators/service.py")
    bound = None
    n_schema = 0
    for n in ast.walk(mod):
        if isinstance(n, ast.ClassDef) and n.name == "ServiceDecorator":
            for st in n.body:
                if isinstance(st, ast.Assign) and any(norm(t) == "args_schema" for t in st.targets):
                    n_schema += 1
                    for c in ast.walk(st.value):
                        if isinstance(c, ast.Call) and (call_name(c) or "").endswith("Length"):
                            for kw in c.keywords:
                                if kw.arg == "max" and isinstance(kw.value, ast.Constant) and isinstance(kw.value.value, int) and kw.value.value < 3:
                                    bound = kw.value.value
    if n_schema != 1:
        raise AnalysisError("ServiceDecorator.args_schema not found")
    ctx.check(bound is None, rid, "decorators/service.py::ServiceDecorator", "argument schema accepts several names",
              msg=f"ServiceDecorator.args_schema limits @service to {bound} name(s): @service('a.b', 'c.d') - documented as registering both names - is rejected as a whole in the new subsystem "
              f"(the legacy subsystem registers both)", key="service schema bounds the number of names", node=program.func(v_uid), rel="decorators/service.py")

    def reg_factory(fail_at):
        def reg(i, n, a, k, c, o):
            idx = c.heap.get("$n", Const(0)).v
            if fail_at is not None and idx == fail_at:
                o.add("raise", c.set("$exc", ExcV("ValueError", "refused")))
                return []
            return [(c.hset("$n", Const(idx + 1)).emit(("call", "register", tuple(a[1:3]), (), 0)), Const(None))]
        return reg

    for names in ([], ["p.a"], ["p.a", "q.b"], ["p.a", "q.b", "r.c"], ["p.a", "p.a"]):
        want = [tuple(x.split(".")) for x in dict.fromkeys(names)] or [("pyscript", "f")]
        for fail_at in [None] + list(range(len(want))):
            summ = {"Function.service_register": reg_factory(fail_at),
                    "Function.service_remove": lambda i, n, a, k, c, o: [(c.emit(("call", "remove", tuple(a[1:3]), (), 0)), Const(None))],
                    "self.dm.ast_ctx.global_ctx.get_name": lambda i, n, a, k, c, o: [(c, Const("file.x"))],
                    "self.dm.ast_ctx.get_global_ctx_name": lambda i, n, a, k, c, o: [(c, Const("file.x"))],
                    "ast.get_docstring": lambda i, n, a, k, c, o: [(c, Const("doc"))], "typing.cast": lambda i, n, a, k, c, o: [(c, a[1])],
                    "super().validate": lambda i, n, a, k, c, o: [(c, Const(None))], "State.get_service_params": lambda i, n, a, k, c, o: [(c, Const(None))],
                    "async_set_service_schema": lambda i, n, a, k, c, o: [(c, Const(None))], "OrderedDict": lambda i, n, a, k, c, o: [(c, DictV([]))]}
            pol = FlowPolicy(program, may_raise_all=False, cancel=False, summaries=summ,
                             globals_={"DOMAIN": Const("pyscript"), "SERVICE_RELOAD": Const("reload"), "SERVICE_JUPYTER_KERNEL_START": Const("jupyter_kernel_start"), "vol": Sym(("g", "vol"))},
                             inline={"ServiceDecorator.stop", "self.stop", "ServiceDecorator.start"})
            from ..absint import NodeV
            fd = NodeV("FunctionDef", {"name": Const("f"), "args": NodeV("arguments", {"posonlyargs": ListV((), "list"), "args": ListV((), "list")}, "fd.args")}, "fd")
            bad = None
            o0 = run_flow(program, val_uid, pol, args={"args": ListV(tuple(Const(n) for n in names), "list")})
            rets = [c.env.get("$ret") for k, c, d in exits(o0) if k == "return"]
            if len(rets) != 1 or not isinstance(rets[0], ListV):
                bad = f"service_validator({names}) does not return a list ({[d for k, c, d in exits(o0)]})"
            else:
                heap = {"self.args": rets[0], "self.kwargs": DictV([]), "self.dm": ObjV("dm", "FunctionDecoratorManager"), "dm.func_name": Const("f"),
                        "dm.eval_func": ObjV("ef", "EvalFunc"), "ef.func_def": fd}
                o1 = run_flow(program, v_uid, pol, args={"self": ObjV("self", "ServiceDecorator")}, heap=heap)
                ex1 = exits(o1)
                if not ex1 or any(k != "return" for k, c, d in ex1):
                    bad = f"validate() fails: {[d for k, c, d in ex1]}"
                for k, c, d in ex1:
                    if k != "return":
                        continue
                    o2 = run_flow(program, st_uid, pol, args={"self": ObjV("self", "ServiceDecorator")}, heap=dict(c.heap))
                    for k2, c2, d2 in exits(o2):
                        ev = [(e[1], tuple(x.v for x in e[2])) for e in c2.trace if e[0] == "call" and e[1] in ("register", "remove")]
                        regs = [x for t, x in ev if t == "register"]
                        rems = [x for t, x in ev if t == "remove"]
                        if fail_at is None:
                            if k2 != "return" or regs != want or rems:
                                bad = f"start() registers {regs} (removes {rems}, {d2}); declared names {want}"
                                continue
                            o3 = run_flow(program, sp_uid, pol, args={"self": ObjV("self", "ServiceDecorator")}, heap=dict(c2.heap))
                            for k3, c3, d3 in exits(o3):
                                rem3 = sorted(tuple(x.v for x in e[2]) for e in c3.trace if e[0] == "call" and e[1] == "remove")
                                if k3 != "return" or rem3 != sorted(want):
                                    bad = f"stop() removes {rem3}, start() registered {want}"
                        else:
                            if k2 != "raise":
                                bad = f"start() completes although name #{fail_at + 1} was refused"
                            elif sorted(regs) != sorted(rems):
                                bad = f"name #{fail_at + 1} refused: names {regs} registered before it, {rems} removed again - the rest stay registered (the manager only stops decorators whose start() completed)"
            label = f"@service{tuple(names)}" + (f", name #{fail_at + 1} refused" if fail_at is not None else "")
            ctx.check(bad is None, rid, st_uid, label, msg=f"new subsystem {label}: {bad}", key=f"service form {label}", node=program.func(st_uid), rel="decorators/service.py")


class _EnumStrPolicy(FlowPolicy):
    """supports_response() hands back what was registered: the enum member (new subsystem) or an equal plain string (legacy)."""

    def equal_hook(self, l, r):
        if isinstance(l, Sym) and l == r and "SupportsResponse" in repr(l):
            return True  # the same enumeration member
        for a, b in ((l, r), (r, l)):
            if isinstance(a, ObjV) and a.oid == "registered_plain_str" and "SupportsResponse.ONLY" in repr(b):
                return True
            if isinstance(a, ObjV) and a.oid == "registered_plain_str" and "SupportsResponse" in repr(b):
                return False
        return None


def response_only_rule(ctx, program, rid):
    uid = "function.py::Function.hass_services_async_call"
    for label, reg in (("registered with the enum member (new subsystem)", None), ("registered with the plain string 'only' (legacy subsystem)", ObjV("registered_plain_str", "str"))):
        def supports(i, n, a, k, c, o, reg=reg):
            if reg is not None:
                return [(c, reg)]
            return [(c, i.ev(ast.parse("SupportsResponse.ONLY", mode="eval").body, c, o)[0][1])]

        pol = _EnumStrPolicy(program, may_raise_all=False, cancel=False, events=["cls.hass.services.async_call"], summaries={"cls.hass.services.supports_response": supports})
        out = run_flow(program, uid, pol, args={"cls": ClassV("Function"), "domain": Const("d"), "service": Const("s"), "kwargs": DictV([]), "hass_args": DictV([])})
        ex = exits(out)
        bad = None
        for k, c, d in ex:
            calls = [e for e in c.trace if e[0] == "call" and e[1] == "cls.hass.services.async_call"]
            kw = dict(calls[0][3]) if calls else {}
            # (**hass_args reaches the call as the final value of the dictionary)
            ha = c.env.get("hass_args")
            got = dict((kk.v, vv) for kk, vv in ha.items) if isinstance(ha, DictV) else kw
            if k != "return" or len(calls) != 1:
                bad = f"exits {d} with {len(calls)} call(s)"
            elif got.get("return_response") != Const(True) or got.get("blocking") != Const(True):
                bad = f"the call is made with options { {kk: repr(vv) for kk, vv in got.items()} }: the response is not requested, the script gets None instead of the function's result"
        ctx.check(bool(ex) and bad is None, rid, uid, f"response-only service {label}", msg=f"script call of a response-only service {label}: {bad or 'no exit'}", key=f"response only {label[:30]}",
                  node=program.func(uid), rel="function.py")


def builtin_name_table(ctx, program, rid, names=None):
    """Both subsystems' @service validation interpreted on names that Home Assistant would file under the integration's own services (it lower-cases service names)."""
    from .c08 import legacy_grouping_table  # noqa: F401  (same harness conventions)
    glob = {"TRIG_SERV_DECORATORS": ListV(tuple(Const(x) for x in ("service", "state_trigger", "event_trigger", "time_trigger", "mqtt_trigger", "webhook_trigger", "state_active",
                                                                   "time_active", "task_unique")), "set"),
            "DOMAIN": Const("pyscript"), "SERVICE_RELOAD": Const("reload"), "SERVICE_JUPYTER_KERNEL_START": Const("jupyter_kernel_start")}
    for name, conflicts in names or (("pyscript.reload", True), ("pyscript.Reload", True), ("pyscript.JUPYTER_KERNEL_START", True), ("pyscript.reload2", False), ("other.fine", False)):
        # legacy
        luid = "eval.py::EvalFunc.trigger_init"
        pol = FlowPolicy(program, events=["Function.service_register"], may_raise_all=False, cancel=False, globals_=glob,
                         summaries={"trig_ctx.get_name": lambda i, n, a, k, c, o: [(c, Const("file.x"))], "trig_ctx.trigger_register": lambda i, n, a, k, c, o: [(c, Const(False))],
                                    "async_set_service_schema": lambda i, n, a, k, c, o: [(c, Const(None))], "self.global_ctx.set_logger_name": lambda i, n, a, k, c, o: [(c, Const(None))],
                                    "logging.getLogger": lambda i, n, a, k, c, o: [(c, Sym(("logger",)))]})
        pol.loop_unroll = 3
        dl = ListV((ListV((Const("service"), ListV((Const(name),), "list"), Const(None)), "list"),), "list")
        heap = {"self.trigger_service": ListV((), "set"), "self.trigger": ListV((), "list"), "self.decorators": dl, "self.doc_string": Const("doc"), "self.global_ctx": ObjV("g", "GlobalContext")}
        ex = exits(run_flow(program, luid, pol, args={"self": ObjV("self", "EvalFunc"), "trig_ctx": ObjV("tctx", "GlobalContext"), "func_name": Const("f")}, heap=heap))
        regs = sum(1 for k, c, d in ex for e in c.trace if e[0] == "call" and e[1] == "Function.service_register")
        refused = bool(ex) and all(k == "raise" for k, c, d in ex) and regs == 0
        ctx.check(refused == conflicts, rid, luid, f"legacy @service('{name}')",
                  msg=f"legacy @service('{name}'): " + ("accepted and registered" if not refused else "refused") + f", specified {'refused' if conflicts else 'accepted'}: Home Assistant lower-cases "
                  "service names, so this name replaces the integration's own service (and removing the function removes the built-in)", key=f"builtin name legacy {name}", node=program.func(luid), rel="eval.py")
        # new subsystem
        nuid = "decorators/service.py::ServiceDecorator.validate"
        pol2 = FlowPolicy(program, may_raise_all=False, cancel=False, globals_=glob,
                          summaries={"super().validate": lambda i, n, a, k, c, o: [(c, Const(None))], "ast.get_docstring": lambda i, n, a, k, c, o: [(c, Const("doc"))],
                                     "typing.cast": lambda i, n, a, k, c, o: [(c, a[1] if len(a) > 1 else Const(None))]})
        pol2.loop_unroll = 3
        heap2 = {"self.args": ListV((Const(name),), "list"), "self.dm": ObjV("dm", "FunctionDecoratorManager"), "dm.func_name": Const("f"), "dm.eval_func": ObjV("ef", "EvalFunc"),
                 "ef.func_def": ObjV("fd", "FunctionDef"), "fd.name": Const("f")}
        ex2 = exits(run_flow(program, nuid, pol2, args={"self": ObjV("self", "ServiceDecorator")}, heap=heap2))
        refused2 = bool(ex2) and all(k == "raise" and getattr(c.env.get("$exc"), "cls", "") == "SyntaxError" for k, c, d in ex2)
        accepted2 = bool(ex2) and all(k == "return" for k, c, d in ex2)
        ctx.check((refused2 if conflicts else accepted2), rid, nuid, f"new subsystem @service('{name}')",
                  msg=f"new subsystem @service('{name}'): exits {[d for k, c, d in ex2]}, specified {'refused (SyntaxError)' if conflicts else 'accepted'}", key=f"builtin name new {name}",
                  node=program.func(nuid), rel="decorators/service.py")
