"""C07 - @state_active / @time_active / hold_off gate every trigger correctly (structural clauses)."""

from __future__ import annotations

import ast
import datetime as dt
import itertools

from ..absint import NONE, App, Cfg, ClassV, Const, DictV, ExcV, ListV, ObjV, Sym
from ..flow import FlowPolicy, exits, run_flow
from ..repo import AnalysisError, body_walk, call_name, norm, short

LEVEL_TEXT = (
    "decides structural clauses of C07, not calendar arithmetic: the window predicate of timer_active_check is the "
    "inclusive interval (wrapping when the end precedes the start) and the combination is '(no positive spec or some "
    "positive matches) and no negated spec matches' for every list of up to three positive/negated range()/cron() "
    "entries over all orderings of start, end and the evaluation instant; both subsystems apply that function to the "
    "decorator's complete list; hold_off ignores exactly the occurrences closer than N seconds to the reference time; "
    "the reference time is written only on acceptance; guards are reached only through the dispatch paths and "
    "@state_active is evaluated on the triggering event's values"
    "; the reference-date argument of every range end is the range start (dated starts with time-only ends); @state_active accepts exactly on Python truth of any value in both subsystems and is evaluated on the occurrence's own values; the legacy loop judges a queued occurrence at a clock reading made after it arrived"
    '; @time_active checks the wall-clock instant of a time trigger and the current time for every other trigger type; the guards of a function are asked and the acceptance recorded under one lock; weekday ranges match from their start day to their end day'
    "; guards are still consulted for an occurrence dispatched during stop(); attributes of the occurrence's entity are read from its own value"
)
LEVEL_NOTE = "date/time parsing and croniter are summarised by abstract instants (their arithmetic is not decided); instants are concrete datetimes on a small grid"
TECHNIQUE = "abstract interpretation of timer_active_check / TimeActiveDecorator.handle_dispatch on an exhaustive finite model of instants and spec lists (truth-table comparison), who-may-call, def-use of guard inputs"

TAC = "trigger.py::TrigTime.timer_active_check"
INSTANTS = [0, 1, 2, 3, 4, 1440 + 0, 1440 + 2, 1440 + 4, 2880 + 2]
T0 = dt.datetime(2024, 1, 1, 12, 0, 0)


def _t(i):
    return T0 + dt.timedelta(minutes=i)


def _summaries():
    def parse_date_time(interp, node, args, kwargs, cfg, out):
        tok = args[0].v if isinstance(args[0], Const) else None
        ref = args[2].v if len(args) > 2 and isinstance(args[2], Const) and isinstance(args[2].v, dt.datetime) else None
        if tok is None or ref is None or _resolve_tok(tok, 0) is None:
            return [(cfg, ListV([Sym(("time", repr(args[0]))), Const(False)], "tuple"))]
        # a time-only entry ("t3") denotes that time on the day of the reference instant; "d1t3" carries its own date
        return [(cfg, ListV([Const(_t(_resolve_tok(tok, (ref - T0).days))), Const(False)], "tuple"))]

    def cron_match(interp, node, args, kwargs, cfg, out):
        return [(cfg, Const(isinstance(args[0], Const) and args[0].v == "yes"))]

    return {"cls.parse_date_time": parse_date_time, "croniter.match": cron_match, "croniter.is_valid": lambda i, n, a, k, c, o: [(c, Const(True))]}


def _resolve_tok(tok, ref_day):
    """Minutes since T0 denoted by a model token: 't<N>' = minute N of the reference day, 'd<K>t<N>' = minute N of day K."""
    try:
        if tok.startswith("d"):
            k, n = tok[1:].split("t")
            return int(k) * 1440 + int(n)
        if tok.startswith("t"):
            return ref_day * 1440 + int(tok[1:])
    except ValueError:
        return None
    return None


def _spec_matches(spec, now):
    neg = spec.startswith("not ")
    body = spec[4:] if neg else spec
    if body.startswith("cron("):
        m = body == "cron(yes)"
    else:
        a, b = body[6:-1].split(", ")
        a = _resolve_tok(a, now // 1440)          # the start is read relative to the current instant
        b = _resolve_tok(b, a // 1440)            # the end relative to the start (documented: "the end is relative to the start")
        m = (a <= now <= b) if a <= b else (now >= a or now <= b)
    return neg, m


def _reference(specs, now):
    pos = [m for neg, m in map(lambda s: _spec_matches(s, now), specs) if not neg]
    negs = [m for neg, m in map(lambda s: _spec_matches(s, now), specs) if neg]
    return (not pos or any(pos)) and not any(negs)


def _run_tac(program, specs, now):
    pol = FlowPolicy(program, may_raise_all=False, cancel=False, summaries=_summaries())
    pol.loop_unroll = 4
    arg = ListV([Const(s) for s in specs]) if len(specs) != 1 else Const(specs[0])
    from .c06 import DOW
    from ..absint import DictV as _DictV
    heap = {"TrigTime.dow2int": _DictV([(Const(k), Const(v)) for k, v in DOW.items()])}  # day-of-week names (the model's tokens are none of them)
    out = run_flow(program, TAC, pol, args={"cls": ClassV("TrigTime"), "time_spec": arg, "now": Const(_t(now)), "startup_time": Const(_t(0))}, heap=heap)
    return sorted({repr(c.env.get("$ret")) for c in out.get("return")} | {f"raise {getattr(c.env.get('$exc'), 'cls', '?')}" for c in out.get("raise")})


def guards_during_stop_rule(ctx, program, rid):
    from ..absint import Sym
    uid = "decorator_abc.py::DecoratorManager.stop"
    decs = ListV((ObjV("time_trigger", "TimeTriggerDecorator"), ObjV("state_active", "StateActiveDecorator"), ObjV("time_active", "TimeActiveDecorator")), "list")
    seen = []

    def stop_dec(i, n, a, k, c, o):
        seen.append((a[0] if a else c.env.get("decorator"), c.heap.get("self._decorators"), c.heap.get("self.status")))
        return [(c, NONE)]

    pol = FlowPolicy(program, may_raise_all=False, cancel=False, summaries={"self._stop_decorator": stop_dec},
                     inline={"DecoratorManager.update_status", "self.update_status", "self.get_decorators", "DecoratorManager.get_decorators"})
    pol.loop_unroll = 5
    heap = {"self._decorators": decs, "self.status": Sym(("clsattr", "DecoratorManagerStatus", "RUNNING")), "self.name": Const("f")}
    out = run_flow(program, uid, pol, args={"self": ObjV("self", "DecoratorManager")}, heap=heap)
    ex = exits(out)
    bad = None
    if not ex or any(k != "return" for k, c, d in ex):
        bad = f"stop() ends {[d for k, c, d in ex]}"
    elif sorted(repr(x[0]) for x in seen) != sorted(repr(d) for d in decs.items):
        bad = f"decorators stopped: {[repr(x[0]) for x in seen]}"
    else:
        for dec, lst, st in seen:
            have = list(lst.items) if isinstance(lst, ListV) else []
            missing = [repr(d) for d in decs.items[1:] if d not in have]
            if missing:
                bad = (f"while {dec!r} is being stopped (a time trigger dispatches its 'shutdown' occurrence there) the manager's decorator list is {have!r}: the guards {missing} are gone, "
                       f"so the shutdown run is not judged by them")
                break
    ctx.check(bad is None, rid, uid, "guards present while the triggers are being stopped", msg=f"DecoratorManager.stop: {bad}", key="guards during stop", node=program.func(uid), rel="decorator_abc.py")


def weekday_range_grid(ctx, program, rid):
    import datetime as _dt
    from ..absint import FuncV, DictV
    from .c06 import DOW
    glob = {"parse_time_offset": FuncV(program.func("trigger.py::parse_time_offset"), name="parse_time_offset")}
    heap = {"TrigTime.dow2int": DictV([(Const(k), Const(v)) for k, v in DOW.items()])}
    # 2024-09-06 is a Friday
    cases = [("range(fri 18:00, mon 6:00)", _dt.datetime(2024, 9, 6, 17, 0), False), ("range(fri 18:00, mon 6:00)", _dt.datetime(2024, 9, 6, 19, 0), True),
             ("range(fri 18:00, mon 6:00)", _dt.datetime(2024, 9, 7, 12, 0), True), ("range(fri 18:00, mon 6:00)", _dt.datetime(2024, 9, 8, 23, 0), True),
             ("range(fri 18:00, mon 6:00)", _dt.datetime(2024, 9, 9, 5, 0), True), ("range(fri 18:00, mon 6:00)", _dt.datetime(2024, 9, 9, 7, 0), False),
             ("range(fri 18:00, mon 6:00)", _dt.datetime(2024, 9, 11, 12, 0), False), ("not range(fri 18:00, mon 6:00)", _dt.datetime(2024, 9, 7, 12, 0), False),
             ("range(sat 0:00, sun 23:59)", _dt.datetime(2024, 9, 8, 12, 0), True), ("range(sat 0:00, sun 23:59)", _dt.datetime(2024, 9, 9, 12, 0), False)]
    for spec, now, want in cases:
        pol = FlowPolicy(program, may_raise_all=False, cancel=False, inline={"parse_time_offset", "cls.parse_date_time", "TrigTime.parse_date_time"}, globals_=glob)
        pol.loop_unroll = 6
        out = run_flow(program, TAC, pol, args={"cls": ClassV("TrigTime"), "time_spec": Const(spec), "now": Const(now), "startup_time": Const(now - _dt.timedelta(days=30))}, heap=heap)
        got = sorted({repr(c.env.get("$ret")) for c in out.get("return")} | {f"raise {getattr(c.env.get('$exc'), 'cls', '?')}" for c in out.get("raise")})
        ctx.check(got == [repr(Const(want))], rid, TAC, f"{spec} on {now:%a %Y-%m-%d %H:%M}",
                  msg=f"timer_active_check({spec!r}) on {now:%A %Y-%m-%d %H:%M} gives {got}, the specification says {want}: a weekday in a range is read as the NEXT such day, so the range only "
                  f"matches on the weekday of its start", key=f"weekday range {spec} @ {now:%a %H:%M}", node=program.func(TAC), rel="trigger.py")


def guard_atomicity_rule(ctx, program, rid):
    uid = "decorator.py::FunctionDecoratorManager.dispatch"
    fn = program.func(uid)
    cls = program.cls("decorator.py::FunctionDecoratorManager")
    locks = set()
    for n in ast.walk(cls):
        val = getattr(n, "value", None)
        if isinstance(n, (ast.Assign, ast.AnnAssign)) and isinstance(val, ast.Call) and (call_name(val) or "").endswith("Lock"):
            for t in (n.targets if isinstance(n, ast.Assign) else [n.target]):
                locks.add(norm(t).replace("self.", ""))
    # dispatch and the methods of the manager it calls (a helper extracted from it is part of the dispatch path)
    unit = program.unit(uid)
    scope = [fn]
    sites = {}  # helper definition -> its call sites inside the scope
    for g in scope:
        for n in body_walk(g):
            if isinstance(n, ast.Call) and isinstance(n.func, ast.Attribute) and isinstance(n.func.value, ast.Name) and n.func.value.id == "self":
                hu = program.resolve_callable(unit, n.func)
                if hu is not None and isinstance(hu.node, (ast.FunctionDef, ast.AsyncFunctionDef)):
                    sites.setdefault(id(hu.node), []).append((g, n))
                    if not any(hu.node is x for x in scope) and len(scope) < 8:
                        scope.append(hu.node)
    asks = [(g, n) for g in scope for n in body_walk(g) if isinstance(n, ast.Call) and (call_name(n) or "").endswith(".handle_dispatch")]
    recs = [(g, n) for g in scope for n in body_walk(g) if isinstance(n, ast.Call) and (call_name(n) or "").endswith(".dispatch_accepted")]
    if not asks or not recs:
        raise AnalysisError("FunctionDecoratorManager.dispatch: guard calls not found")

    def holder(gn, depth=0):
        g, n = gn
        p = getattr(n, "_parent", None)
        while p is not None and p is not g:
            if isinstance(p, ast.AsyncWith):
                for i in p.items:
                    nm = norm(i.context_expr).replace("self.", "")
                    if isinstance(i.context_expr, ast.Name):
                        for a in body_walk(g):
                            if isinstance(a, ast.Assign) and any(isinstance(t, ast.Name) and t.id == i.context_expr.id for t in a.targets):
                                nm = norm(a.value).replace("self.", "")
                    if nm in locks:
                        return p
            p = getattr(p, "_parent", None)
        if g is not fn and depth < 4:
            # not locked inside the helper: locked if every call of the helper on the dispatch path is made under one lock
            hs2 = {holder(cs, depth + 1) for cs in sites.get(id(g), [])}
            if len(hs2) == 1:
                return next(iter(hs2))
        return None

    hs = {id(holder(n)) if holder(n) is not None else None for n in asks + recs}
    asks, recs = [n for _, n in asks], [n for _, n in recs]
    ctx.check(None not in hs and len(hs) == 1, rid, uid, "guards are asked and the acceptance recorded under one lock",
              msg=f"FunctionDecoratorManager.dispatch asks the guards ({short(asks[0])}) and records the acceptance ({short(recs[0])}) without holding a common lock (locks of the class: "
              f"{sorted(locks) or 'none'}): two occurrences arriving back to back both pass @time_active(hold_off=N) while the first is suspended in a guard, and the function runs twice",
              key="guard check/record atomic", node=asks[0], rel="decorator.py")


def occurrence_time_rule(ctx, program, rid):
    import datetime as _dt
    uid = "decorators/timing.py::TimeActiveDecorator.handle_dispatch"
    CLOCK = Const(_dt.datetime(2024, 5, 1, 12, 0, 0))
    GIVEN = Const(_dt.datetime(2024, 5, 1, 8, 30, 0))
    cases = [("time trigger at its instant", {"trigger_type": Const("time"), "trigger_time": GIVEN}, GIVEN),
             ("time trigger at start-up (trigger_time is the word 'startup')", {"trigger_type": Const("time"), "trigger_time": Const("startup")}, CLOCK),
             ("event whose payload has a trigger_time key", {"trigger_type": Const("event"), "event_type": Const("e"), "trigger_time": GIVEN}, CLOCK),
             ("state trigger with kwargs={'trigger_time': ...}", {"trigger_type": Const("state"), "var_name": Const("d.e"), "trigger_time": GIVEN}, CLOCK),
             ("event without trigger_time", {"trigger_type": Const("event"), "event_type": Const("e")}, CLOCK)]
    for label, fa, want in cases:
        seen = []

        def active(i, n, a, k, c, o, seen=seen):
            seen.append(a[1] if len(a) > 1 else None)
            return [(c, Const(True))]

        pol = FlowPolicy(program, may_raise_all=False, cancel=False, summaries={"trigger.TrigTime.timer_active_check": active, "dt_now": lambda i, n, a, k, c, o: [(c, CLOCK)],
                                                                               "time.monotonic": lambda i, n, a, k, c, o: [(c, Const(1000.0))]})
        heap = {"self.args": ListV((Const("range(8:00, 9:00)"),), "list"), "self.hold_off": NONE, "self.last_trig_time": Const(0.0), "self.dm": ObjV("dm", "FunctionDecoratorManager"),
                "dm.startup_time": Const(_dt.datetime(2024, 5, 1, 0, 0, 0)), "data.func_args": DictV([(Const(k), v) for k, v in fa.items()])}
        out = run_flow(program, uid, pol, args={"self": ObjV("self", "TimeActiveDecorator"), "data": ObjV("data", "DispatchData")}, heap=heap)
        ex = exits(out)
        ok = bool(ex) and all(k == "return" for k, c, d in ex) and seen and all(x == want for x in seen)
        ctx.check(ok, rid, uid, f"occurrence time: {label}", msg=f"@time_active, {label}: the specification is checked at {sorted(set(map(repr, seen)))} (exits {[d for k, c, d in ex]}), the occurrence time is {want!r}: "
                  f"whoever fires the event (or writes the kwargs) decides whether the function is inside its allowed time range", key=f"occurrence time {label}", node=program.func(uid), rel="decorators/timing.py")


def run(ctx):
    program = ctx.program
    ranges = ["range(t1, t3)", "range(t3, t1)", "range(t2, t2)", "range(d1t1, t3)", "range(d1t3, t1)"]
    atoms = ranges + ["cron(yes)", "cron(no)"]
    entries = atoms + ["not " + a for a in atoms]

    ctx.rule("R07.1", "timer_active_check: inclusive window (wrap-around when end < start), combination '(no positive or any positive) and no negated match'", floor=100)
    lists = [[e] for e in entries] + [list(p) for p in itertools.permutations(entries, 2)]
    lists += [["range(t1, t3)", "not range(t2, t2)", "cron(no)"], ["not range(t2, t2)", "range(t1, t3)", "cron(no)"], ["cron(no)", "not cron(no)", "range(t3, t1)"]]
    for specs in lists:
        bad = None
        for now in INSTANTS:
            got = _run_tac(program, specs, now)
            exp = [repr(Const(_reference(specs, now)))]
            if got != exp:
                bad = f"at instant day {now // 1440} minute {now % 1440}: result {got}, specified {exp}"
                break
        ctx.check(bad is None, "R07.1", TAC, f"specs {specs} at {len(INSTANTS)} instants on days 0..2", msg=f"timer_active_check({specs}) {bad}", key=f"active check {specs}", node=program.func(TAC), rel="trigger.py")

    ctx.rule("R07.3", "every caller hands timer_active_check the decorator's complete specification list (mixed positive/negated lists decided as a whole)", floor=8)
    # legacy call site
    tw = program.func("trigger.py::TrigInfo.trigger_watch")
    calls = [n for n in body_walk(tw) if isinstance(n, ast.Call) and call_name(n) == "TrigTime.timer_active_check"]
    from ..repo import deref_local
    ctx.check(len(calls) == 1 and norm(deref_local(tw, calls[0].args[0])) == "self.time_active", "R07.3", "trigger.py::TrigInfo.trigger_watch", "legacy passes self.time_active",
              msg=f"trigger_watch calls timer_active_check with {[norm(c.args[0]) for c in calls]}", key="legacy whole list", node=tw, rel="trigger.py")
    hd = "decorators/timing.py::TimeActiveDecorator.handle_dispatch"
    for specs in (["range(t1, t3)", "not range(t2, t2)"], ["not range(t2, t2)", "range(t1, t3)"], ["range(t1, t1)", "range(t3, t3)"], ["not cron(no)", "not range(t2, t2)"],
                  ["cron(no)", "not cron(no)"], ["range(t1, t3)"], ["not range(t1, t3)"], []):
        bad = None
        for now in range(0, 5):
            got = _run_dispatch(program, hd, specs, now)
            exp = [repr(Const(_reference(specs, now)))]
            if got != exp:
                bad = f"at instant t{now}: guard returns {got}, specified {exp}"
                break
        ctx.check(bad is None, "R07.3", hd, f"@time_active{tuple(specs)} decided as a whole", msg=f"@time_active{tuple(specs)} (new subsystem) {bad}: entries are not combined as one specification",
                  key=f"new time_active {specs}", node=program.func(hd), rel="decorators/timing.py")

    ctx.rule("R07.4", "hold_off: occurrences less than N seconds after the reference time are ignored (strict), the reference time is written only on acceptance", floor=4)
    # legacy: the loop on scripted histories (hold_off = 10 s)
    from .c05 import legacy_run
    T = ("note", True, True, True)
    for label, script, monos, want in (
        ("an occurrence 5 s after an accepted one is ignored, one 10 s after is accepted", [T, T, T], [100.0, 105.0, 110.0], [1, 3]),
        ("strict threshold: 9.999 s ignored, exactly 10 s accepted", [T, T, T], [100.0, 109.999, 110.0], [1, 3]),
        ("an occurrence rejected by @state_active does not restart the interval", [T + (True,), T + (False,), T + (True,)], [100.0, 105.0, 111.0], [1, 3]),
        ("an occurrence ignored by hold_off does not restart the interval", [T, T, T], [100.0, 106.0, 112.0], [1, 3]),
        ("the first occurrence is never held off", [T], [5.0], [1]),
    ):
        got = legacy_run(program, "trigger.py::TrigInfo.trigger_watch", script, None, None, monos, hold_off=10.0)
        runs = {tuple(ph for ph, _ in r) for _, r in got}
        ctx.check(runs == {tuple(want)}, "R07.4", "trigger.py::TrigInfo.trigger_watch", f"legacy hold_off: {label}",
                  msg=f"legacy trigger_watch with hold_off=10, occurrences at {monos}: runs after history items {sorted(runs)}, specified {[tuple(want)]}", key=f"legacy hold_off {label}", node=tw, rel="trigger.py")
    for last, hold, now, ignored in ((100.0, 10.0, 109.0, True), (100.0, 10.0, 110.0, False), (100.0, 10.0, 111.0, False), (0.0, 10.0, 5.0, False), (100.0, 0.0, 100.0, False), (100.0, None, 100.5, False)):
        got = _run_dispatch(program, hd, [], 0, last=last, hold=hold, mono=now)
        exp = [repr(Const(not ignored))]
        ctx.check(got == exp, "R07.4", hd, f"hold_off={hold} last={last} now={now}", msg=f"@time_active(hold_off={hold}) with last accepted at {last} and occurrence at {now}: guard returns {got}, specified {exp}",
                  key=f"new hold_off {hold}/{last}/{now}", node=program.func(hd), rel="decorators/timing.py")
    # new subsystem: dispatch through two guards; the reference time moves exactly when every guard accepted
    dsp_uid = "decorator.py::FunctionDecoratorManager.dispatch"
    for other_accepts in (True, False):
        for ta_first in (True, False):
            ta, sa = ObjV("ta", "TimeActiveDecorator"), ObjV("sa", "StateActiveDecorator")
            guards = ListV((ta, sa) if ta_first else (sa, ta), "list")
            class _GuardPolicy(FlowPolicy):
                def call(self, interp, node, fname, fval, args, kwargs, cfg, out, v=other_accepts):
                    from ..absint import FuncV
                    if isinstance(fval, FuncV) and isinstance(fval.recv, ObjV) and fval.recv.oid == "sa":
                        return [(cfg, Const(v) if fval.name.endswith("handle_dispatch") else Const(None))]
                    return super().call(interp, node, fname, fval, args, kwargs, cfg, out)

            pol = _GuardPolicy(program, may_raise_all=False, cancel=False, events=["Function.create_task"],
                               inline={"TimeActiveDecorator.handle_dispatch", "TimeActiveDecorator.dispatch_accepted", "dec.handle_dispatch", "dec.dispatch_accepted"},
                               summaries={"self.get_decorators": lambda i, n, a, k, c, o, guards=guards: [(c, guards)], "time.monotonic": lambda i, n, a, k, c, o: [(c, Const(500.0))]})
            pol.loop_unroll = 3
            heap = {"ta.args": ListV((), "list"), "ta.hold_off": Const(10.0), "ta.last_trig_time": Const(100.0), "self.name": Const("f"), "data.func_args": DictV(())}
            out = run_flow(program, dsp_uid, pol, args={"self": ObjV("self", "FunctionDecoratorManager"), "data": ObjV("data", "DispatchData")}, heap=heap)
            res = {(sum(1 for e in c.trace if e[0] == "call" and e[1] == "Function.create_task"), repr(c.heap.get("ta.last_trig_time"))) for k, c, d in exits(out)}
            want = {(1, repr(Const(500.0)))} if other_accepts else {(0, repr(Const(100.0)))}
            ctx.check(res == want, "R07.4", dsp_uid, f"new: other guard {'accepts' if other_accepts else 'rejects'}, @time_active listed {'first' if ta_first else 'second'}",
                      msg=f"dispatch at t=500 through @time_active(hold_off=10, last accepted 100) and a @state_active that {'accepts' if other_accepts else 'rejects'}: (runs, reference time) = {sorted(res)}, "
                      f"specified {sorted(want)}: a rejected occurrence must not restart the hold_off interval", key=f"new hold_off reference {other_accepts} {ta_first}",
                      node=program.func(dsp_uid), rel="decorator.py")

    ctx.rule("R07.7", "the occurrence time a time trigger hands to the guards is the wall-clock instant", floor=3)
    from .c06 import trigger_time_rule
    trigger_time_rule(ctx, program, "R07.7")
    # (that @time_active is evaluated at that instant is decided by interpretation: R07.12, first case)

    ctx.rule("R07.12", "new subsystem @time_active: the occurrence time is the wall-clock instant of a time trigger, and the current time for every other trigger type - a "
             "'trigger_time' key in an event's payload or in the trigger's kwargs= does not choose the time that is checked", floor=4)
    occurrence_time_rule(ctx, program, "R07.12")
    ctx.rule("R07.13", "new subsystem: check-then-record of the guards is atomic per function - every occurrence is dispatched in a task of its own and a guard may suspend "
             "(sunrise/sunset lookup, expressions calling functions), so asking the guards and recording the acceptance (hold_off reference) happen under one lock held by the manager", floor=1)
    guard_atomicity_rule(ctx, program, "R07.13")
    ctx.rule("R07.14", "range() with days of the week on concrete calendars: an instant is inside range(fri 18:00, mon 6:00) exactly from Friday 18:00 to the following Monday 6:00 "
             "(timer_active_check with the date parser inlined)", floor=8)
    weekday_range_grid(ctx, program, "R07.14")
    ctx.rule("R07.15", "new subsystem: while a manager stops its decorators its guards are still in place - the 'shutdown' occurrence a time trigger dispatches from inside its "
             "stop() is judged by @state_active / @time_active like any other occurrence", floor=1)
    guards_during_stop_rule(ctx, program, "R07.15")
    ctx.rule("R07.5", "guards run only on the dispatch paths: never from direct calls of the function", floor=2)
    callers = set()
    for u in program.functions():
        for n in body_walk(u.node):
            if isinstance(n, ast.Call) and isinstance(n.func, ast.Attribute) and n.func.attr == "handle_dispatch":
                callers.add(u.uid)
    # (a helper that only dispatch calls is part of the dispatch path)
    callers = {c if not program.only_reached_from(c, {"decorator.py::FunctionDecoratorManager.dispatch"}) else "decorator.py::FunctionDecoratorManager.dispatch" for c in callers}
    ctx.check(callers == {"decorator.py::FunctionDecoratorManager.dispatch"}, "R07.5", "decorator.py::FunctionDecoratorManager.dispatch", "handle_dispatch called only from dispatch",
              msg=f"guard decorators are invoked from {sorted(callers)}", key="callers of handle_dispatch", rel="decorator.py", node=program.func("decorator.py::FunctionDecoratorManager.dispatch"))
    call = program.func("eval.py::EvalFunc.call")
    names = {n.attr for n in body_walk(call) if isinstance(n, ast.Attribute)} | {n.id for n in body_walk(call) if isinstance(n, ast.Name)}
    ctx.check(not ({"trigger", "dm_decorators", "handle_dispatch", "active_expr", "time_active"} & names), "R07.5", "eval.py::EvalFunc.call", "direct calls never consult guards",
              msg="EvalFunc.call refers to trigger/guard state: direct calls of a function must not be gated", key="call is guard free", node=call, rel="eval.py")

    ctx.rule("R07.6", "@state_active is evaluated on the triggering event's values (new_vars incl. .old), in both subsystems", floor=7)
    hd_uid = "decorators/state.py::StateActiveDecorator.handle_dispatch"
    f = program.func(hd_uid)
    for has_vars in (True, False):
        nv = DictV([(Const("d.e"), Const("new")), (Const("d.e.old"), Const("old"))])
        seen = {"varget": [], "expr": []}

        def varget(i, n, a, k, c, o, seen=seen):
            seen["varget"].append(tuple(a))
            return [(c, DictV([(Const("$from"), a[1] if len(a) > 1 else NONE)]))]

        def expr(i, n, a, k, c, o, seen=seen):
            seen["expr"].append(tuple(a))
            return [(c, Const(True))]

        pol = FlowPolicy(program, may_raise_all=False, cancel=False, summaries={"State.notify_var_get": varget, "self.check_expression_vars": expr})
        heap = {"data.trigger_context": DictV([(Const("new_vars"), nv)] if has_vars else []), "self.var_names": ListV((Const("d.e"),), "set")}
        run_flow(program, hd_uid, pol, args={"self": ObjV("self", "StateActiveDecorator"), "data": ObjV("data", "DispatchData")}, heap=heap)
        want_vars = nv if has_vars else DictV([])
        ok = len(seen["varget"]) == 1 and len(seen["varget"][0]) > 1 and seen["varget"][0][1] == want_vars and len(seen["expr"]) == 1 \
            and isinstance(seen["expr"][0][0], DictV) and seen["expr"][0][0].get(Const("$from")) == want_vars
        ctx.check(ok, "R07.6", hd_uid, f"new: evaluated on the dispatch's new_vars ({'state occurrence' if has_vars else 'other source'})",
                  msg=f"StateActiveDecorator.handle_dispatch collects values from {[repr(v[1]) if len(v) > 1 else None for v in seen['varget']]} and evaluates on {[repr(e[0]) for e in seen['expr']]}; "
                  f"the occurrence carries {want_vars!r}", key=f"new state_active inputs {has_vars}", node=f, rel="decorators/state.py")
    st = program.cls("decorators/state.py::StateTriggerDecorator")
    disp = [n for n in ast.walk(st) if isinstance(n, ast.Call) and call_name(n) == "DispatchData"]
    ok = bool(disp) and all(any(k.arg == "trigger_context" and isinstance(k.value, ast.Dict) and any(isinstance(x, ast.Constant) and x.value == "new_vars" for x in k.value.keys)
                                 for k in d.keywords) for d in disp)
    ctx.check(ok, "R07.6", "decorators/state.py::StateTriggerDecorator", "state trigger dispatches carry the event's new_vars", msg="a state trigger dispatch no longer passes trigger_context={'new_vars': ...}",
              key="dispatch carries new_vars", node=st, rel="decorators/state.py")
    from ..legacy import KINDS, WATCH, watch_occurrence
    for kind in KINDS:
        recs, occ, occ_vars = watch_occurrence(program, kind, filter_value=None if kind == "time" else True, active_value=True)
        bad = None if recs else "no exit"
        for r in recs:
            vg = [v[1] for v in r["var_get"] if len(v) > 1]
            ai = [a[0] for a in r["active_inputs"] if a]
            if vg != [occ_vars]:
                bad = f"the values for @state_active are collected from {vg!r}; the occurrence carries {occ_vars!r} (new value and .old)"
            elif len(ai) != 1 or not isinstance(ai[0], DictV) or ai[0].get(Const("$from")) != occ_vars:
                bad = f"@state_active is evaluated on {ai!r} instead of the values collected for this occurrence"
            elif len(r["runs"]) != 1:
                bad = f"{len(r['runs'])} run(s) for an occurrence the guard accepts"
        ctx.check(bad is None, "R07.6", WATCH, f"legacy {kind} occurrence: @state_active evaluated on the occurrence's values",
                  msg=f"legacy trigger_watch, {kind} occurrence: {bad}", key=f"legacy state_active inputs {kind}", node=program.func(WATCH), rel="trigger.py")
    ctx.rule("R07.10", "a held run is judged by @state_active on the values of the event that started the hold (the same event whose arguments the function receives)", floor=2)
    from .c05 import hold_expiry_rule
    hold_expiry_rule(ctx, program, "R07.10")

    ctx.rule("R07.11", "values handed to @state_active: the occurrence's own values win over remembered ones; unknown names default to None", floor=40)
    from .c04 import var_get_table
    var_get_table(ctx, program, "R07.11")

    ctx.rule("R07.9", "legacy loop: an occurrence taken from the queue is judged by @time_active at a clock reading made after it arrived (time triggers: at their own instant)", floor=2)
    legacy_now_freshness(ctx, program, "R07.9")

    ctx.rule("R07.8", "@state_active lets an occurrence through exactly when its expression is truthy (Python truth of any value, not only the bool False), in both subsystems", floor=18)
    guard_truth_table(ctx, program, "R07.8")
    return (
        "Static, source-only: timer_active_check is abstractly interpreted for 113 spec lists x 5 instants with parse_date_time/croniter summarised by abstract instants; results are "
        "compared with the reference predicate.  TimeActiveDecorator.handle_dispatch is interpreted with timer_active_check inlined for mixed lists and for hold_off thresholds.  "
        "Who-may-call and def-use rules for guard reachability and inputs.  Not decided: cron field matching, sunrise/sunset, date parsing."
    )


def _run_dispatch(program, uid, specs, now, last=0.0, hold=0.0, mono=1000.0):
    summ = _summaries()
    summ["time.monotonic"] = lambda i, n, a, k, c, o: [(c, Const(mono))]
    summ["dt_now"] = lambda i, n, a, k, c, o: [(c, Const(_t(now)))]
    pol = FlowPolicy(program, may_raise_all=False, cancel=False, summaries=summ, inline={"trigger.TrigTime.timer_active_check", "TrigTime.timer_active_check"})
    pol.loop_unroll = 4
    pol.inline_depth = 2
    tac = program.func(TAC)
    from ..absint import FuncV
    pol.globals_ = {"trigger": Sym(("g", "trigger"))}
    orig_call = pol.call

    def call(interp, node, fname, fval, args, kwargs, cfg, out):
        if fname and fname.endswith("TrigTime.timer_active_check"):
            return interp.inline(node, FuncV(tac, recv=ClassV("TrigTime"), name="TrigTime.timer_active_check"), args, kwargs, cfg, out)
        return orig_call(interp, node, fname, fval, args, kwargs, cfg, out)

    pol.call = call
    heap = {"self.args": ListV([Const(s) for s in specs]), "self.hold_off": Const(hold), "self.last_trig_time": Const(last),
            "self.dm": ObjV("dm", "DecoratorManager"), "dm.startup_time": Const(_t(0))}
    data = ObjV("data", "DispatchData")
    heap["data.func_args"] = DictV(())
    out = run_flow(program, uid, pol, args={"self": ObjV("self", "TimeActiveDecorator"), "data": data}, heap=heap)
    return sorted({repr(c.env.get("$ret")) for c in out.get("return")} | {f"raise {getattr(c.env.get('$exc'), 'cls', '?')}" for c in out.get("raise")})


GUARD_VALUES = [Const(True), Const(False), Const(0), Const(1), Const(""), Const("on"), Const(None), Const(0.0), ListV((), "list")]


def guard_truth_table(ctx, program, rid):
    """@state_active decision table over expression values, new subsystem (dispatch + handle_dispatch) and legacy loop iteration."""
    uid = "decorator.py::FunctionDecoratorManager.dispatch"
    f = program.func(uid)
    for v in GUARD_VALUES:
        truthy = bool(v.v) if isinstance(v, Const) else len(v.items) > 0
        pol = FlowPolicy(program, may_raise_all=False, cancel=False, events=["Function.create_task"],
                         inline={"StateActiveDecorator.handle_dispatch", "ExpressionDecorator.check_expression_vars", "ExpressionDecorator.has_expression", "dec.handle_dispatch",
                                 "self.check_expression_vars", "self.has_expression"},
                         summaries={"self.get_decorators": lambda i, n, a, k, c, o: [(c, ListV((ObjV("sa", "StateActiveDecorator"),), "list"))],
                                    "self._ast_expression.eval": lambda i, n, a, k, c, o, v=v: [(c, v)],
                                    "State.notify_var_get": lambda i, n, a, k, c, o: [(c, DictV([]))]})
        heap = {"sa._ast_expression": ObjV("expr", "AstEval"), "sa.var_names": ListV((), "set"), "self.name": Const("f")}
        out = run_flow(program, uid, pol, args={"self": ObjV("self", "FunctionDecoratorManager"), "data": ObjV("data", "DispatchData")}, heap=heap)
        runs = {sum(1 for e in c.trace if e[0] == "call" and e[1] == "Function.create_task") for kind, c, desc in exits(out)}
        want = {1 if truthy else 0}
        ctx.check(runs == want, rid, uid, f"new subsystem: @state_active expression value {v!r}",
                  msg=f"new subsystem: a @state_active expression evaluating to {v!r} starts {sorted(runs)} run(s), specified {sorted(want)} (the legacy loop tests `not trig_ok`)",
                  key=f"new state_active value {v!r}", node=f, rel="decorator.py")
    uid = "trigger.py::TrigInfo.trigger_watch"
    f = program.func(uid)
    for v in GUARD_VALUES:
        truthy = bool(v.v) if isinstance(v, Const) else len(v.items) > 0
        note = ListV([Const("state"), ListV([DictV([(Const("d.e"), Sym(("newval",)))]), DictV([(Const("var_name"), Const("d.e"))])])], "tuple")

        def qget(interp, node, args, kwargs, cfg, out, note=note):
            seen = cfg.heap.get("$got", Const(0)).v
            if seen >= 1:
                out.add("raise", cfg.set("$exc", ExcV("CancelledError", "end of scenario")))
                return []
            return [(cfg.hset("$got", Const(seen + 1)), note)]

        summ = {"self.notify_q.get": qget, "ident_any_values_changed": lambda i, n, a, k, c, o: [(c, Const(True))],
                "ident_values_changed": lambda i, n, a, k, c, o: [(c, Const(True))], "State.notify_add": lambda i, n, a, k, c, o: [(c, Const(True))],
                "dt_now": lambda i, n, a, k, c, o: [(c, Sym(("now",)))], "self.active_expr.eval": lambda i, n, a, k, c, o, v=v: [(c, v)],
                "self.active_expr.get_names": lambda i, n, a, k, c, o: [(c, ListV((), "set"))], "State.notify_var_get": lambda i, n, a, k, c, o: [(c, DictV([]))]}
        pol = FlowPolicy(program, events=["self.call_action"], may_raise_all=False, cancel=False, summaries=summ)
        pol.loop_unroll = 3
        heap = {"self.state_trigger": ListV([Const("x")]), "self.state_user_watch": NONE, "self.state_trig_eval": NONE,
                "self.state_trig_ident_any": ListV((), "set"), "self.active_expr": ObjV("aexpr", "AstEval"), "self.event_trigger": NONE, "self.mqtt_trigger": NONE, "self.webhook_trigger": NONE,
                "self.state_check_now": Const(False), "self.state_hold_false": NONE, "self.state_hold": NONE, "self.run_on_startup": Const(False), "self.time_trigger": NONE,
                "self.have_trigger": Const(True), "self.time_active": NONE, "self.time_active_hold_off": NONE, "self.notify_q": ObjV("q", "Queue"),
                "self.state_trigger_kwargs": DictV(()), "self.name": Const("file.x.f"), "self.state_active_ident": ListV((), "set")}
        out = run_flow(program, uid, pol, args={"self": ObjV("self", "TrigInfo")}, heap=heap)
        runs = {sum(1 for e in c.trace if e[0] == "call" and e[1] == "self.call_action") for kind, c, desc in exits(out)}
        want = {1 if truthy else 0}
        ctx.check(runs == want, rid, uid, f"legacy: @state_active expression value {v!r}",
                  msg=f"legacy loop: a @state_active expression evaluating to {v!r} starts {sorted(runs)} run(s), specified {sorted(want)}",
                  key=f"legacy state_active value {v!r}", node=f, rel="trigger.py")


def legacy_now_freshness(ctx, program, rid):
    """One iteration of trigger_watch with an event notification, with and without a pending time trigger (the two wait branches)."""
    uid = "trigger.py::TrigInfo.trigger_watch"
    note = ListV([Const("event"), DictV([(Const("trigger_type"), Const("event"))])], "tuple")
    for timed in (False, True, "due"):
        def deliver(cfg, out, timed=timed):
            seen = cfg.heap.get("$got", Const(0)).v
            if seen >= 1:
                out.add("raise", cfg.set("$exc", ExcV("CancelledError", "end of scenario")))
                return []
            if timed == "due":
                # the wait for the pending time trigger runs out: the occurrence is the time trigger's own instant
                out.add("raise", cfg.hset("$got", Const(seen + 1)).emit(("call", "notification", (), (), 0)).set("$exc", ExcV("TimeoutError", "time trigger due")))
                return []
            return [(cfg.hset("$got", Const(seen + 1)).emit(("call", "notification", (), (), 0)), note)]

        def qget(interp, node, args, kwargs, cfg, out):
            if isinstance(getattr(node, "_parent", None), ast.Call):   # the coroutine handed to asyncio.wait_for(...)
                return [(cfg, Sym(("coro",)))]
            return deliver(cfg, out)

        def dtnow(interp, node, args, kwargs, cfg, out):
            n = cfg.heap.get("$clock", Const(0)).v + 1
            v = Sym(("clock", n))
            return [(cfg.hset("$clock", Const(n)).emit(("call", "clock", (v,), (), node.lineno)), v)]

        def tac(interp, node, args, kwargs, cfg, out):
            return [(cfg.emit(("call", "active_check", tuple(args), (), node.lineno)), Const(True))]

        summ = {"self.notify_q.get": qget, "asyncio.wait_for": lambda i, n, a, k, c, o: deliver(c, o), "dt_now": dtnow, "TrigTime.timer_active_check": tac,
                "TrigTime.timer_trigger_next": lambda i, n, a, k, c, o: [(c, ListV((Sym(("next",)), Sym(("adj",))), "tuple"))],
                "Event.notify_add": lambda i, n, a, k, c, o: [(c, Const(True))], "State.notify_add": lambda i, n, a, k, c, o: [(c, Const(True))]}
        pol = FlowPolicy(program, events=["self.call_action"], may_raise_all=False, cancel=False, summaries=summ)
        pol.loop_unroll = 3
        heap = {"self.state_trigger": NONE, "self.state_user_watch": NONE, "self.state_trig_eval": NONE, "self.state_trig_ident": NONE,
                "self.state_trig_ident_any": ListV((), "set"), "self.active_expr": NONE, "self.event_trigger": ListV([Const("ev")]), "self.mqtt_trigger": NONE, "self.webhook_trigger": NONE,
                "self.state_check_now": Const(False), "self.state_hold_false": NONE, "self.state_hold": NONE, "self.run_on_startup": Const(False),
                "self.time_trigger": ListV([Const("once(x)")]) if timed else NONE, "self.event_trig_expr": NONE,
                "self.have_trigger": Const(True), "self.time_active": ListV([Const("range(a, b)")]), "self.time_active_hold_off": NONE, "self.notify_q": ObjV("q", "Queue"),
                "self.event_trigger_kwargs": DictV(()), "self.time_trigger_kwargs": DictV(()), "self.name": Const("file.x.f")}
        out = run_flow(program, uid, pol, args={"self": ObjV("self", "TrigInfo")}, heap=heap)
        bad = None
        n_checks = 0
        for kind, c, desc in exits(out):
            evs = [e for e in c.trace if e[0] == "call"]
            for i, e in enumerate(evs):
                if e[1] != "active_check":
                    continue
                n_checks += 1
                now = e[2][1] if len(e[2]) > 1 else None
                notes = [j for j, x in enumerate(evs[:i]) if x[1] == "notification"]
                reads = [j for j, x in enumerate(evs[:i]) if x[1] == "clock" and x[2] == (now,)]
                if not notes:
                    bad = "the guard is evaluated before any notification"
                elif timed == "due":
                    if now != Sym(("next",)):
                        bad = (f"a time trigger's occurrence is judged at {now!r} instead of its own instant: the task wakes up a little late, so an occurrence exactly on the end "
                               f"of a range() is rejected (and accepted by `not range()`)")
                elif not reads:
                    bad = f"the guard is evaluated at {now!r}, which is not a clock reading"
                elif max(reads) < max(notes):
                    bad = (f"the guard is evaluated at {now!r}, read before the notification arrived (line {evs[max(reads)][4]}): an event arriving while the task sleeps towards a "
                           f"pending time trigger or hold is judged at the time the sleep began")
        ctx.check(n_checks > 0 and bad is None, rid, uid, ("time trigger due: judged at its own instant" if timed == "due" else f"{'pending time trigger' if timed else 'no time trigger'}: now refreshed after the notification"),
                  msg=f"trigger_watch ({'with' if timed else 'without'} a pending time trigger): {bad or 'timer_active_check never reached'}", key=f"legacy now freshness timed={timed}",
                  node=program.func(uid), rel="trigger.py")
