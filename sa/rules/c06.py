"""C06 - time triggers fire at exactly the instants their specification denotes (selection/strictness clauses)."""

from __future__ import annotations

import ast
import datetime as dt
import itertools

from ..absint import NONE, App, Cfg, ClassV, Const, DictV, ExcV, ListV, ObjV, Sym
from ..flow import FlowPolicy, exits, run_flow
from ..repo import AnalysisError, body_walk, call_name, norm, short

LEVEL_TEXT = (
    "decides the selection clauses of C06 on a finite model of abstract instants, not calendar arithmetic: for every list "
    "of up to three once()/period()/cron() entries whose parsed instants lie on a small grid around the current time, "
    "timer_trigger_next returns the earliest denoted instant strictly after now (equal to now only at start-up), none if "
    "there is none, and a wait target equal to it when no daylight-saving shift is involved; the dispatched trigger_time is "
    "the wall-clock instant; the startup run is consumed once and the shutdown run is issued from stop()"
    "; the DST-adjusted wait target is only ever subtracted from the `now` it was computed for, and after a dispatch the next instant is computed from a newer clock reading (or the instant itself)"
    '; startup/shutdown keywords are recognised wherever and however often they occur; once() with a year-less date, a weekday or a leap day denotes the next recurrence on concrete calendars; the start-up time is fixed for the lifetime of a wait'
)
LEVEL_NOTE = (
    "honest limit: date/time/offset parsing, croniter and DST arithmetic are numeric and summarised by abstract instants "
    "(parse_date_time -> table lookup, croniter -> fixed sequence, as_local -> identity); only the combination logic is decided"
)
TECHNIQUE = "abstract interpretation of timer_trigger_next on an exhaustive finite model of abstract instants compared with a reference minimum, def-use of trigger_time, structural once-only rules"

TTN = "trigger.py::TrigTime.timer_trigger_next"
T0 = dt.datetime(2024, 3, 5, 12, 0, 0)
STEP = dt.timedelta(minutes=10)


def _t(i):
    return T0 + i * STEP


def trigger_time_rule(ctx, program, rid):
    """The value dispatched as trigger_time is the first element of timer_trigger_next's result (the wall-clock instant)."""
    for uid, rel in (("trigger.py::TrigInfo.trigger_watch", "trigger.py"), ("decorators/timing.py::TimeTriggerDecorator._cycle", "decorators/timing.py"),
                     ("trigger.py::TrigTime.wait_until", "trigger.py")):
        f = program.func(uid)
        first = None
        for n in body_walk(f):
            if isinstance(n, ast.Assign) and isinstance(n.targets[0], ast.Tuple) and "timer_trigger_next" in norm(n.value):
                first = norm(n.targets[0].elts[0])
        if first is None:
            raise AnalysisError(f"{uid}: call of timer_trigger_next not found")
        vals = []
        for n in body_walk(f):
            if isinstance(n, ast.Dict):
                for k, v in zip(n.keys, n.values):
                    if isinstance(k, ast.Constant) and k.value == "trigger_time" and not isinstance(v, ast.Constant):
                        vals.append(norm(v))
            if isinstance(n, ast.Assign) and isinstance(n.targets[0], ast.Subscript) and norm(n.targets[0].slice) == "'trigger_time'":
                vals.append(norm(n.value))
        ok = bool(vals) and all(v == first for v in vals)
        ctx.check(ok, rid, uid, "trigger_time is the wall-clock instant returned first by timer_trigger_next",
                  msg=f"{uid}: the function is told trigger_time={vals} but the computed instant is `{first}` (the second result is only the DST-adjusted sleep target): "
                  f"across a daylight-saving change the reported time and the @time_active check are an hour off", key="trigger_time source", node=f, rel=rel)


def _entries():
    """(spec text, instants it denotes as grid indices; None = unbounded progression (start, period))."""
    ents = []
    for i in (-2, 0, 1, 3):
        ents.append((f"once(p{i})", ("once", i)))
    for start, per in ((-3, 2), (0, 2), (1, 3), (-4, 4)):
        ents.append((f"period(p{start}, {per}x)", ("period", start, per)))
    ents.append(("period(p-4, 2x, p1)", ("period_end", -4, 2, 1)))
    ents.append(("period(p-4, 2x, p-1)", ("period_end", -4, 2, -1)))
    ents.append(("period(p2, 2x, p6)", ("period_end", 2, 2, 6)))
    ents.append(("period(p-4, 4x, p0)", ("period_end", -4, 4, 0)))
    ents.append(("cron(c2)", ("cron", 2)))
    ents.append(("cron(c5)", ("cron", 5)))
    return ents


def _denoted_next(kind, now, startup):
    """Earliest denoted instant strictly after now (== now allowed only when now is the start-up instant), as grid index."""
    def ok(i, is_start=True):
        # strictly after now; the instant `now` itself counts only for a specification that *starts* at the start-up instant
        return i > now or (is_start and i == now and now == startup)
    if kind[0] == "once":
        return kind[1] if ok(kind[1]) else None
    if kind[0] == "cron":
        return now + kind[1]  # summarised: next cron instant is now + k steps
    if kind[0] == "period":
        _, s, p = kind
        i = s
        while not ok(i, i == s):
            i += p
        return i
    if kind[0] == "period_end":
        _, s, p, e = kind
        i = s
        while i <= e:
            if ok(i, i == s):
                return i
            i += p
        return None
    raise ValueError(kind)


def _summaries(now):
    def parse_date_time(interp, node, args, kwargs, cfg, out):
        tok = args[0].v.strip() if isinstance(args[0], Const) else None
        day_offset = args[1].v if isinstance(args[1], Const) else 0
        if tok is None or not tok.startswith("p"):
            return [(cfg, ListV([Sym(("time", repr(args[0]))), Const(True)], "tuple"))]
        # abstract instants carry a full date: a day offset does not move them (fixed_date = True)
        return [(cfg, ListV([Const(_t(int(tok[1:]))), Const(True)], "tuple"))]

    def parse_time_offset(interp, node, args, kwargs, cfg, out):
        tok = args[0].v.strip() if isinstance(args[0], Const) else ""
        return [(cfg, Const(float(tok[:-1]) * STEP.total_seconds()))]

    def croniter_new(interp, node, args, kwargs, cfg, out):
        k = int(args[0].v[1:])
        return [(cfg, ObjV(f"cron{k}@{node.lineno}", "croniter"))]

    def cron_next(interp, node, args, kwargs, cfg, out):
        it = cfg.env.get("cron_iter")
        k = int(it.oid[4:it.oid.index("@")])
        n = cfg.heap.get(f"{it.oid}.n", Const(0)).v + 1
        return [(cfg.hset(f"{it.oid}.n", Const(n)), Const(_t(now + k * n)))]

    ident = lambda i, n, a, k, c, o: [(c, a[0])]  # noqa: E731
    return {"cls.parse_date_time": parse_date_time, "parse_time_offset": parse_time_offset, "croniter": croniter_new, "cron_iter.get_next": cron_next,
            "croniter.is_valid": lambda i, n, a, k, c, o: [(c, Const(True))], "dt_util.as_local": ident}


class _Pol(FlowPolicy):
    def attr(self, interp, base, attr, cfg):
        return None

    def call(self, interp, node, fname, fval, args, kwargs, cfg, out):
        # dt_util.as_local(x).astimezone(dt_util.UTC) -> x (no DST in the model)
        if fname is None and isinstance(node.func, ast.Attribute) and node.func.attr == "astimezone":
            inner = node.func.value
            r = interp.ev(inner, cfg, out)
            return [(c, v) for c, v in r]
        return super().call(interp, node, fname, fval, args, kwargs, cfg, out)


def _run(program, specs, now, startup):
    pol = _Pol(program, may_raise_all=False, cancel=False, summaries=_summaries(now))
    pol.loop_unroll = 6
    arg = ListV([Const(s) for s in specs]) if len(specs) != 1 else Const(specs[0])
    out = run_flow(program, TTN, pol, args={"cls": ClassV("TrigTime"), "time_spec": arg, "now": Const(_t(now)), "startup_time": Const(_t(startup))})
    res = set()
    for c in out.get("return"):
        v = c.env.get("$ret")
        if isinstance(v, ListV) and len(v.items) == 2 and all(isinstance(x, Const) for x in v.items):
            res.add(tuple(None if x.v is None else int((x.v - T0) / STEP) if isinstance(x.v, dt.datetime) else repr(x.v) for x in v.items))
        else:
            res.add(repr(v))
    for c in out.get("raise"):
        res.add(f"raise {getattr(c.env.get('$exc'), 'cls', '?')}: {getattr(c.env.get('$exc'), 'origin', '')}")
    return sorted(res, key=repr)


def run(ctx):
    program = ctx.program
    ents = _entries()
    ctx.rule("R06.1", "timer_trigger_next returns the earliest denoted instant strictly after now (== now only at start-up) and a matching wait target, for every spec list", floor=150)
    lists = [[e] for e in ents] + [list(p) for p in itertools.permutations(ents, 2)]
    lists += [[ents[0], ents[5], ents[12]], [ents[12], ents[3], ents[4]], [ents[13], ents[12], ents[2]]]
    for lst in lists:
        specs = [s for s, _ in lst]
        bad = None
        for now, startup in ((0, 0), (0, -5), (1, -5), (2, -5)):
            nexts = [_denoted_next(k, now, startup) for _, k in lst]
            cands = [n for n in nexts if n is not None]
            exp = [(min(cands), min(cands))] if cands else [(None, None)]
            got = _run(program, specs, now, startup)
            if got != exp:
                bad = f"now=p{now}{' (start-up)' if now == startup else ''}: returns {got}, the denoted instants give {exp}"
                break
        ctx.check(bad is None, "R06.1", TTN, f"next of {specs}", msg=f"timer_trigger_next({specs}) with {bad}", key=f"next {specs}", node=program.func(TTN), rel="trigger.py")

    ctx.rule("R06.3", "trigger_time is the wall-clock instant; the startup entry is consumed once; the shutdown run is issued from stop()", floor=5)
    trigger_time_rule(ctx, program, "R06.3")
    startup_shutdown_rule(ctx, program, "R06.3")
    ctx.rule("R06.7", "the startup / shutdown keywords: wherever and however often they occur among the specifications, the function runs at start-up iff "
             "'startup' is listed (or nothing is), at removal iff 'shutdown' is listed, and exactly the other specifications are left for the timer - both subsystems", floor=20)
    keyword_table(ctx, program, "R06.7")
    ctx.rule("R06.9", "the meaning of 'now' in a specification is fixed for the lifetime of a trigger or wait: inside the wait loops the start-up time is assigned only while it "
             "is still unset (a re-read on every pass moves once(now + 5s) forward with each unrelated notification)", floor=2)
    for uid in ("trigger.py::TrigTime.wait_until", "trigger.py::TrigInfo.trigger_watch"):
        f = program.func(uid)
        loops = [n for n in body_walk(f) if isinstance(n, ast.While)]
        n_assign = 0
        for loop in loops:
            for a in [x for st in loop.body for x in ast.walk(st) if isinstance(x, ast.Assign)]:
                if not any(isinstance(t, ast.Name) and t.id == "startup_time" for t in a.targets):
                    continue
                n_assign += 1
                guarded = False
                p = getattr(a, "_parent", None)
                while p is not None and p is not loop:
                    if isinstance(p, ast.If) and norm(p.test) in ("startup_time is None", "not startup_time", "startup_time == None", "None is startup_time") and a in list(ast.walk(ast.Module(body=p.body, type_ignores=[]))):
                        guarded = True
                    p = getattr(p, "_parent", None)
                ctx.check(guarded, "R06.9", uid, f"`{short(a)}` inside the wait loop only fills an unset start-up time",
                          msg=f"{uid}: `{short(a)}` (line {a.lineno}) re-assigns the start-up time on every pass of the wait loop: `now` in a time specification is re-read whenever a notification "
                          f"arrives, so once(now + 0.5s) keeps moving away while unrelated state changes come in", key="startup_time re-assigned in loop", node=a, rel="trigger.py")
        if n_assign == 0:
            raise AnalysisError(f"{uid}: no assignment of startup_time inside its wait loop")
    ctx.rule("R06.8", "once(<date> <time>) on concrete calendars: the next instant is the earliest denoted one strictly after now - a month/day without year recurs every "
             "year (leap day: every leap year), a weekday every week, a time of day every day, a full date once; never an exception", floor=30)
    once_calendar_grid(ctx, program, "R06.8")
    ctx.rule("R06.6", "date/time/offset parsing: for every combination of the documented date forms, time forms and offsets on a grid of current times (leap day, year end, each weekday relation) "
             "parse_date_time returns the instant the documentation denotes", floor=80)
    parse_grid(ctx, program, "R06.6")

    ctx.rule("R06.5", "after an instant was dispatched the next instant is computed from a clock reading taken after that dispatch (or from the instant itself), never from an earlier reading", floor=1)
    next_now_freshness(ctx, program, "R06.5")

    ctx.rule("R06.4", "the DST-adjusted wait target is only subtracted from the `now` it was computed for; early wake-up re-checks compare the wall clock with the wall-clock instant", floor=3)
    adjusted_target_rule(ctx, program, "R06.4")
    return (
        "Static, source-only: timer_trigger_next is abstractly interpreted on 185 spec lists x 4 (now, start-up) pairs with parse_date_time, parse_time_offset, croniter and "
        "as_local summarised over a grid of abstract instants; the returned (next_time, wait target) is compared with the minimum of the denoted instants.  "
        "Def-use of the dispatched trigger_time in the three consumers; once-only structure of startup/shutdown runs.  NOT decided (numeric, out of reach of this technique): "
        "date/time/offset parsing, period arithmetic across days, DST adjustment, cron field matching."
    )


KW_CASES = [
    [], ["startup"], ["shutdown"], ["startup", "shutdown"], ["shutdown", "startup"], ["startup", "startup"], ["shutdown", "shutdown", "startup"],
    ["once(1:00)", "startup", "shutdown"], ["startup", "cron(* * * * *)", "shutdown"], ["once(1:00)"], ["shutdown", "once(1:00)", "startup", "startup", "once(2:00)"],
    ["startup", "shutdown", "once(1:00)"],
]


def keyword_table(ctx, program, rid):
    luid = "trigger.py::TrigInfo.__init__"
    nuid = "decorators/timing.py::TimeTriggerDecorator.validate"
    for specs in KW_CASES:
        want = ("return", "startup" in specs or not specs, "shutdown" in specs, tuple(x for x in specs if x not in ("startup", "shutdown")))
        lst = ListV([Const(x) for x in specs], "list")
        # new subsystem
        from ..absint import ClassV
        pol = FlowPolicy(program, may_raise_all=False, cancel=False, summaries={"super().validate": lambda i, n, a, k, c, o: [(c, NONE)]},
                         globals_={"WaitUntilDecoratorManager": ClassV("WaitUntilDecoratorManager")})
        pol.loop_unroll = 10
        pol.live_lists = True  # a list changed while a for loop walks it is walked as Python's list iterator does
        # the decorator of a function (the words mean nothing inside a task.wait_until: C15)
        heap = {"self.args": lst, "self.kwargs": DictV([]), "self.run_on_startup": Const(False), "self.run_on_shutdown": Const(False), "self.dm": ObjV("dm", "FunctionDecoratorManager")}
        out = run_flow(program, nuid, pol, args={"self": ObjV("self", "TimeTriggerDecorator")}, heap=heap)
        got = set()
        for k, c, d in exits(out):
            ts = c.heap.get("self.timespec")
            got.add((k, c.heap.get("self.run_on_startup") == Const(True), c.heap.get("self.run_on_shutdown") == Const(True),
                     tuple(x.v for x in ts.items) if isinstance(ts, ListV) else repr(ts)))
        ctx.check(got == {want}, rid, nuid, f"new: @time_trigger{tuple(specs)}",
                  msg=f"@time_trigger{tuple(specs)} (new subsystem): (exit, run at start-up, run at removal, timer specifications) = {sorted(map(repr, got))}, "
                  f"documented {want}", key=f"new kw {specs}", node=program.func(nuid), rel="decorators/timing.py")
        # legacy
        pol = FlowPolicy(program, may_raise_all=False, cancel=False,
                         summaries={"AstEval": lambda i, n, a, k, c, o: [(c, ObjV("expr", "AstEval"))], "Function.install_ast_funcs": lambda i, n, a, k, c, o: [(c, NONE)],
                                    "asyncio.Queue": lambda i, n, a, k, c, o: [(c, ObjV("q", "Queue"))]})
        pol.loop_unroll = 10
        pol.live_lists = True
        cfg = DictV([(Const("time_trigger"), DictV([(Const("args"), lst if specs else NONE), (Const("kwargs"), DictV([]))])), (Const("action"), ObjV("act", "EvalFunc")),
                     (Const("global_sym_table"), DictV([]))])
        out = run_flow(program, luid, pol, args={"self": ObjV("self", "TrigInfo"), "name": Const("file.x.f"), "trig_cfg": cfg, "global_ctx": ObjV("g", "GlobalContext")})
        got = set()
        for k, c, d in exits(out):
            ts = c.heap.get("self.time_trigger")
            got.add((k, c.heap.get("self.run_on_startup") == Const(True), c.heap.get("self.run_on_shutdown") == Const(True),
                     tuple(x.v for x in ts.items) if isinstance(ts, ListV) else (() if ts == NONE else repr(ts))))
        ctx.check(got == {want}, rid, luid, f"legacy: @time_trigger{tuple(specs)}",
                  msg=f"@time_trigger{tuple(specs)} (legacy subsystem): (exit, run at start-up, run at removal, timer specifications) = {sorted(map(repr, got))}, "
                  f"documented {want}", key=f"legacy kw {specs}", node=program.func(luid), rel="trigger.py")


class _AdjPolicy(FlowPolicy):
    def call(self, interp, node, fname, fval, args, kwargs, cfg, out):
        if isinstance(fval, App) and fval.op == "getattr" and fval.args[1] == Const("total_seconds"):
            return [(cfg, App("seconds", (fval.args[0],)))]
        return super().call(interp, node, fname, fval, args, kwargs, cfg, out)


def _terms(v, acc):
    if isinstance(v, App):
        acc.append(v)
        for a in v.args:
            _terms(a, acc)
    elif isinstance(v, ListV):
        for a in v.items:
            _terms(a, acc)
    elif isinstance(v, tuple):
        for a in v:
            _terms(a, acc)


def adjusted_target_rule(ctx, program, rid):
    """timer_trigger_next(spec, now, ...) returns (instant, target) with `target - now` the real time to wait (differs from
    `instant - now` across a DST change).  Subtracting a *refreshed* clock reading from the target is off by the DST shift."""
    # new subsystem: abstract interpretation, terms of every sleep duration and every decided test
    uid = "decorators/timing.py::TimeTriggerDecorator._cycle"

    def ttn(i, n, a, k, c, o):
        return [(c, ListV((App("instant", (a[1],)), App("adj", (a[1],))), "tuple"))]

    pol = _AdjPolicy(program, may_raise_all=False, cancel=False, events=["asyncio.sleep"], summaries={"trigger.TrigTime.timer_trigger_next": ttn})
    pol.loop_unroll = 2
    heap = {"self.run_on_startup": Const(False), "self.dm": ObjV("dm", "DecoratorManager"), "dm.status": Sym(("clsattr", "DecoratorManagerStatus", "RUNNING")),
            "dm.startup_time": Sym(("startup",)), "self.timespec": ListV((Const("cron(0 0 * * *)"),), "list"), "dm.name": Const("f")}
    out = run_flow(program, uid, pol, args={"self": ObjV("self", "TimeTriggerDecorator")}, heap=heap)
    bad, n_sub = None, 0
    for kind, c, desc in exits(out):
        acc = []
        for e in c.trace:
            if e[0] == "call":
                _terms(e[2], acc)
        for atom, val in c.assume:
            _terms(atom, acc)
        for t in acc:
            if t.op == "sub" and isinstance(t.args[0], App) and t.args[0].op == "adj":
                n_sub += 1
                if t.args[0].args[0] != t.args[1]:
                    bad = f"the wait target computed for now={t.args[0].args[0]!r} is compared with a different clock reading {t.args[1]!r}"
    ctx.check(n_sub > 0 and bad is None, rid, uid, "new subsystem: target used only with its own `now`",
              msg=f"TimeTriggerDecorator._cycle: {bad or 'the wait target is never used'}: on the day of a DST change the two differ by the shift, so a cron trigger fires an hour late "
              f"(fall back) - the legacy loop re-checks against the wall-clock instant", key="new adj/now pairing", node=program.func(uid), rel="decorators/timing.py")
    # legacy loops: def-use over the statement order (their full flow is large; the uses sit right behind the call)
    for uid in ("trigger.py::TrigInfo.trigger_watch", "trigger.py::TrigTime.wait_until"):
        f = program.func(uid)
        calls = [n for n in body_walk(f) if isinstance(n, ast.Assign) and isinstance(n.value, ast.Await) and isinstance(n.value.value, ast.Call)
                 and (call_name(n.value.value) or "").endswith("timer_trigger_next") and isinstance(n.targets[0], ast.Tuple) and len(n.targets[0].elts) == 2]
        if not calls:
            raise AnalysisError(f"{uid}: call of timer_trigger_next not found")
        bad = None
        uses = 0
        for call in calls:
            adj = call.targets[0].elts[1].id
            nowname = norm(program.call_args(program.unit(uid), call.value.value)[1])  # (positional or `now=`)
            for n in body_walk(f):
                if isinstance(n, ast.Name) and n.id == adj and isinstance(n.ctx, ast.Load):
                    uses += 1
                    par = getattr(n, "_parent", None)
                    if not (isinstance(par, ast.BinOp) and isinstance(par.op, ast.Sub) and par.left is n and norm(par.right) == nowname):
                        bad = f"line {n.lineno}: `{short(par)}` uses the wait target other than as `{adj} - {nowname}`"
                        continue
                    # no re-assignment of `now` between the call and the use (same statement list, textual order)
                    redefs = [m for m in body_walk(f) if isinstance(m, (ast.Assign, ast.AugAssign)) and any(norm(t) == nowname for t in (m.targets if isinstance(m, ast.Assign) else [m.target]))
                              and call.lineno < m.lineno < n.lineno]
                    if redefs:
                        bad = f"line {n.lineno}: `{nowname}` is re-assigned at line {redefs[0].lineno} between timer_trigger_next and `{short(par)}`"
        ctx.check(uses > 0 and bad is None, rid, uid, "legacy: target used only as `target - now` right behind the call",
                  msg=f"{uid}: {bad or 'wait target unused'}", key="legacy adj/now pairing", node=f, rel="trigger.py")


def next_now_freshness(ctx, program, rid):
    """TimeTriggerDecorator._cycle: two loop passes; events: clock readings, dispatches, calls of timer_trigger_next with their `now`."""
    uid = "decorators/timing.py::TimeTriggerDecorator._cycle"

    def clock(i, n, a, k, c, o):
        idx = c.heap.get("$clock", Const(0)).v + 1
        v = Sym(("clock", idx))
        return [(c.hset("$clock", Const(idx)).emit(("call", "clock", (v,), (), n.lineno)), v)]

    def ttn(i, n, a, k, c, o):
        c = c.emit(("call", "next", (a[1],), (), n.lineno))
        return [(c, ListV((App("instant", (a[1],)), App("adj", (a[1],))), "tuple"))]

    pol = _AdjPolicy(program, may_raise_all=False, cancel=False, events=["self.dispatch"], summaries={"trigger.TrigTime.timer_trigger_next": ttn, "dt_now": clock}, record_atoms=False)
    pol.loop_unroll = 2
    heap = {"self.run_on_startup": Const(False), "self.dm": ObjV("dm", "DecoratorManager"), "dm.status": Sym(("clsattr", "DecoratorManagerStatus", "RUNNING")),
            "dm.startup_time": Sym(("startup",)), "self.timespec": ListV((Const("period(now, 10min)"),), "list"), "dm.name": Const("f")}
    out = run_flow(program, uid, pol, args={"self": ObjV("self", "TimeTriggerDecorator")}, heap=heap)
    bad, n_after = None, 0
    for kind, c, desc in exits(out):
        evs = [e for e in c.trace if e[0] == "call"]
        for i, e in enumerate(evs):
            if e[1] != "next":
                continue
            disp = [j for j, x in enumerate(evs[:i]) if x[1] == "self.dispatch"]
            if not disp:
                continue
            n_after += 1
            now = e[2][0]
            reads = [j for j, x in enumerate(evs[:i]) if x[1] == "clock" and x[2] == (now,)]
            if isinstance(now, App) and now.op == "instant":
                continue  # the dispatched instant itself (legacy style)
            if not reads or max(reads) < max(disp):
                bad = (f"after a dispatch the next instant is computed from {now!r}, " + ("a clock reading made before that dispatch" if reads else "not a clock reading") +
                       ": a wake-up one microsecond early (tolerated by the re-check) yields the same instant again, the function runs twice with one trigger_time")
    ctx.check(n_after > 0 and bad is None, rid, uid, "next instant computed from a reading newer than the last dispatch", msg=f"TimeTriggerDecorator._cycle: {bad or 'second pass not reached'}",
              key="new next-now freshness", node=program.func(uid), rel="decorators/timing.py")


def startup_shutdown_rule(ctx, program, rid):
    """'startup' entries run once when the trigger starts, 'shutdown' entries once from stop() - scenarios in both subsystems."""
    from ..legacy import WATCH, watch_occurrence
    # legacy loop: a time occurrence follows the start-up pass
    for flag in (True, False):
        recs, _, _ = watch_occurrence(program, "time", heap_over={"self.run_on_startup": Const(flag)})
        got = set()
        for r in recs:
            tt = [run[1].get(Const("trigger_time")) for run in r["runs"] if len(run) > 1 and isinstance(run[1], DictV)]
            got.add(tuple("startup" if t == Const("startup") else "instant" for t in tt))
        want = {("startup", "instant")} if flag else {("instant",)}
        ctx.check(got == want, rid, WATCH, f"legacy: startup entry {'present' if flag else 'absent'}",
                  msg=f"legacy trigger_watch with run_on_startup={flag}: runs {sorted(got)}, specified {sorted(want)} (the startup run happens exactly once, before any instant)",
                  key=f"legacy startup {flag}", node=program.func(WATCH), rel="trigger.py")
    # new cycle
    uid = "decorators/timing.py::TimeTriggerDecorator._cycle"
    for flag in (True, False):
        disp = []

        def dispatch(i, n, a, k, c, o, disp=disp):
            d = a[0].args[1] if a and isinstance(a[0], App) and a[0].op == "new" and len(a[0].args) > 1 else (a[0] if a else None)
            tt = d.get(Const("trigger_time")) if isinstance(d, DictV) else None
            c = c.hset("$disp", ListV(c.heap.get("$disp", ListV(())).items + (Const("startup") if tt == Const("startup") else Const("instant"),)))
            return [(c, NONE)]

        def ttn(i, n, a, k, c, o):
            return [(c, ListV((App("instant", (a[1],)), App("adj", (a[1],))), "tuple"))]

        pol = _AdjPolicy(program, may_raise_all=False, cancel=False, summaries={"trigger.TrigTime.timer_trigger_next": ttn, "self.dispatch": dispatch}, record_atoms=False)
        pol.loop_unroll = 2
        heap = {"self.run_on_startup": Const(flag), "self.dm": ObjV("dm", "DecoratorManager"), "dm.status": Sym(("clsattr", "DecoratorManagerStatus", "RUNNING")),
                "dm.startup_time": Sym(("startup",)), "self.timespec": ListV((Const("period(now, 10min)"),), "list"), "dm.name": Const("f")}
        out = run_flow(program, uid, pol, args={"self": ObjV("self", "TimeTriggerDecorator")}, heap=heap)
        got = {tuple(x.v for x in c.heap.get("$disp", ListV(())).items) for k, c, d in exits(out)}
        ok = bool(got) and all((seq[:1] == ("startup",)) == flag and "startup" not in seq[1:] for seq in got) and any(len(seq) > (1 if flag else 0) for seq in got)
        ctx.check(ok, rid, uid, f"new: startup entry {'present' if flag else 'absent'}",
                  msg=f"TimeTriggerDecorator._cycle with run_on_startup={flag}: dispatch sequences {sorted(got)}; the startup run must come first, exactly once, and only when requested",
                  key=f"new startup {flag}", node=program.func(uid), rel="decorators/timing.py")
    # shutdown runs from stop()
    for uid, rel, selfcls in (("trigger.py::TrigInfo.stop", "trigger.py", "TrigInfo"), ("decorators/timing.py::TimeTriggerDecorator.stop", "decorators/timing.py", "TimeTriggerDecorator")):
        for flag in (True, False):
            runs = []

            def rec(i, n, a, k, c, o, runs=runs):
                d = None
                for x in list(a) + list(k.values()):
                    if isinstance(x, DictV):
                        d = x
                    if isinstance(x, App) and x.op == "new" and len(x.args) > 1 and isinstance(x.args[1], DictV):
                        d = x.args[1]
                runs.append(d.get(Const("trigger_time")) if d is not None else None)
                return [(c, Sym(("future",)))]

            pol = FlowPolicy(program, may_raise_all=False, cancel=False, summaries={"self.call_action": rec, "self.dispatch": rec})
            heap = {"self.run_on_shutdown": Const(flag), "self.task": NONE, "self._cycle_task": NONE, "self.time_trigger_kwargs": DictV(()), "self.state_trig_ident": NONE,
                    "self.event_trigger": NONE, "self.mqtt_trigger": NONE, "self.webhook_trigger": NONE}
            out = run_flow(program, uid, pol, args={"self": ObjV("self", selfcls)}, heap=heap)
            want = [Const("shutdown")] if flag else []
            ctx.check(bool(exits(out)) and runs == want, rid, uid, f"shutdown entry {'present' if flag else 'absent'}",
                      msg=f"{uid} with run_on_shutdown={flag}: runs issued with trigger_time {runs!r}, specified {want!r}", key=f"shutdown run {flag}", node=program.func(uid), rel=rel)


DOW = {"sun": 0, "mon": 1, "tue": 2, "wed": 3, "thu": 4, "fri": 5, "sat": 6}
P_DATES = ["", "2024/3/1", "2025/01/05", "3/1", "12/31", "sun", "wed", "sat", "today", "tomorrow"]
P_TIMES = ["", "10:00", "9:30:15.5", "00:00", "23:59:59", "noon", "midnight", "sunrise", "sunset"]
P_OFFS = ["", "+ 2h", "- 10 min", "+ 1.5 hours", "-3 days", "+2w", "+ 90s", "- 1 sec", "+ .5h", "-.25 min"]
P_NOWS = [dt.datetime(2024, 2, 28, 13, 30, 5), dt.datetime(2023, 12, 31, 23, 59, 59, 500000), dt.datetime(2024, 3, 9, 0, 0, 0)]
SUNRISE, SUNSET = (6, 31, 7), (19, 2, 3)
OFF_UNITS = {"s": 1, "sec": 1, "min": 60, "h": 3600, "hours": 3600, "days": 86400, "w": 604800}


def _ref_parse(date_tok, time_tok, off_tok, now, day_offset, startup):
    """The documented meaning (docs/reference.rst, @time_trigger): date part, time part, optional offset."""
    y, m, d = now.year, now.month, now.day
    fixed = False
    if date_tok.count("/") == 2:
        y, m, d = (int(x) for x in date_tok.split("/"))
        day_offset, fixed = 0, True
    elif date_tok.count("/") == 1:
        m, d = (int(x) for x in date_tok.split("/"))
        day_offset, fixed = 0, True
    elif date_tok in DOW:
        day_offset, fixed = (DOW[date_tok] - now.isoweekday() % 7) % 7, True
    elif date_tok == "today":
        day_offset, fixed = 0, True
    elif date_tok == "tomorrow":
        day_offset, fixed = 1, True
    base = dt.datetime(y, m, d) + dt.timedelta(days=day_offset)
    if time_tok == "now":
        base, fixed = startup, True
    elif time_tok in ("sunrise", "sunset"):
        h, mi, se = SUNRISE if time_tok == "sunrise" else SUNSET
        base += dt.timedelta(hours=h, minutes=mi, seconds=se)
    elif time_tok == "noon":
        base += dt.timedelta(hours=12)
    elif time_tok and time_tok != "midnight":
        parts = time_tok.split(":")
        base += dt.timedelta(hours=int(parts[0]), minutes=int(parts[1]), seconds=float(parts[2]) if len(parts) > 2 else 0)
    if off_tok:
        import re as _re
        mm = _re.fullmatch(r"([-+]?)\s*([\d.]+)\s*(\w*)", off_tok)
        val = float(mm.group(2)) * (-1 if mm.group(1) == "-" else 1) * OFF_UNITS[mm.group(3) or "s"]
        base += dt.timedelta(seconds=val)
    return base, fixed


ONCE_SPECS = ["9/1 8:00", "sun 8:00", "2/29 12:00", "8:00", "2024/9/1 8:00", "12/31 23:59", "wed noon"]
ONCE_NOWS = [dt.datetime(2023, 8, 31, 7, 0), dt.datetime(2023, 9, 1, 7, 59, 59), dt.datetime(2023, 9, 1, 8, 0, 0, 1), dt.datetime(2023, 9, 3, 8, 0, 0, 1), dt.datetime(2023, 9, 3, 7, 0),
             dt.datetime(2023, 12, 31, 23, 59, 30), dt.datetime(2024, 2, 29, 12, 0, 0, 1), dt.datetime(2023, 3, 1, 0, 0), dt.datetime(2024, 9, 1, 8, 0), dt.datetime(2024, 9, 4, 12, 0, 5)]


def _ref_once_next(spec, now):
    """Documented meaning of once(): date part = yyyy/mm/dd (once), mm/dd (every year), weekday (every week), none (every day)."""
    parts = spec.split()
    date_tok, time_tok = (parts[0], parts[1]) if len(parts) == 2 else ("", parts[0])
    if time_tok == "noon":
        h, mi = 12, 0
    else:
        h, mi = (int(x) for x in time_tok.split(":"))
    def at(d):
        return dt.datetime(d.year, d.month, d.day, h, mi)
    if date_tok.count("/") == 2:
        y, m, d = (int(x) for x in date_tok.split("/"))
        t = dt.datetime(y, m, d, h, mi)
        return t if t > now else None
    if date_tok.count("/") == 1:
        m, d = (int(x) for x in date_tok.split("/"))
        for y in range(now.year, now.year + 9):
            try:
                t = dt.datetime(y, m, d, h, mi)
            except ValueError:
                continue  # 29 February in a year that has none
            if t > now:
                return t
        return None
    if date_tok in DOW:
        for i in range(0, 8):
            day = now + dt.timedelta(days=i)
            if day.isoweekday() % 7 == DOW[date_tok] and at(day) > now:
                return at(day)
        return None
    for i in (0, 1):
        if at(now + dt.timedelta(days=i)) > now:
            return at(now + dt.timedelta(days=i))
    return None


def once_calendar_grid(ctx, program, rid):
    from ..absint import FuncV
    glob = {"parse_time_offset": FuncV(program.func("trigger.py::parse_time_offset"), name="parse_time_offset")}
    heap = {"TrigTime.dow2int": DictV([(Const(k), Const(v)) for k, v in DOW.items()])}
    for spec in ONCE_SPECS:
        for now in ONCE_NOWS:
            startup = now - dt.timedelta(days=400)
            pol = FlowPolicy(program, may_raise_all=False, cancel=False, inline={"parse_time_offset", "cls.parse_date_time", "TrigTime.parse_date_time"}, globals_=glob)
            pol.loop_unroll = 10
            out = run_flow(program, TTN, pol, args={"cls": ClassV("TrigTime"), "time_spec": ListV((Const(f"once({spec})"),), "list"), "now": Const(now), "startup_time": Const(startup)}, heap=heap)
            got = set()
            for k, c, d in exits(out):
                r = c.env.get("$ret")
                if k == "return" and isinstance(r, ListV) and len(r.items) == 2:
                    got.add(r.items[0].v if isinstance(r.items[0], Const) else repr(r.items[0]))
                else:
                    got.add(f"{k}: {getattr(c.env.get('$exc'), 'cls', d)}")
            want = _ref_once_next(spec, now)
            ctx.check(got == {want}, rid, TTN, f"once({spec}) at {now}", msg=f"timer_trigger_next(['once({spec})'], now={now}) gives {sorted(map(str, got))}, the specification denotes {want}"
                      + (": the trigger ends after its first firing instead of recurring" if (None in got and want is not None) else ""),
                      key=f"once {spec} @ {now}", node=program.func(TTN), rel="trigger.py")


def parse_grid(ctx, program, rid):
    uid = "trigger.py::TrigTime.parse_date_time"
    from ..absint import FuncV

    def executor(i, n, a, k, c, o):
        which = repr(a[0])
        d = a[1].v if len(a) > 1 and isinstance(a[1], Const) else None
        if d is None:
            return [(c, Sym(("sun?",)))]
        h, mi, se = SUNRISE if "sunrise" in which else SUNSET
        return [(c, Const(dt.datetime(d.year, d.month, d.day, h, mi, se)))]

    glob = {"parse_time_offset": FuncV(program.func("trigger.py::parse_time_offset"), name="parse_time_offset")}
    heap = {"TrigTime.dow2int": DictV([(Const(k), Const(v)) for k, v in DOW.items()])}
    # (the table is filled from the locale at start-up; the English abbreviations are the documented default)
    for date_tok in P_DATES + ["now"]:
        for time_tok in (P_TIMES if date_tok != "now" else [""]):
            bad = None
            n = 0
            for off_tok in P_OFFS:
                for now in P_NOWS:
                    for day_offset in (0, 1):
                        spec = " ".join(x for x in (date_tok, time_tok, off_tok) if x)
                        startup = now - dt.timedelta(hours=3, seconds=7)
                        pol = FlowPolicy(program, may_raise_all=False, cancel=False, inline={"parse_time_offset"}, globals_=glob,
                                         summaries={"cls.hass.async_add_executor_job": executor, "sun.get_astral_location": lambda i, n2, a, k, c, o: [(c, ObjV("loc", "Location"))]})
                        pol.loop_unroll = 4
                        out = run_flow(program, uid, pol, args={"cls": ClassV("TrigTime"), "date_time_str": Const(spec), "day_offset": Const(day_offset), "now": Const(now),
                                                               "startup_time": Const(startup)}, heap=heap)
                        got = [c.env.get("$ret") if k == "return" else d for k, c, d in exits(out)]
                        if date_tok == "now":
                            want = _ref_parse("", "now", off_tok, now, day_offset, startup)
                        else:
                            want = _ref_parse(date_tok, time_tok, off_tok, now, day_offset, startup)
                        n += 1
                        ok = len(got) == 1 and isinstance(got[0], ListV) and len(got[0].items) == 2 and got[0].items[0] == Const(want[0]) and got[0].items[1] == Const(want[1])
                        if not ok and bad is None:
                            bad = f"parse_date_time({spec!r}, day_offset={day_offset}, now={now}) returns {got!r}, documented meaning {want}"
            ctx.check(bad is None, rid, uid, f"date {date_tok!r} time {time_tok!r} ({n} offsets x current times x day offsets)", msg=bad or "", key=f"parse {date_tok!r} {time_tok!r}",
                      node=program.func(uid), rel="trigger.py")
