"""C04 - state triggers run the function for exactly the qualifying state changes (structural clauses)."""

from __future__ import annotations

import ast
import itertools

from ..absint import NONE, App, Cfg, ClassV, Const, DictV, ExcV, ListV, ObjV, Sym
from ..flow import FlowPolicy, exits, run_flow
from ..repo import AnalysisError, body_walk, call_name, const_set, norm, short

LEVEL_TEXT = (
    "decides structural clauses of C04, not event ordering under bursts: the two change predicates agree with the "
    "reference definition of 'watched value / attribute / any attribute changed' on an exhaustive finite model of "
    "old/new values and attribute sets; in both subsystems a run is started for a notification only if an any-change "
    "form matched, or a watched name changed and the trigger expression is truthy - and never for other notifications; "
    "the listener passes exactly the documented keyword arguments and the decorator's kwargs override them; both "
    "subsystems recognise the same any-change name pattern"
    "; the set of entities a trigger subscribes to (watch= / expression names plus any-change names) and the values handed to trigger expressions (occurrence first, then last known, None for unknown names) equal the specified tables in both subsystems; in the legacy loop the decorator's kwargs extend and override the occurrence's arguments for every source kind"
    '; name sets with several names of one entity and method names of the state value are decided by the same table'
    "; values handed to expressions are those of the event (never-notified names are snapshotted, attributes of the event's entity come from its value, function names are not shadowed); every entity a name mentions - also through NAME.old.attr - is subscribed and released"
)
LEVEL_NOTE = "truth of trigger expressions and values of .old are delegated to the interpreter (C01); ordering/no-loss under bursts is asyncio scheduling and not decided"
TECHNIQUE = "abstract interpretation of the change predicates on a finite model vs a reference predicate; path-sensitive flow analysis of one loop iteration of both trigger loops (dispatch implies qualifying atoms); sibling agreement"

VIRTUAL = ("entity_id", "last_changed", "last_updated", "last_reported")


def _mk(oid, state, attrs, heap):
    if state is None:
        return Const(None)
    o = ObjV(oid, "StateVal")
    d = [(Const(k), Const(v)) for k, v in attrs.items()] + [(Const(v), Const(f"{oid}-{v}")) for v in VIRTUAL]
    heap[f"{oid}.__dict__"] = DictV(d)
    for k, v in attrs.items():
        heap[f"{oid}.{k}"] = Const(v)
    for v in VIRTUAL:
        heap[f"{oid}.{v}"] = Const(f"{oid}-{v}")
    heap[f"{oid}.$state"] = Const(state)
    # the helper methods every state value has (as_int, lower, ...): bound to this very object, so two snapshots never share one
    from ..absint import FuncV
    for m in STATE_METHODS:
        heap[f"{oid}.{m}"] = FuncV(STATE_METHOD_NODE, recv=o, name=f"{oid}.{m}")
    return o


STATE_METHODS = ("as_int", "lower")
STATE_METHOD_NODE = ast.parse("def method(self):\n    pass").body[0]


class _PredPolicy(FlowPolicy):
    def __init__(self, program, states):
        super().__init__(program, may_raise_all=False, cancel=False, globals_={"STATE_VIRTUAL_ATTRS": ListV([Const(v) for v in VIRTUAL], "set")})
        self.states = states
        self.loop_unroll = 6

    def equal_hook(self, l, r):
        def st(v):
            if isinstance(v, ObjV) and v.oid in self.states:
                return ("s", self.states[v.oid])
            if isinstance(v, Const) and v.v is None:
                return ("n",)
            return None
        a, b = st(l), st(r)
        if a is not None and b is not None:
            return a == b
        return None


def _pred(program, uid, var_name, new, old, ident):
    heap = {}
    states = {}
    nv = _mk("new", new[0] if new else None, new[1] if new else {}, heap)
    ov = _mk("old", old[0] if old else None, old[1] if old else {}, heap)
    if new:
        states["new"] = new[0]
    if old:
        states["old"] = old[0]
    func_args = DictV([(Const("trigger_type"), Const("state")), (Const("var_name"), Const(var_name)), (Const("value"), nv), (Const("old_value"), ov)])
    pol = _PredPolicy(program, states)
    out = run_flow(program, uid, pol, args={"func_args": func_args, "ident": ListV([Const(i) for i in ident], "set")}, heap=heap)
    res = {repr(c.env.get("$ret")) for c in out.get("return")} | {"raise " + getattr(c.env.get("$exc"), "cls", "?") for c in out.get("raise")}
    return sorted(res)


def _ref_any(var_name, new, old, ident):
    for name in ident:
        parts = name.split(".")
        root = ".".join(parts[:2])
        if root != var_name:
            continue
        ns, na = (new or (None, {}))
        os_, oa = (old or (None, {}))
        if len(parts) == 2:
            if ns != os_:
                return True
        elif parts[2] == "*":
            if any(na.get(k) != oa.get(k) for k in set(na) | set(oa)):
                return True
        else:
            if na.get(parts[2]) != oa.get(parts[2]):
                return True
    return False


def _ref_changed(var_name, new, old, ident):
    for name in ident:
        parts = name.split(".")
        if len(parts) < 2 or len(parts) > 4 or (len(parts) == 4 and parts[2] != "old"):
            continue
        root = ".".join(parts[:2])
        if root != var_name:
            continue
        ns, na = (new or (None, {}))
        os_, oa = (old or (None, {}))
        if len(parts) == 4:
            # `d.e.old.x`: an attribute of the previous value - the entity is watched through it like through `d.e.old`, and a change of that attribute counts as well
            if ns != os_ or na.get(parts[3]) != oa.get(parts[3]):
                return True
        elif len(parts) == 2 or parts[2] == "old":
            if ns != os_:
                return True
        elif parts[2] in STATE_METHODS:
            # `d.e.as_int()` in an expression: a method of the value - what it yields changes with the value, not with the attributes
            if ns != os_ or (new is None) != (old is None):
                return True
        elif na.get(parts[2]) != oa.get(parts[2]):
            return True
    return False


def change_predicate_table(ctx, program, rid):
    """ident_any_values_changed / ident_values_changed interpreted on old/new value pairs x name sets against the reference definition."""
    ANY = "trigger.py::ident_any_values_changed"
    CHG = "trigger.py::ident_values_changed"
    vals = [None, ("on", {}), ("on", {"x": 1, "z": 3}), ("off", {"x": 1, "z": 3}), ("on", {"x": 1, "y": 2, "z": 3}), ("on", {"x": 2, "z": 3})]
    idents_any = [["d.e"], ["d.e.x"], ["d.e.y"], ["d.e.*"], ["d.other", "d.e.*"], ["d.other"], ["d.e.x", "d.e"], ["d.e", "d.e.x"], ["d.e.y", "d.e.x"]]
    idents_chg = [["d.e"], ["d.e.old"], ["d.e.x"], ["d.e.y"], ["d.other", "d.e.y"], ["d.other"], ["d.e.old.x"], ["x"],
                  # several watched names of one entity, in both iteration orders (the names are kept in a set)
                  ["d.e", "d.e.x"], ["d.e.x", "d.e"], ["d.e.old", "d.e.y"], ["d.e.y", "d.e.x"], ["d.e", "d.other.x", "d.e.y"],
                  # a method call on the state value in the expression (`d.e.as_int() > 20`): the scan yields the dotted name d.e.as_int
                  ["d.e.as_int"], ["d.e.lower", "d.other"]]
    for new, old in itertools.product(vals, vals):
        if new is None and old is None:
            continue
        for ident in idents_any:
            got = _pred(program, ANY, "d.e", new, old, ident)
            exp = [repr(Const(_ref_any("d.e", new, old, ident)))]
            ctx.check(got == exp, rid, ANY, f"any-change {ident}: {old} -> {new}",
                      msg=f"ident_any_values_changed for any-change names {ident} and the change {old} -> {new} returns {got}, reference {exp}: "
                      f"{'the change is not noticed (a run is lost)' if exp == ['True'] else 'a run is started for a non-qualifying change'}",
                      key=f"any {ident} {old}->{new}", node=program.func(ANY), rel="trigger.py")
        for ident in idents_chg:
            got = _pred(program, CHG, "d.e", new, old, ident)
            exp = [repr(Const(_ref_changed("d.e", new, old, ident)))]
            ctx.check(got == exp, rid, CHG, f"watched {ident}: {old} -> {new}",
                      msg=f"ident_values_changed for watched names {ident} and the change {old} -> {new} returns {got}, reference {exp}", key=f"chg {ident} {old}->{new}",
                      node=program.func(CHG), rel="trigger.py")


def run(ctx):
    program = ctx.program
    ctx.rule("R04.3a", "the change predicates equal the reference definition (value changed / named attribute changed / any attribute changed, incl. attributes that appear or disappear)", floor=150)
    change_predicate_table(ctx, program, "R04.3a")

    ctx.rule("R04.3b", "a run is dispatched for a notification only if an any-change form matched, or a watched name changed and the expression is truthy (both subsystems)", floor=2)
    _gating_new(ctx, program)
    _gating_legacy(ctx, program)

    ctx.rule("R04.1", "state_changed builds exactly the documented keyword arguments and the new/old variable pair", floor=2)
    f = program.func("__init__.py::async_setup_entry.state_changed")
    d = [n for n in body_walk(f) if isinstance(n, ast.Dict)]
    keysets = [tuple(k.value if isinstance(k, ast.Constant) else norm(k) for k in x.keys) for x in d]
    ctx.check(("trigger_type", "var_name", "value", "old_value", "context") in keysets, "R04.1", "__init__.py::async_setup_entry.state_changed", "func_args keys",
              msg=f"state_changed builds argument dictionaries with keys {keysets}", key="state_changed keys", node=f, rel="__init__.py")
    ctx.check(("var_name", "f'{var_name}.old'") in keysets, "R04.1", "__init__.py::async_setup_entry.state_changed", "new_vars holds NAME and NAME.old",
              msg=f"state_changed builds variable dictionaries with keys {keysets}", key="state_changed vars", node=f, rel="__init__.py")
    vals = {}
    for x in d:
        for k, v in zip(x.keys, x.values):
            if isinstance(k, ast.Constant):
                vals[k.value] = norm(v)
    ctx.check(vals.get("value") == "new_val" and vals.get("old_value") == "old_val" and vals.get("trigger_type") == "'state'" and vals.get("var_name") == "var_name", "R04.1",
              "__init__.py::async_setup_entry.state_changed", "value/old_value bound to the event's new/old state", msg=f"state_changed binds {vals}", key="state_changed values", node=f, rel="__init__.py")

    ctx.rule("R04.2", "the decorator's kwargs override the trigger's own arguments, and are merged before the function is called", floor=3)
    uid = "decorator_abc.py::TriggerDecorator.dispatch"
    data = ObjV("data", "DispatchData")
    heap = {"data.func_args": DictV([(Const("trigger_type"), Const("state")), (Const("var_name"), Const("d.e")), (Const("value"), Sym(("v",)))]), "data.trigger": NONE,
            "self.kwargs": DictV([(Const("kwargs"), DictV([(Const("var_name"), Const("override")), (Const("extra"), Const(1))]))]), "self.dm": ObjV("dm", "DecoratorManager")}
    pol = FlowPolicy(program, events=["self.dm.dispatch"], may_raise_all=False, cancel=False)
    pol.track_aliases = True
    out = run_flow(program, uid, pol, args={"self": ObjV("self", "TriggerDecorator"), "data": data}, heap=heap)
    got = []
    for kind, c, desc in exits(out):
        fa = c.heap.get("data.func_args")
        if any(e[0] == "call" for e in c.trace) and isinstance(fa, DictV):
            got.append({k.v: repr(v) for k, v in fa.items})
    exp = {"trigger_type": "'state'", "var_name": "'override'", "value": "$('v',)", "extra": "1"}
    ctx.check(got == [exp], "R04.2", uid, "kwargs override and extend func_args before dm.dispatch",
              msg=f"TriggerDecorator.dispatch hands {got} to the manager; with kwargs={{'var_name': 'override', 'extra': 1}} the documented result is {exp}", key="new kwargs override",
              node=program.func(uid), rel="decorator_abc.py")
    # legacy: one occurrence of every source kind delivered to the loop; what reaches the function is occurrence arguments overridden/extended by kwargs
    from ..legacy import KINDS, WATCH, watch_occurrence
    tw = program.func(WATCH)
    for kind in KINDS:
        collide = {"state": "value", "event": "payload", "mqtt": "payload", "webhook": "payload", "time": "trigger_type"}[kind]
        uk = DictV([(Const("extra"), Const(1)), (Const(collide), Const("override"))])
        recs, occ, _ = watch_occurrence(program, kind, filter_value=None if kind == "time" else True, user_kwargs=uk)
        bad = None
        if not recs:
            bad = "no exit"
        for r in recs:
            if len(r["runs"]) != 1:
                bad = f"{len(r['runs'])} run(s) for one accepted occurrence"
                continue
            got = r["runs"][0][1] if len(r["runs"][0]) > 1 else None
            if not isinstance(got, DictV):
                bad = f"call_action is given {got!r}"
                continue
            g = {k.v: v for k, v in got.items}
            if g.get("extra") != Const(1) or g.get(collide) != Const("override"):
                bad = f"the function receives {got!r}: kwargs={{'extra': 1, {collide!r}: 'override'}} must extend and override the occurrence's arguments"
            elif occ is not None and any(g.get(k.v) != v for k, v in occ.items if k.v != collide):
                bad = f"the function receives {got!r}: arguments of the occurrence {occ!r} are lost"
        ctx.check(bad is None, "R04.2", WATCH, f"legacy {kind} occurrence: kwargs override and extend the arguments",
                  msg=f"legacy trigger_watch, {kind} occurrence with kwargs={{'extra': 1, {collide!r}: 'override'}}: {bad}", key=f"legacy {kind} kwargs", node=tw, rel="trigger.py")

    ctx.rule("R04.7", "the set of entities a state trigger subscribes to: watch= if given, else the names in the expression together with every any-change name", floor=10)
    watched_set_table(ctx, program, "R04.7")

    ctx.rule("R04.12", "every entity a watched name mentions is subscribed - also one named only through an attribute of its previous value (`d.e.old.attr`) - and released again "
             "(State.notify_add / notify_del on permuted name sets)", floor=20)
    from .c15 import state_unsubscribe_table
    state_unsubscribe_table(ctx, program, "R04.12")

    ctx.rule("R04.8", "values handed to trigger expressions: event values first, then last known values / attributes, '.old' attributes from the event, for any other state name its value at "
             "the time of the event (a snapshot: a burst must not be evaluated on later values), None for unknown names of 2-4 parts", floor=40)
    var_get_table(ctx, program, "R04.8")

    ctx.rule("R04.9", "state trigger arguments: names of the form DOMAIN.name[.attr|.*] are any-change triggers, everything else is an expression (several are or-ed with any([...])) - same in both subsystems", floor=10)
    state_args_table(ctx, program, "R04.9")

    ctx.rule("R04.10", "legacy loop: whether a notification is a change of a watched name is decided on the notification's own var_name / value / old_value - "
             "keys of the decorator's kwargs= (which may be named var_name, value, ...) are merged only into what the function receives", floor=2)
    from ..legacy import WATCH as _W, watch_occurrence as _wo
    for fv in (None, True):
        uk = DictV([(Const("var_name"), Const("light")), (Const("value"), Const("two")), (Const("extra"), Const(1))])
        recs, occ, _ = _wo(program, "state", filter_value=fv, user_kwargs=uk)
        bad = None if recs else "no exit"
        for r in recs:
            ins = [x[0] for x in r["change_inputs"] if x]
            if not ins:
                bad = "the change predicates were never consulted"
            elif any(i != occ for i in ins):
                bad = f"the change predicates are given {[repr(i) for i in ins if i != occ][:1]} instead of the notification's arguments {occ!r}"
        ctx.check(bad is None, "R04.10", _W, f"change predicates see the notification's own arguments ({'any-change trigger' if fv is None else 'expression trigger'})",
                  msg=f"legacy trigger_watch with @state_trigger(..., kwargs={{'var_name': 'light', 'value': 'two', 'extra': 1}}): {bad}: the trigger never runs (or runs for attribute-only updates)",
                  key=f"change predicate inputs {fv}", node=program.func(_W), rel="trigger.py")
    ctx.rule("R04.4", "names referenced by a trigger expression: the analysis descends into every construct (only names and dotted names end the descent)", floor=1)
    f = program.func("eval.py::AstEval.get_names_set")
    early = []
    for s in f.body:
        if isinstance(s, ast.If) and "local_names is not None" in norm(s.test) and "cls_name" not in norm(s.test):
            break
        for m in ast.walk(s):
            if isinstance(m, ast.Return):
                q = m
                test = None
                while q is not None and q is not f:
                    if isinstance(q, ast.If):
                        test = norm(q.test)
                    q = getattr(q, "_parent", None)
                early.append(test)
    ok = all(t and any(x in t for x in ("'Attribute'", "'Name'", "'Nonlocal'", "'Global'", "full_name is not None")) for t in early) and len(early) >= 2
    ctx.check(ok, "R04.4", "eval.py::AstEval.get_names_set", "expression mode returns early only for names", msg=f"get_names_set returns early under {early}", key="get_names early returns", node=f, rel="eval.py")

    ctx.rule("R04.6", "both subsystems use the same any-change name pattern", floor=1)
    a = norm(program.module_const("trigger.py", "STATE_RE"))
    b = norm(program.module_const("decorators/state.py", "STATE_RE"))
    ctx.check(a == b, "R04.6", "decorators/state.py::STATE_RE", "STATE_RE equal in both modules", msg=f"any-change pattern differs: legacy {a}, new {b}", key="STATE_RE agreement", rel="decorators/state.py",
              node=program.module_const("decorators/state.py", "STATE_RE"))
    return (
        "Static, source-only: ident_any_values_changed / ident_values_changed are abstractly interpreted for 35 old/new value pairs x 15 name sets and compared with the reference definition; "
        "one loop iteration of StateTriggerDecorator._cycle and of TrigInfo.trigger_watch is interpreted path-sensitively and every path that dispatches must have decided the qualifying atoms; "
        "kwargs override by evaluating TriggerDecorator.dispatch on a concrete dictionary.  Not decided: order / no loss / no duplication of runs under bursts."
    )


def _gating_new(ctx, program):
    uid = "decorators/state.py::StateTriggerDecorator._cycle"
    f = program.func(uid)
    cls_node = program.cls("decorators/state.py::StateTriggerDecorator")
    results = {}
    for has_expr, anyc, chg, expr in itertools.product((True, False), (True, False), (True, False), (True, False)):
        note = ListV([Const("state"), ListV([DictV([(Const("d.e"), Sym(("newval",)))]), DictV([(Const("var_name"), Const("d.e"))])])], "tuple")

        def qget(interp, node, args, kwargs, cfg, out, note=note):
            return [(cfg.hset("dm.status", Sym(("clsattr", "DecoratorManagerStatus", "STOPPED"))), note)]

        summ = {
            "self.notify_q.get": qget,
            "ident_any_values_changed": lambda i, n, a, k, c, o, v=anyc: [(c, Const(v))],
            "ident_values_changed": lambda i, n, a, k, c, o, v=chg: [(c, Const(v))],
            "self.check_expression_vars": lambda i, n, a, k, c, o, v=expr: [(c.emit(("call", "expr-evaluated", (), (), 0)), Const(v))],
            "self.has_expression": lambda i, n, a, k, c, o, v=has_expr: [(c, Const(v))],
            "asyncio.get_running_loop": lambda i, n, a, k, c, o: [(c, ObjV("loop", "Loop"))],
            "loop.time": lambda i, n, a, k, c, o: [(c, Const(100.0))],
        }
        pol = FlowPolicy(program, events=["self.dispatch"], may_raise_all=False, cancel=False, summaries=summ,
                         inline={"StateTriggerDecorator._check_new_state", "StateTriggerDecorator._is_trig_ok", "self._check_new_state", "self._is_trig_ok"})
        pol.loop_unroll = 2
        heap = {"self.state_check_now": Const(False), "self.state_hold_false": NONE, "self.state_hold": NONE, "self.__test_handshake__": NONE,
                "self.dm": ObjV("dm", "DecoratorManager"), "dm.status": Sym(("clsattr", "DecoratorManagerStatus", "RUNNING")), "self.state_trig_ident": ListV((), "set"),
                "self.state_trig_ident_any": ListV((), "set"), "self.notify_q": ObjV("q", "Queue"), "self.in_wait_until_function": Const(False)}
        out = run_flow(program, uid, pol, args={"self": ObjV("self", "StateTriggerDecorator")}, heap=heap)
        disp = set()
        for kind, c, desc in exits(out):
            disp.add(sum(1 for e in c.trace if e[0] == "call" and e[1] == "self.dispatch"))
        results[(has_expr, anyc, chg, expr)] = disp
    bad = []
    for (has_expr, anyc, chg, expr), disp in sorted(results.items()):
        want = 1 if (anyc or (chg and has_expr and expr)) else 0
        if disp != {want}:
            bad.append(f"expression={'yes' if has_expr else 'none'}, any-change matched={anyc}, watched changed={chg}, expression truthy={expr}: {sorted(disp)} dispatch(es), specified {want}")
    ctx.check(not bad, "R04.3b", uid, "new subsystem: dispatch iff any-change matched or (watched changed and expression truthy)",
              msg=f"StateTriggerDecorator._cycle: {bad[:2]}", key="new gating table", node=f, rel="decorators/state.py", sample={"cases": len(results)})


def _gating_legacy(ctx, program):
    uid = "trigger.py::TrigInfo.trigger_watch"
    f = program.func(uid)
    results = {}
    for has_expr, anyc, chg, expr in itertools.product((True, False), (True, False), (True, False), (True, False)):
        note = ListV([Const("state"), ListV([DictV([(Const("d.e"), Sym(("newval",)))]), DictV([(Const("var_name"), Const("d.e"))])])], "tuple")
        state = {"n": 0}

        def qget(interp, node, args, kwargs, cfg, out, note=note):
            seen = cfg.heap.get("$got", Const(0)).v
            if seen >= 1:
                out.add("raise", cfg.set("$exc", ExcV("CancelledError", "end of scenario")))
                return []
            return [(cfg.hset("$got", Const(seen + 1)), note)]

        summ = {
            "self.notify_q.get": qget,
            "ident_any_values_changed": lambda i, n, a, k, c, o, v=anyc: [(c, Const(v))],
            "ident_values_changed": lambda i, n, a, k, c, o, v=chg: [(c, Const(v))],
            "self._call_expression": lambda i, n, a, k, c, o, v=expr: [(c, Const(v))],
            "State.notify_add": lambda i, n, a, k, c, o: [(c, Const(True))],
            "dt_now": lambda i, n, a, k, c, o: [(c, Sym(("now",)))],
        }
        pol = FlowPolicy(program, events=["self.call_action"], may_raise_all=False, cancel=False, summaries=summ)
        pol.loop_unroll = 3
        heap = {"self.state_trigger": ListV([Const("x")]), "self.state_user_watch": NONE, "self.state_trig_eval": ObjV("expr", "AstEval") if has_expr else NONE,
                "self.state_trig_ident_any": ListV((), "set"), "self.active_expr": NONE, "self.event_trigger": NONE, "self.mqtt_trigger": NONE, "self.webhook_trigger": NONE,
                "self.state_check_now": Const(False), "self.state_hold_false": NONE, "self.state_hold": NONE, "self.run_on_startup": Const(False), "self.time_trigger": NONE,
                "self.have_trigger": Const(True), "self.time_active": NONE, "self.time_active_hold_off": NONE, "self.notify_q": ObjV("q", "Queue"),
                "self.state_trigger_kwargs": DictV(()), "self.name": Const("file.x.f")}
        out = run_flow(program, uid, pol, args={"self": ObjV("self", "TrigInfo")}, heap=heap)
        disp = set()
        for kind, c, desc in exits(out):
            disp.add(sum(1 for e in c.trace if e[0] == "call" and e[1] == "self.call_action"))
        results[(has_expr, anyc, chg, expr)] = disp
    bad = []
    for (has_expr, anyc, chg, expr), disp in sorted(results.items()):
        want = 1 if (anyc or (chg and has_expr and expr)) else 0
        if disp != {want}:
            bad.append(f"expression={'yes' if has_expr else 'none'}, any-change matched={anyc}, watched changed={chg}, expression truthy={expr}: {sorted(disp)} run(s), specified {want}")
    ctx.check(not bad, "R04.3b", uid, "legacy: run iff any-change matched or (watched changed and expression truthy)", msg=f"TrigInfo.trigger_watch: {bad[:2]}", key="legacy gating table",
              node=f, rel="trigger.py", sample={"cases": len(results)})


def watched_set_table(ctx, program, rid):
    """Both subsystems on every combination of (any-change names, expression, watch=)."""
    from ..legacy import WATCH, watch_occurrence
    vuid = "decorators/state.py::StateTriggerDecorator.validate"
    for any_names in ((), ("d.btn",)):
        for has_expr in (False, True):
            if not any_names and not has_expr:
                continue
            for watch in (None, ("d.w1", "d.w2")):
                want = sorted(watch) if watch is not None else sorted(set(any_names) | ({"d.mode"} if has_expr else set()))
                label = f"any-change names {list(any_names)}, {'an expression reading d.mode' if has_expr else 'no expression'}, watch={list(watch) if watch else None}"
                # new subsystem: validate()
                args = [Const(n) for n in any_names] + ([Const("d.mode == 'auto'")] if has_expr else [])

                def create_expression(i, n, a, k, c, o):
                    return [(c.hset("self._ast_expression", ObjV("expr", "AstEval")), NONE)]

                summ = {"super().validate": lambda i, n, a, k, c, o: [(c, NONE)], "self.create_expression": create_expression,
                        "STATE_RE.match": lambda i, n, a, k, c, o: [(c, ObjV("m", "Match") if isinstance(a[0], Const) and " " not in a[0].v else NONE)],
                        "self.has_expression": lambda i, n, a, k, c, o: [(c, Const(c.heap.get("self._ast_expression", NONE) != NONE))],
                        "self._ast_expression.get_names": lambda i, n, a, k, c, o: [(c, ListV((Const("d.mode"),), "set"))]}
                pol = FlowPolicy(program, may_raise_all=False, cancel=False, summaries=summ, globals_={"WaitUntilDecoratorManager": ClassV("WaitUntilDecoratorManager")})
                pol.loop_unroll = 4
                heap = {"self.args": ListV(tuple(args), "list"), "self.kwargs": DictV([(Const("watch"), ListV(tuple(Const(w) for w in watch), "list"))] if watch else []),
                        "self.dm": ObjV("dm", "FunctionDecoratorManager"), "self.state_check_now": NONE, "self._ast_expression": NONE, "self.name": Const("f")}
                out = run_flow(program, vuid, pol, args={"self": ObjV("self", "StateTriggerDecorator")}, heap=heap)
                got = set()
                for k, c, d in exits(out):
                    t = c.heap.get("self.state_trig_ident")
                    got.add(tuple(sorted(x.v for x in t.items)) if isinstance(t, ListV) and k == "return" else d)
                ctx.check(got == {tuple(want)}, rid, vuid, f"new subsystem: {label}", msg=f"StateTriggerDecorator.validate with {label}: watches {sorted(got)}, specified {want}: "
                          f"changes of an entity that is not subscribed never reach the trigger", key=f"new watched set {label}", node=program.func(vuid), rel="decorators/state.py")
                # legacy: the subscription made by trigger_watch
                over = {"self.state_trig_ident_any": ListV(tuple(Const(n) for n in any_names), "set"), "self.state_trig_eval": ObjV("fexpr", "AstEval") if has_expr else NONE,
                        "self.state_user_watch": ListV(tuple(Const(w) for w in watch), "list") if watch else NONE, "self.state_trig_ident": NONE}
                recs, _, _ = _legacy_subscription(program, over)
                got = {tuple(sorted(x.v for x in r[0].items)) if r and isinstance(r[0], ListV) else repr(r) for r in recs}
                want = sorted(watch) if watch is not None else sorted(set(any_names) | ({"d.e"} if has_expr else set()))  # the harness' expression reads d.e
                ctx.check(got == {tuple(want)}, rid, WATCH, f"legacy: {label}", msg=f"legacy trigger_watch with {label}: subscribes to {sorted(got)}, specified {want}",
                          key=f"legacy watched set {label}", node=program.func(WATCH), rel="trigger.py")


def _legacy_subscription(program, over):
    from ..legacy import watch_occurrence
    orig = dict(over)
    # the expression's names come from get_names of the expression object
    recs, a, b = watch_occurrence(program, "state", filter_value=True if orig.get("self.state_trig_eval") is not NONE else None, heap_over=orig)
    subs = []
    for r in recs:
        for s_ in r["subscribed"]:
            subs.append(s_)
    return subs, a, b


def var_get_table(ctx, program, rid):
    """State.notify_var_get on every small combination of requested name, event values, last known values and existence."""
    uid = "state.py::State.notify_var_get"
    last_obj, old_obj, new_obj = ObjV("last_de", "StateVal"), ObjV("old_de", "StateVal"), ObjV("new_de", "StateVal")
    names = ["d.e", "d.e.attr", "d.e.old", "d.e.old.attr", "d.other", "d.other.attr", "d.other.old.attr", "plain", "a.b.c.d.e", "state.get", "d.other.upper"]
    for name in names:
        for ev in (False, True):            # the event carries d.e and d.e.old
            for known in (False, True):     # a last value of d.e is recorded
                for exists in (False, True):
                    if exists and (len(name.split(".")) not in (2, 3) or name == "state.get"):
                        continue  # State.exist() is true for names of two or three parts only (and `state.get` is a function, not an entity)
                    new_vars = DictV([(Const("d.e"), new_obj), (Const("d.e.old"), old_obj)] if ev else [])
                    heap = {"State.notify_var_last": DictV([(Const("d.e"), last_obj)] if known else []),
                            "last_de.attr": Const("last-attr"), "old_de.attr": Const("old-attr"), "new_de.attr": Const("new-attr")}
                    pol = FlowPolicy(program, may_raise_all=False, cancel=False, summaries={"cls.exist": lambda i, n, a, k, c, o, e=exists, nm=name: [(c, Const(e if (a and a[0] == Const(nm)) else bool(a and a[0] == Const("d.other") and nm == "d.other.upper")))],
                                                                                            "cls.get": lambda i, n, a, k, c, o: [(c, Sym(("value now", a[0].v if a and isinstance(a[0], Const) else "?")))],
                                                                                            "Function.get": lambda i, n, a, k, c, o: [(c, ObjV("a_function", "function") if a and a[0] == Const("state.get") else NONE)]})
                    pol.loop_unroll = 3
                    out = run_flow(program, uid, pol, args={"cls": ClassV("State"), "var_names": ListV((Const(name),), "list"), "new_vars": new_vars}, heap=heap)
                    parts = name.split(".")
                    ent = ".".join(parts[:2])
                    # reference (documentation of state trigger expressions + the behaviour confirmed on the reviewed tree)
                    if name == "d.other.upper":
                        if exists:
                            continue
                        # a method of the value (`d.other.upper() == 'ON'`): no such attribute, but the entity exists - the method of its value as of the event, never None
                        want = "method of the value now"
                    elif name == "state.get":
                        # the dotted name of a pyscript function (`state.get('x') == 'on'` in an expression): it is not a state variable; bound to None it would hide the function
                        want = "absent"
                    elif ev and name in ("d.e", "d.e.old"):
                        want = {"d.e": new_obj, "d.e.old": old_obj}[name]
                    elif known and name == "d.e":
                        want = last_obj
                    elif ev and len(parts) == 3 and ent == "d.e":
                        # an attribute of the entity the event is about: read from the event's own value (at the end of a hold the event is the one that started it,
                        # not the latest notification)
                        want = Const("new-attr") if parts[2] == "attr" else Const(None)
                    elif known and len(parts) == 3 and ent == "d.e":
                        want = Const("last-attr") if parts[2] == "attr" else Const(None)
                    elif ev and len(parts) == 4 and parts[2] == "old" and ent == "d.e":
                        want = Const("old-attr")
                    elif 2 <= len(parts) <= 4 and not exists:
                        want = Const(None)
                    elif 2 <= len(parts) <= 3:
                        # (State.exist is true for names of two or three parts only) exists but was never notified (unchanged since the trigger started, or outside watch=): its value as of this event - left out, the
                        # evaluator would read it from Home Assistant when the trigger task gets to run, i.e. after the later events of a burst
                        want = Sym(("value now", name))
                    else:
                        want = "absent"
                    got = set()
                    for k, c, d in exits(out):
                        r = c.env.get("$ret")
                        if k != "return" or not isinstance(r, DictV):
                            got.add(d)
                        else:
                            v = r.get(Const(name))
                            if name == "d.other.upper" and v is not None and "value now" in repr(v) and "d.other" in repr(v) and "upper" in repr(v):
                                v = "method of the value now"
                            got.add("absent" if v is None else v)
                    label = f"{name}: event {'carries' if ev else 'lacks'} d.e, last value {'known' if known else 'unknown'}, name {'exists' if exists else 'does not exist'}"
                    ctx.check(got == {want}, rid, uid, label, msg=f"notify_var_get(['{name}']) with {label}: value {sorted(map(repr, got))}, specified {want!r}: the trigger expression is evaluated "
                              f"with a wrong or missing value (NameError/AttributeError makes the trigger false)", key=f"var_get {label}", node=program.func(uid), rel="state.py")


def state_args_table(ctx, program, rid):
    """Argument lists of @state_trigger through the legacy constructor and the new validator + validate()."""
    cases = [
        (["d.a"], {"d.a"}, None), (["d.a.attr"], {"d.a.attr"}, None), (["d.a.*"], {"d.a.*"}, None), (["d.a == '1'"], set(), "d.a == '1'"),
        (["d.a", "d.b == '1'"], {"d.a"}, "d.b == '1'"), (["d.a > 1", "d.b > 2"], set(), "any([d.a > 1, d.b > 2])"),
        ([["d.a", "d.b > 1"], "x.y > 2"], {"d.a"}, "any([d.b > 1, x.y > 2])"), (["d.a.b.c"], set(), "d.a.b.c"), (["plain"], set(), "plain"),
        (["d.a ", ], set(), "d.a "),
    ]

    def to_av(x):
        return ListV(tuple(to_av(y) for y in x), "list") if isinstance(x, list) else Const(x)

    luid = "trigger.py::TrigInfo.__init__"
    nuid = "decorators/state.py::StateTriggerDecorator.validate"
    vuid = "decorators/state.py::_validate_state_trigger_args"
    for args, want_any, want_expr in cases:
        # legacy
        parsed = []
        pol = FlowPolicy(program, may_raise_all=False, cancel=False,
                         summaries={"AstEval": lambda i, n, a, k, c, o: [(c, ObjV("expr", "AstEval"))], "Function.install_ast_funcs": lambda i, n, a, k, c, o: [(c, NONE)],
                                    "self.state_trig_eval.parse": lambda i, n, a, k, c, o, parsed=parsed: (parsed.append(a[0]), [(c, NONE)])[1],
                                    "asyncio.Queue": lambda i, n, a, k, c, o: [(c, ObjV("q", "Queue"))]})
        pol.loop_unroll = 8
        cfg = DictV([(Const("state_trigger"), DictV([(Const("args"), to_av(args)), (Const("kwargs"), DictV([]))])), (Const("action"), ObjV("act", "EvalFunc")), (Const("global_sym_table"), DictV([]))])
        out = run_flow(program, luid, pol, args={"self": ObjV("self", "TrigInfo"), "name": Const("file.x.f"), "trig_cfg": cfg, "global_ctx": ObjV("g", "GlobalContext")})
        got = set()
        for k, c, d in exits(out):
            anyset = c.heap.get("self.state_trig_ident_any")
            got.add((k, frozenset(x.v for x in anyset.items) if isinstance(anyset, ListV) else repr(anyset), tuple(x.v if isinstance(x, Const) else repr(x) for x in parsed)))
        want = {("return", frozenset(want_any), (want_expr,) if want_expr is not None else ())}
        ctx.check(got == want, rid, luid, f"legacy: @state_trigger{tuple(args)}", msg=f"legacy TrigInfo with @state_trigger{tuple(args)}: (any-change names, parsed expression) = {sorted(map(repr, got))}, "
                  f"specified {sorted(map(repr, want))}", key=f"legacy state args {args}", node=program.func(luid), rel="trigger.py")
        # new: validator, then validate()
        polv = FlowPolicy(program, may_raise_all=False, cancel=False, globals_={"vol": Sym(("g", "vol"))})
        polv.loop_unroll = 8
        o0 = run_flow(program, vuid, polv, args={"args": to_av(args)})
        norm_args = [c.env.get("$ret") for k, c, d in exits(o0) if k == "return"]
        created = []

        def create_expression(i, n, a, k, c, o, created=created):
            created.append(a[0])
            return [(c.hset("self._ast_expression", ObjV("expr", "AstEval")), NONE)]

        summ = {"super().validate": lambda i, n, a, k, c, o: [(c, NONE)], "self.create_expression": create_expression,
                "self.has_expression": lambda i, n, a, k, c, o: [(c, Const(c.heap.get("self._ast_expression", NONE) != NONE))],
                "self._ast_expression.get_names": lambda i, n, a, k, c, o: [(c, ListV((Const("d.z"),), "set"))]}
        pol2 = FlowPolicy(program, may_raise_all=False, cancel=False, summaries=summ, globals_={"WaitUntilDecoratorManager": ClassV("WaitUntilDecoratorManager")})
        pol2.loop_unroll = 8
        got2 = set()
        if len(norm_args) == 1 and isinstance(norm_args[0], ListV):
            heap = {"self.args": norm_args[0], "self.kwargs": DictV([]), "self.dm": ObjV("dm", "FunctionDecoratorManager"), "self.state_check_now": NONE, "self._ast_expression": NONE,
                    "self.name": Const("f")}
            o2 = run_flow(program, nuid, pol2, args={"self": ObjV("self", "StateTriggerDecorator")}, heap=heap)
            for k, c, d in exits(o2):
                anyset = c.heap.get("self.state_trig_ident_any")
                got2.add((k, frozenset(x.v for x in anyset.items) if isinstance(anyset, ListV) else repr(anyset), tuple(x.v if isinstance(x, Const) else repr(x) for x in created)))
        else:
            got2.add(("validator", repr(norm_args), ()))
        ctx.check(got2 == want, rid, nuid, f"new: @state_trigger{tuple(args)}", msg=f"new subsystem with @state_trigger{tuple(args)}: (any-change names, expression) = {sorted(map(repr, got2))}, "
                  f"specified {sorted(map(repr, want))}", key=f"new state args {args}", node=program.func(nuid), rel="decorators/state.py")
