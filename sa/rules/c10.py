"""C10 - reload loads exactly what the files and configuration now dictate (changed-set clauses on finite file-tree models)."""

from __future__ import annotations

import ast

from ..absint import NONE, App, Cfg, ClassV, Const, DictV, ExcV, ListV, ObjV, Sym
from ..flow import FlowPolicy, exits, run_flow
from ..repo import AnalysisError, body_walk, call_name, norm, short

LEVEL_TEXT = (
    "decides the changed-set computation of C10 on a catalogue of finite file-tree models, not arbitrary trees: for each "
    "model (unchanged tree, edited / touched / deleted / new file, app configuration change, import chains and diamonds, "
    "package siblings, never-imported package files, reload by name and '*') load_scripts discards exactly the contexts "
    "the statement names and re-executes exactly the auto-loaded ones among them, after stopping and deleting them and "
    "waiting for shutdown triggers; the reload service starts what it loaded; import edges are recorded"
    "; on dotted sub-module imports too; everything a reload re-runs is started by start_global_contexts with the same argument; the configuration remembered for the reload comparison is not aliased by the script's copy; an already loaded module is reused whichever candidate name it was loaded under; a file's context knows its path before its code runs"
    '; importers of a deleted module are re-run; widening for a changed global flag happens once; imports made inside functions are recorded on the defining context'
    '; import closure complete under cycles; a deleted file of an app/module package is a change of the package; one unreadable file does not abort discovery'
)
LEVEL_NOTE = "file discovery (glob, '#' skipping, app gating) is summarised by the model's file table; module re-import during load is not modelled (load_file is an event)"
TECHNIQUE = "abstract interpretation of load_scripts (closure recursion, sets and dicts modelled concretely) on finite file-tree scenarios compared with the statement's expected discard/load sets; ordered events"

LS = "__init__.py::load_scripts"


def _model_run(program, existing, files, reload_arg):
    """existing: {ctx: dict(source, mtime, app_config, imports, file_path)}; files: {ctx: dict(source, mtime, app_config, autoload, rel_path)}."""
    heap = {}
    ctx_objs = {}
    for name, e in existing.items():
        ctx_objs[name] = ObjV("ctx:" + name, "GlobalContext")
    items = ListV([ListV([Const(n), ctx_objs[n]], "tuple") for n in sorted(existing)])
    file_objs = []
    for name, fdesc in files.items():
        o = ObjV("src:" + name, "SourceFile")
        vals = {"global_ctx_name": Const(name), "file_path": Const("/cfg/pyscript/" + fdesc["rel_path"]), "rel_path": Const(fdesc["rel_path"]),
                "rel_import_path": NONE, "fq_mod_name": Const(name.split(".", 1)[1] if "." in name else name), "check_config": Const(False),
                "app_config": Const(fdesc.get("app_config")), "source": Const(fdesc["source"]), "mtime": Const(fdesc["mtime"]), "autoload": Const(fdesc["autoload"]),
                "force": Const(False)}
        for k, v in vals.items():
            heap[f"{o.oid}.{k}"] = v
        file_objs.append((Const(name), o))
    ctx2files = DictV(file_objs)

    def recv(cfg, var):
        v = cfg.env.get(var)
        return existing.get(v.oid[4:]) if isinstance(v, ObjV) and v.oid.startswith("ctx:") else None

    def getter(var, field, wrap=Const):
        def f(interp, node, args, kwargs, cfg, out):
            e = recv(cfg, var)
            if e is None:
                return [(cfg, Sym(("unknown", var, field)))]
            val = e[field]
            if field == "imports":
                return [(cfg, ListV([Const(x) for x in sorted(val)], "set"))]
            return [(cfg, Const(val))]
        return f

    def mgr_get(interp, node, args, kwargs, cfg, out):
        n = args[0].v if args and isinstance(args[0], Const) else None
        return [(cfg, ctx_objs.get(n, Const(None)) if n is not None else Sym(("ctx?",)))]

    summ = {
        "hass.config.path": lambda i, n, a, k, c, o: [(c, Const("/cfg/pyscript"))],
        "GlobalContextMgr.items": lambda i, n, a, k, c, o: [(c, items)],
        "GlobalContextMgr.get": mgr_get,
        "hass.async_add_executor_job": lambda i, n, a, k, c, o: [(c, ctx2files)],
        "ctx.get_source": getter("ctx", "source"), "ctx.get_app_config": getter("ctx", "app_config"), "ctx.get_mtime": getter("ctx", "mtime"),
        "ctx.get_imports": getter("ctx", "imports"), "global_ctx.get_file_path": getter("global_ctx", "file_path"),
        "config_data.get": lambda i, n, a, k, c, o: [(c, Const(None))],
    }

    class P(FlowPolicy):
        def inline_nested(self, fval):
            return True  # the helper(s) load_scripts defines for the import closure are interpreted, whatever they are called

    pol = P(program, events=["global_ctx.stop", "GlobalContextMgr.delete", "Function.waiter_sync", "GlobalContextMgr.load_file"], may_raise_all=False, cancel=False, summaries=summ)
    pol.param_writeback = True
    pol.inline_depth = 12
    pol.loop_unroll = 24  # the import closure is a worklist loop
    pol.max_cfgs = 2000
    out = run_flow(program, LS, pol, args={"hass": Sym(("hass",)), "config_data": Sym(("config",)), "global_ctx_only": Const(reload_arg)}, heap=heap)
    results = []
    for kind, c, desc in exits(out):
        stopped, deleted, loaded, order = [], [], [], []
        for e in c.trace:
            if e[0] != "call":
                continue
            if e[1] == "GlobalContextMgr.delete":
                deleted.append(e[2][0].v if isinstance(e[2][0], Const) else repr(e[2][0]))
                order.append("delete")
            elif e[1] == "global_ctx.stop":
                order.append("stop")
            elif e[1] == "Function.waiter_sync":
                order.append("sync")
            elif e[1] == "GlobalContextMgr.load_file":
                g = e[2][0]
                nm = g.args[1].v if isinstance(g, App) and len(g.args) > 1 and isinstance(g.args[1], Const) else repr(g)
                loaded.append(nm)
                order.append("load")
        results.append((kind, tuple(sorted(deleted)), tuple(sorted(loaded)), tuple(order)))
    return sorted(set(results), key=repr)


def _f(src="s", mtime=1, autoload=True, rel_path=None, app_config=None):
    return {"source": src, "mtime": mtime, "autoload": autoload, "rel_path": rel_path, "app_config": app_config}


def _e(src="s", mtime=1, imports=(), app_config=None, file_path="x"):
    return {"source": src, "mtime": mtime, "imports": set(imports), "app_config": app_config, "file_path": file_path}


def flag_history_rule(ctx, program, rid):
    """update_yaml_config interpreted over histories of flag settings; hass.data persists from call to call."""
    uid = "__init__.py::update_yaml_config"
    flags = ("hass_is_global", "allow_all_imports", "legacy_decorators")
    glob = {"DOMAIN": Const("pyscript"), "CONFIG_ENTRY_OLD": Const("config_entry_old"), "CONF_HASS_IS_GLOBAL": Const(flags[0]), "CONF_ALLOW_ALL_IMPORTS": Const(flags[1]),
            "CONF_LEGACY_DECORATORS": Const(flags[2]), "SOURCE_IMPORT": Const("import")}
    A = {"hass_is_global": False, "allow_all_imports": False}
    B = {"hass_is_global": True, "allow_all_imports": False}
    C = {"hass_is_global": True, "allow_all_imports": True, "legacy_decorators": True}
    # (history of flag settings seen by successive reloads; the first entry establishes the remembered value)
    for hist in ([A, A, A], [A, B, B, B], [A, B, A, A], [A, C, C, B, B], [B, B, C, C, C]):
        heap = {"hass.data": DictV([(Const("pyscript"), DictV([]))])}
        results = []
        bad = None
        for fl in hist:
            data = DictV([(Const(k), Const(v)) for k, v in fl.items()] + [(Const("apps"), DictV([]))])
            pol = FlowPolicy(program, may_raise_all=False, cancel=False, globals_=glob,
                             summaries={"async_hass_config_yaml": lambda i, n, a, k, c, o: [(c, DictV([]))], "PYSCRIPT_SCHEMA": lambda i, n, a, k, c, o, data=data: [(c, DictV(data.items))],
                                        "hass.config_entries.flow.async_init": lambda i, n, a, k, c, o: [(c, NONE)], "hass.data.setdefault": lambda i, n, a, k, c, o: [(c, NONE)]})
            pol.loop_unroll = 4
            h2 = dict(heap)
            h2["config_entry.data"] = data
            out = run_flow(program, uid, pol, args={"hass": ObjV("hass", "HomeAssistant"), "config_entry": ObjV("config_entry", "ConfigEntry")}, heap=h2)
            rets = [(c.env.get("$ret"), c) for k, c, d in exits(out) if k == "return"]
            if len(rets) != 1 or not isinstance(rets[0][0], Const):
                bad = f"{len(rets)} exits / result {[repr(r[0]) for r in rets]}"
                break
            results.append(rets[0][0].v)
            heap = {"hass.data": rets[0][1].heap.get("hass.data")}
        def eff(f):
            return tuple(bool(f.get(k, False)) for k in flags)
        want = [None] + [eff(hist[i]) != eff(hist[i - 1]) for i in range(1, len(hist))]
        if bad is None:
            diffs = [i for i in range(1, len(hist)) if results[i] != want[i]]
            if diffs:
                i = diffs[0]
                bad = (f"reload #{i} (flags {eff(hist[i])}, previous reload had {eff(hist[i - 1])}) returns {results[i]}: "
                       + ("every context is discarded and re-run although nothing changed" if results[i] else "a changed global flag does not reach the running scripts"))
        ctx.check(bad is None, rid, uid, f"flag history {[eff(f) for f in hist]}", msg=f"update_yaml_config over the history {[eff(f) for f in hist]}: {bad}",
                  key=f"flag history {[eff(f) for f in hist]}", node=program.func(uid), rel="__init__.py")


def scenarios():
    S = []
    base_files = {"file.main": _f(rel_path="main.py"), "file.other": _f(rel_path="other.py")}
    base_ex = {"file.main": _e(), "file.other": _e()}
    S.append(("nothing changed", base_ex, base_files, None, (), ()))
    S.append(("one script edited", base_ex, {**base_files, "file.main": _f(src="new", rel_path="main.py")}, None, ("file.main",), ("file.main",)))
    S.append(("one script touched (mtime only)", base_ex, {**base_files, "file.main": _f(mtime=2, rel_path="main.py")}, None, ("file.main",), ("file.main",)))
    S.append(("one script deleted", base_ex, {"file.other": _f(rel_path="other.py")}, None, ("file.main",), ()))
    S.append(("new script", base_ex, {**base_files, "scripts.a.b": _f(rel_path="scripts/a/b.py")}, None, (), ("scripts.a.b",)))
    S.append(("reload *", base_ex, base_files, "*", ("file.main", "file.other"), ("file.main", "file.other")))
    S.append(("reload by name", base_ex, base_files, "file.other", ("file.other",), ("file.other",)))
    S.append(("app configuration changed", {"apps.a1": _e(app_config={"x": 1}), "file.main": _e()},
              {"apps.a1": _f(rel_path="apps/a1.py", app_config={"x": 2}), "file.main": _f(rel_path="main.py")}, None, ("apps.a1",), ("apps.a1",)))
    # import chain main -> m1 -> m2 ; m2 edited
    ex = {"file.main": _e(imports={"modules.m1"}), "modules.m1": _e(imports={"modules.m2"}), "modules.m2": _e(), "file.other": _e()}
    fl = {"file.main": _f(rel_path="main.py"), "file.other": _f(rel_path="other.py"), "modules.m1": _f(autoload=False, rel_path="modules/m1.py"),
          "modules.m2": _f(src="new", autoload=False, rel_path="modules/m2.py")}
    S.append(("import chain, innermost module edited", ex, fl, None, ("file.main", "modules.m1", "modules.m2"), ("file.main",)))
    # diamond main -> {left, right} -> shared -> base ; base edited
    ex = {"file.main": _e(imports={"modules.left", "modules.right"}), "modules.left": _e(imports={"modules.shared"}), "modules.right": _e(imports={"modules.shared"}),
          "modules.shared": _e(imports={"modules.base"}), "modules.base": _e(), "file.other": _e()}
    fl = {"file.main": _f(rel_path="main.py"), "file.other": _f(rel_path="other.py"), "modules.left": _f(autoload=False, rel_path="modules/left.py"),
          "modules.right": _f(autoload=False, rel_path="modules/right.py"), "modules.shared": _f(autoload=False, rel_path="modules/shared.py"),
          "modules.base": _f(src="new", autoload=False, rel_path="modules/base.py")}
    S.append(("diamond import, base module edited", ex, fl, None, ("file.main", "modules.base", "modules.left", "modules.right", "modules.shared"), ("file.main",)))
    # package with a never-imported file: nothing changed
    ex = {"file.main": _e(imports={"modules.pkg"}), "modules.pkg": _e()}
    fl = {"file.main": _f(rel_path="main.py"), "modules.pkg": _f(autoload=False, rel_path="modules/pkg/__init__.py"), "modules.pkg.extra": _f(autoload=False, rel_path="modules/pkg/extra.py")}
    S.append(("package with a never-imported file, nothing changed", ex, fl, None, (), ()))
    # package sibling edited: whole package discarded, importer re-run
    ex = {"file.main": _e(imports={"modules.pkg"}), "modules.pkg": _e(imports={"modules.pkg.sub"}), "modules.pkg.sub": _e(), "file.other": _e()}
    fl = {"file.main": _f(rel_path="main.py"), "file.other": _f(rel_path="other.py"), "modules.pkg": _f(autoload=False, rel_path="modules/pkg/__init__.py"),
          "modules.pkg.sub": _f(src="new", autoload=False, rel_path="modules/pkg/sub.py")}
    S.append(("file inside a module package edited", ex, fl, None, ("file.main", "modules.pkg", "modules.pkg.sub"), ("file.main",)))
    # importer names only a sub-module of a package (import pkg.sub as sub); that sub-module is edited
    ex = {"file.main": _e(imports={"modules.pkg.sub"}), "modules.pkg.sub": _e(), "file.other": _e()}
    fl = {"file.main": _f(rel_path="main.py"), "file.other": _f(rel_path="other.py"), "modules.pkg": _f(autoload=False, rel_path="modules/pkg/__init__.py"),
          "modules.pkg.sub": _f(src="new", autoload=False, rel_path="modules/pkg/sub.py")}
    S.append(("only a package sub-module imported (dotted), that file edited", ex, fl, None, ("file.main", "modules.pkg.sub"), ("file.main",)))
    # ... reached through another module: main -> m1 -> pkg.sub ; pkg/sub.py edited
    ex = {"file.main": _e(imports={"modules.m1"}), "modules.m1": _e(imports={"modules.pkg.sub"}), "modules.pkg.sub": _e(), "file.other": _e()}
    fl = {"file.main": _f(rel_path="main.py"), "file.other": _f(rel_path="other.py"), "modules.m1": _f(autoload=False, rel_path="modules/m1.py"),
          "modules.pkg.sub": _f(src="new", autoload=False, rel_path="modules/pkg/sub.py")}
    S.append(("package sub-module imported through another module, that file edited", ex, fl, None, ("file.main", "modules.m1", "modules.pkg.sub"), ("file.main",)))
    # app package: sibling file edited -> only the app's __init__ re-executed
    ex = {"apps.a1": _e(app_config={"x": 1}, imports={"apps.a1.helper"}), "apps.a1.helper": _e(), "file.main": _e()}
    fl = {"apps.a1": _f(rel_path="apps/a1/__init__.py", app_config={"x": 1}), "apps.a1.helper": _f(src="new", autoload=False, rel_path="apps/a1/helper.py"), "file.main": _f(rel_path="main.py")}
    S.append(("file inside an app package edited", ex, fl, None, ("apps.a1", "apps.a1.helper"), ("apps.a1",)))
    # reload by name of an app package: the package's sibling contexts go with it
    ex = {"apps.a1": _e(app_config={"x": 1}, imports={"apps.a1.helper"}), "apps.a1.helper": _e(), "apps.a10": _e(app_config={"x": 1}), "file.main": _e()}
    fl = {"apps.a1": _f(rel_path="apps/a1/__init__.py", app_config={"x": 1}), "apps.a1.helper": _f(autoload=False, rel_path="apps/a1/helper.py"),
          "apps.a10": _f(rel_path="apps/a10.py", app_config={"x": 1}), "file.main": _f(rel_path="main.py")}
    S.append(("reload an app package by name (a sibling app shares the name prefix)", ex, fl, "apps.a1", ("apps.a1", "apps.a1.helper"), ("apps.a1",)))
    # reload by name of a module: its importers are re-run
    ex = {"file.main": _e(imports={"modules.m1"}), "modules.m1": _e(), "file.other": _e()}
    fl = {"file.main": _f(rel_path="main.py"), "file.other": _f(rel_path="other.py"), "modules.m1": _f(autoload=False, rel_path="modules/m1.py")}
    S.append(("reload a module by name: the importer is re-run", ex, fl, "modules.m1", ("file.main", "modules.m1"), ("file.main",)))
    # unloaded module file changes (nobody imports it): nothing happens
    ex = {"file.main": _e()}
    fl = {"file.main": _f(rel_path="main.py"), "modules.unused": _f(src="new", autoload=False, rel_path="modules/unused.py")}
    S.append(("module nobody imports exists on disk", ex, fl, None, (), ()))
    # imported module file deleted (or renamed with '#'): its importer no longer matches its source's imports and is re-run
    ex = {"file.main": _e(imports={"modules.m1"}), "modules.m1": _e(), "file.other": _e()}
    fl = {"file.main": _f(rel_path="main.py"), "file.other": _f(rel_path="other.py")}
    S.append(("imported module file deleted: the importer is re-run", ex, fl, None, ("file.main", "modules.m1"), ("file.main",)))
    # ... through a chain: main -> m1 -> m2 ; m2 deleted
    ex = {"file.main": _e(imports={"modules.m1"}), "modules.m1": _e(imports={"modules.m2"}), "modules.m2": _e(), "file.other": _e()}
    fl = {"file.main": _f(rel_path="main.py"), "file.other": _f(rel_path="other.py"), "modules.m1": _f(autoload=False, rel_path="modules/m1.py")}
    S.append(("module at the end of an import chain deleted", ex, fl, None, ("file.main", "modules.m1", "modules.m2"), ("file.main",)))
    # import cycle a <-> b (b imports a inside a function): a also imports m, m is edited - b imports a which imports the changed module
    ex = {"file.main": _e(imports={"modules.a"}), "modules.a": _e(imports={"modules.b", "modules.m"}), "modules.b": _e(imports={"modules.a"}), "modules.m": _e(), "file.other": _e()}
    fl = {"file.main": _f(rel_path="main.py"), "file.other": _f(rel_path="other.py"), "modules.a": _f(autoload=False, rel_path="modules/a.py"),
          "modules.b": _f(autoload=False, rel_path="modules/b.py"), "modules.m": _f(src="new", autoload=False, rel_path="modules/m.py")}
    S.append(("import cycle a <-> b, a also imports the edited module", ex, fl, None, ("file.main", "modules.a", "modules.b", "modules.m"), ("file.main",)))
    ex = {"file.main": _e(imports={"modules.z"}), "modules.z": _e(imports={"modules.b", "modules.y"}), "modules.b": _e(imports={"modules.z"}), "modules.y": _e(), "file.other": _e()}
    fl = {"file.main": _f(rel_path="main.py"), "file.other": _f(rel_path="other.py"), "modules.z": _f(autoload=False, rel_path="modules/z.py"),
          "modules.b": _f(autoload=False, rel_path="modules/b.py"), "modules.y": _f(src="new", autoload=False, rel_path="modules/y.py")}
    S.append(("import cycle z <-> b, z also imports the edited module (other iteration order)", ex, fl, None, ("file.main", "modules.b", "modules.y", "modules.z"), ("file.main",)))
    # a file of an app package is deleted (or renamed with '#'): the package contains a change, so the app is re-executed
    ex = {"apps.a1": _e(app_config={"x": 1}, imports={"apps.a1.helper"}), "apps.a1.helper": _e(), "file.main": _e()}
    fl = {"apps.a1": _f(rel_path="apps/a1/__init__.py", app_config={"x": 1}), "file.main": _f(rel_path="main.py")}
    S.append(("file inside an app package deleted", ex, fl, None, ("apps.a1", "apps.a1.helper"), ("apps.a1",)))
    return S


def run(ctx):
    program = ctx.program
    f = program.func(LS)
    ctx.rule("R10.2", "contexts are stopped and deleted and shutdown triggers awaited before anything is loaded; the reload service starts the contexts afterwards", floor=10)
    ctx.rule("R10.S", "load_scripts discards and (re)loads exactly the contexts the statement names, for every file-tree model of the catalogue", floor=16)
    for label, ex, fl, arg, exp_del, exp_load in scenarios():
        res = _model_run(program, ex, fl, arg)
        # a context that is re-loaded under its old name is discarded by load_file itself (stop + delete of the previous context)
        def discarded(r):
            return tuple(sorted(set(r[1]) | (set(r[2]) & set(ex))))
        ok = len(res) == 1 and res[0][0] == "return" and discarded(res[0]) == tuple(sorted(exp_del)) and res[0][2] == tuple(sorted(exp_load)) and len(set(res[0][1])) == len(res[0][1])
        got = [(discarded(r), r[2]) if r[0] == "return" else r[0] for r in res]
        ctx.check(ok, "R10.S", LS, f"model: {label}",
                  msg=f"reload model '{label}': discarded/loaded {got}, the statement requires discarded={tuple(sorted(exp_del))} loaded={tuple(sorted(exp_load))}", key=f"model {label}",
                  node=f, rel="__init__.py", sample={"discarded": list(exp_del), "loaded": list(exp_load)})
        if res and res[0][0] == "return":
            order = res[0][3]
            ok2 = "sync" in order and all(o != "load" for o in order[:order.index("sync")]) and all(o in ("load",) for o in order[order.index("sync") + 1:])
            nstop = order.count("stop")
            ok2 = ok2 and nstop == order.count("delete")
            ctx.check(ok2, "R10.2", LS, f"model: {label}: stop -> delete -> waiter_sync precede every load",
                      msg=f"reload model '{label}': event order {order}; every discarded context must be stopped and deleted and the shutdown triggers awaited before the first load",
                      key=f"order {label}", node=f, rel="__init__.py")
    h = program.func("__init__.py::async_setup_entry.reload_scripts_handler")
    names = [call_name(n) for n in body_walk(h) if isinstance(n, ast.Call)]
    ok = "load_scripts" in names and "start_global_contexts" in names and names.index("load_scripts") < names.index("start_global_contexts") and "install_requirements" in names \
        and names.index("install_requirements") < names.index("load_scripts")
    ctx.check(ok, "R10.2", "__init__.py::async_setup_entry.reload_scripts_handler", "requirements -> load_scripts -> start_global_contexts", msg=f"reload handler call order is {names}",
              key="reload handler order", node=h, rel="__init__.py")
    ok = any(isinstance(k, ast.keyword) and k.arg == "global_ctx_only" and norm(k.value) == "global_ctx_only" for n in body_walk(h) if isinstance(n, ast.Call) and call_name(n) in ("load_scripts", "start_global_contexts") for k in n.keywords)
    ctx.check(ok, "R10.2", "__init__.py::async_setup_entry.reload_scripts_handler", "the reload argument reaches load_scripts and start_global_contexts", msg="reload handler no longer forwards global_ctx to load_scripts/start_global_contexts",
              key="reload argument forwarded", node=h, rel="__init__.py")

    # R10.A the reload comparison's reference value is not reachable from scripts ---------------------------------------------
    ctx.rule("R10.A", "the app configuration remembered for the reload comparison is not aliased by the dictionary handed to the script", floor=2)
    gi = "global_ctx.py::GlobalContext.__init__"
    pol = FlowPolicy(program, may_raise_all=False, cancel=False)
    pol.track_aliases = True
    cfg_in = DictV([(Const("k"), Const(1))], "param.app_config")
    out = run_flow(program, gi, pol, args={"self": ObjV("self", "GlobalContext"), "name": Const("apps.a"), "global_sym_table": Const(None), "manager": Sym(("mgr",)),
                                            "rel_import_path": Const(None), "app_config": cfg_in, "source": Const("s"), "mtime": Const(1)},
                   heap={"param.app_config": DictV([(Const("k"), Const(1))])})
    n_exit = 0
    bad = None
    seen_cfg = False
    for kind, c, desc in exits(out):
        if kind != "return":
            continue
        n_exit += 1
        kept = c.heap.get("self.app_config")
        table = c.heap.get("self.global_sym_table")
        shown = table.get(Const("pyscript.app_config")) if isinstance(table, DictV) else None
        if isinstance(kept, DictV) and kept.items == cfg_in.items:
            seen_cfg = True
        else:
            bad = f"the context remembers {kept!r} instead of the configuration it was loaded with"
        if not isinstance(shown, DictV) or shown.items != cfg_in.items:
            bad = f"the script sees pyscript.app_config = {shown!r}"
        elif shown.origin is not None and (shown.origin == "self.app_config" or (isinstance(kept, DictV) and kept.origin == shown.origin)):
            bad = "pyscript.app_config in the script's globals is the same dictionary object as the one compared on reload: a script that writes a default into its configuration is reloaded on every reload"
    ctx.check(n_exit > 0 and seen_cfg and bad is None, "R10.A", gi, "script-visible app_config is a copy of the remembered one", msg=f"GlobalContext.__init__: {bad or 'no normal exit'}",
              key="app_config alias", node=program.func(gi), rel="global_ctx.py")
    ga = program.func("global_ctx.py::GlobalContext.get_app_config")
    rets = [norm(n.value) for n in body_walk(ga) if isinstance(n, ast.Return) and n.value is not None]
    ctx.check(rets == ["self.app_config"], "R10.A", "global_ctx.py::GlobalContext.get_app_config", "the comparison reads the remembered configuration",
              msg=f"get_app_config returns {rets}; load_scripts compares it with the configuration on disk", key="get_app_config source", node=ga, rel="global_ctx.py")

    # R10.I an unchanged module that is already loaded is not executed again by an import ------------------------------------------
    ctx.rule("R10.I", "module_import reuses a module that is already loaded under any of its candidate context names", floor=10)
    from .c11 import import_reuse_cases
    mi = "global_ctx.py::GlobalContext.module_import"
    for case, got in import_reuse_cases(program):
        ctx.check(got == "ok", "R10.I", mi, f"reuse: {case}", msg=f"module_import: {case}: {got}: an unchanged module would be executed again (and its old context dropped) on reload",
                  key=f"reuse {case}", node=program.func(mi), rel="global_ctx.py")

    ctx.rule("R10.E", "an import executed inside a function is recorded (as an import edge) on the context that defined the function, not on its caller's: "
             "the function body runs with the evaluator switched to the defining context object", floor=2)
    from .c11 import defining_context_rule
    defining_context_rule(ctx, program, "R10.E")
    ctx.rule("R10.Y", "widening to '*' for a changed global flag happens once: a reload whose flags equal those of the previous reload is not widened "
             "(histories of update_yaml_config calls)", floor=4)
    flag_history_rule(ctx, program, "R10.Y")

    ctx.rule("R10.F", "everything a reload (re)loads is also started: start_global_contexts, given the same argument, selects every context load_scripts loaded", floor=10)
    started_table(ctx, program, "R10.F")

    ctx.rule("R10.G", "the context of a file being loaded already carries its file path and source while the code runs (names of relative imports depend on it)", floor=1)
    from .c09 import load_file_identity_rule
    load_file_identity_rule(ctx, program, "R10.G")

    ctx.rule("R10.D", "discovery: load paths cover top level, scripts/**, configured apps and modules; '#' files are skipped; apps need configuration (file-tree model)", floor=2)
    lp = None
    for n in body_walk(f):
        if isinstance(n, ast.Assign) and norm(n.targets[0]) == "load_paths" and isinstance(n.value, ast.List):
            lp = [tuple(ast.literal_eval(e) for e in row.elts) for row in n.value.elts]
    exp = {("", "*.py", False, True), ("apps", "*/__init__.py", True, True), ("apps", "*.py", True, True), ("apps", "*/**/*.py", False, False),
           ("modules", "*/__init__.py", False, False), ("modules", "*.py", False, False), ("modules", "*/**/*.py", False, False), ("scripts", "**/*.py", False, True)}
    ctx.check(lp is not None and set(lp) == exp, "R10.D", LS, "load path table (path, glob, needs app config, autoload)", msg=f"load_paths is {lp}", key="load paths", node=f, rel="__init__.py")
    discovery_table(ctx, program, "R10.D")
    return (
        "Static, source-only: load_scripts (including its recursive import-closure helper, with sets and dictionaries modelled concretely and by-reference parameters written back) is abstractly "
        "interpreted on 14 file-tree models; the GlobalContextMgr.delete / load_file events are compared with the discard and load sets the statement requires, and their order with the "
        "stop -> delete -> waiter_sync -> load discipline.  Discovery table and reload handler order structurally.  Not decided: arbitrary trees and edit sequences, module re-import during load."
    )


def _started(program, names, arg, fresh=()):
    """Interpret start_global_contexts over contexts ``names``; those in ``fresh`` were just (re)loaded (auto-start still off), the others are running."""
    items = ListV([ListV([Const(n), ObjV("ctx:" + n, "GlobalContext")], "tuple") for n in names])
    started = []

    summ = {"GlobalContextMgr.items": lambda i, n, a, k, c, o: [(c, items)]}
    for nm in names:
        # (summaries keyed by the context object, not by the name of the loop variable that holds it)
        summ[f"<ctx:{nm}>.start"] = lambda i, n, a, k, c, o, nm=nm: (started.append(nm), [(c, NONE)])[1]
        summ[f"<ctx:{nm}>.set_auto_start"] = lambda i, n, a, k, c, o: [(c, NONE)]
    pol = FlowPolicy(program, may_raise_all=False, cancel=False, summaries=summ)
    pol.loop_unroll = 2
    heap = {f"ctx:{n}.auto_start": Const(n not in fresh) for n in names}
    out = run_flow(program, "__init__.py::start_global_contexts", pol, args={"global_ctx_only": Const(arg)}, heap=heap)
    if len(exits(out)) != 1:
        return None
    return started


def started_table(ctx, program, rid):
    uid = "__init__.py::start_global_contexts"
    # (a) selection: every context that is not started yet is started (start() of a running context is a no-op, so whether running contexts are
    #     selected again does not matter); nothing outside the four script roots ever is
    names = ["file.a", "apps.garden", "apps.garden.sensors", "apps.gardenia", "scripts.x.y", "modules.m", "jupyter_1", "weird"]
    known = ("file", "apps", "modules", "scripts")
    for arg, fresh in ((None, tuple(names)), ("*", tuple(names)), ("apps.garden", ("apps.garden", "apps.garden.sensors")), ("apps.garden", ("apps.garden", "apps.garden.sensors", "file.a")),
                       ("file.a", ("file.a",)), ("scripts.x", ("scripts.x.y", "jupyter_1")), ("modules.m", ("modules.m", "file.a")), ("file.a", ())):
        allowed = [n for n in names if n.split(".")[0] in known and "." in n]
        must = [n for n in allowed if n in fresh]
        got = _started(program, names, arg, fresh)
        ok = got is not None and set(must) <= set(got) <= set(allowed) and len(set(got)) == len(got)
        ctx.check(ok, rid, uid, f"selection for global_ctx={arg!r}, not yet started: {list(fresh)}",
                  msg=f"start_global_contexts({arg!r}) over {names} (not yet started: {list(fresh)}) starts {got}; it must start {must} and nothing outside {allowed}",
                  key=f"start selection {arg!r} {list(fresh)}", node=program.func(uid), rel="__init__.py")
    # (b) composition with load_scripts on the file-tree models
    for label, ex, fl, arg, exp_del, exp_load in scenarios():
        res = _model_run(program, ex, fl, arg)
        if len(res) != 1 or res[0][0] != "return":
            continue
        loaded = set(res[0][2])
        after = sorted((set(ex) - set(res[0][1])) | loaded)
        got = _started(program, after, arg, fresh=tuple(sorted(loaded)))
        missing = sorted(loaded - set(got or []))
        ctx.check(got is not None and not missing, rid, uid, f"model: {label}", msg=f"reload model '{label}' (global_ctx={arg!r}): load_scripts (re)loads {sorted(loaded)} but start_global_contexts starts only {got}: "
                  f"{missing} {'is' if len(missing) == 1 else 'are'} loaded with auto-start off, its triggers never run until another reload", key=f"started {label}", node=program.func(uid), rel="__init__.py")


DISCOVERY_TREE = ["main.py", "#off.py", "scripts/a/b.py", "scripts/#x/c.py", "scripts/top.py", "apps/a1/__init__.py", "apps/a1/helper.py", "apps/a1.py", "apps/a2.py", "apps/a3.py",
                  "apps/a3pkg/__init__.py", "modules/m1.py", "modules/pkg/__init__.py", "modules/pkg/sub.py", "modules/pkg/#old.py", "notes.txt"]


def _glob_model(pattern, recursive):
    import re as _re
    root = "/cfg/pyscript/"
    rel = pattern[len(root):] if pattern.startswith(root) else pattern.lstrip("/")
    rx = ""
    i = 0
    while i < len(rel):
        if rel.startswith("**/", i) and recursive:
            rx += "(?:.*/)?"
            i += 3
        elif rel[i] == "*":
            rx += "[^/]*"
            i += 1
        else:
            rx += _re.escape(rel[i])
            i += 1
    return sorted(root + f for f in DISCOVERY_TREE if _re.fullmatch(rx, f))


def discovery_table(ctx, program, rid):
    """glob_read_files interpreted on a file-tree model with the load-path table of load_scripts."""
    LSF = program.func(LS)
    lp = None
    for n in body_walk(LSF):
        if isinstance(n, ast.Assign) and norm(n.targets[0]) == "load_paths" and isinstance(n.value, ast.List):
            lp = [tuple(ast.literal_eval(e) for e in row.elts) for row in n.value.elts]
    if lp is None:
        raise AnalysisError("load_scripts: load_paths table not found")
    uid = "__init__.py::load_scripts.glob_read_files"

    def gglob(i, n, a, k, c, o):
        rec = k.get("recursive", Const(False))
        return [(c, ListV([Const(x) for x in _glob_model(a[0].v, bool(getattr(rec, "v", False)))], "list"))]

    pol = FlowPolicy(program, may_raise_all=False, cancel=False, globals_={"pyscript_dir": Const("/cfg/pyscript")},
                     summaries={"glob.glob": gglob, "open": lambda i, n, a, k, c, o: [(c, ObjV("fd", "file"))], "file_desc.read": lambda i, n, a, k, c, o: [(c, Const("src"))],
                                "os.path.getmtime": lambda i, n, a, k, c, o: [(c, Const(1))],
                                "SourceFile": lambda i, n, a, k, c, o: [(c, DictV([(Const(kk), vv) for kk, vv in k.items()]))]})
    pol.loop_unroll = 20
    pol.max_cfgs = 4000
    apps_config = DictV([(Const("a1"), DictV([(Const("x"), Const(1))])), (Const("a2"), DictV([]))])
    load_paths = ListV([ListV([Const(x) for x in row], "list") for row in lp], "list")
    out = run_flow(program, uid, pol, args={"load_paths": load_paths, "apps_config": apps_config})
    want = {
        "file.main": (True, False, None), "scripts.a.b": (True, False, None), "scripts.top": (True, False, None),
        "apps.a1": (True, True, "apps/a1/__init__"), "apps.a2": (True, True, None), "apps.a1.helper": (False, False, None),
        # an unconfigured app package is not run, but its files stay importable (matched by the non-autoload apps/*/**/*.py entry)
        "apps.a3pkg": (False, False, "apps/a3pkg/__init__"),
        "modules.m1": (False, False, None), "modules.pkg": (False, False, "modules/pkg/__init__"), "modules.pkg.sub": (False, False, None),
    }
    got = None
    ex = exits(out)
    for k, c, d in ex:
        r = c.env.get("$ret")
        if k == "return" and isinstance(r, DictV):
            got = {}
            for name, sf in r.items:
                if isinstance(sf, DictV):
                    al, ac, rip = sf.get(Const("autoload")), sf.get(Const("app_config")), sf.get(Const("rel_import_path"))
                    got[name.v] = (getattr(al, "v", None), ac is not None and ac != Const(None), getattr(rip, "v", None))
        else:
            got = d
    # one file that cannot be read (wrong permissions) or decoded (not UTF-8): it alone is skipped, every other file is still discovered
    for exc_cls, what in (("UnicodeDecodeError", "is not valid UTF-8"), ("PermissionError", "cannot be opened")):
        def bad_open(i, n, a, k, c, o, exc_cls=exc_cls):
            if a and a[0] == Const("/cfg/pyscript/scripts/top.py"):
                o.add("raise", c.set("$exc", ExcV(exc_cls, "scripts/top.py")))
                return []
            return [(c, ObjV("fd", "file"))]

        pol_b = FlowPolicy(program, may_raise_all=False, cancel=False, globals_={"pyscript_dir": Const("/cfg/pyscript")},
                           summaries={"glob.glob": gglob, "open": bad_open, "file_desc.read": lambda i, n, a, k, c, o: [(c, Const("src"))],
                                      "os.path.getmtime": lambda i, n, a, k, c, o: [(c, Const(1))],
                                      "SourceFile": lambda i, n, a, k, c, o: [(c, DictV([(Const(kk), vv) for kk, vv in k.items()]))]})
        pol_b.loop_unroll = 20
        pol_b.max_cfgs = 4000
        out_b = run_flow(program, uid, pol_b, args={"load_paths": load_paths, "apps_config": apps_config})
        ex_b = exits(out_b)
        names = None
        if len(ex_b) == 1 and ex_b[0][0] == "return" and isinstance(ex_b[0][1].env.get("$ret"), DictV):
            names = sorted(kk.v for kk, _ in ex_b[0][1].env.get("$ret").items)
        ctx.check(names == sorted(set(want) - {"scripts.top"}), rid, uid, f"discovery when one file {what}",
                  msg=f"glob_read_files when scripts/top.py {what} ({exc_cls}): " + (f"discovers {names}" if names is not None else f"ends with {[d for k, c, d in ex_b]}")
                  + f"; specified: that file is skipped, the others ({sorted(set(want) - {'scripts.top'})}) are found - otherwise the whole reload (every other edit, creation, deletion) is abandoned",
                  key=f"discovery unreadable {exc_cls}", node=program.func(uid), rel="__init__.py")
    ctx.check(len(ex) == 1 and got == want, rid, uid, "discovery on the file-tree model",
              msg=f"glob_read_files on the tree {DISCOVERY_TREE} with apps a1, a2 configured finds (context: autoload, has app config, package path) "
              f"{got}; documented: {want} ('#' files and directories, unconfigured apps, apps/a1.py shadowed by the package and non-.py files are skipped)",
              key="discovery model", node=program.func(uid), rel="__init__.py")
