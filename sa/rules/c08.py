"""C08 - event, MQTT and webhook triggers deliver each message exactly once (structural clauses)."""

from __future__ import annotations

import ast

from ..absint import NONE, App, ClassV, Const, DictV, ExcV, ListV, ObjV, Sym
from ..flow import FlowPolicy, exits, run_flow
from ..repo import AnalysisError, body_walk, call_name, norm, short

LEVEL_TEXT = (
    "decides structural clauses of C08, not ordering under bursts: each source builds the same keyword set in both "
    "subsystems; every fan-out hands each subscriber its own copy of the arguments; the filter expression is evaluated on "
    "exactly the dictionary that is dispatched; an accepted message starts exactly one task through Function.create_task "
    "and a rejected one none; event.fire emits exactly the caller's parameters; every outward call made for a script "
    "carries the run's Home Assistant context, which is created as a child of the occurrence's context and stored before "
    "the function body runs"
    "; the three shared sources keep exactly one Home Assistant registration per subscribed type (made for the first subscriber, its handle called when the last one leaves); in the legacy loop the filter sees the occurrence's arguments before kwargs are merged and starts one run iff it is truthy"
    "; no listener outlives its function when a stop arrives during start; a filter's variables are those of the current message only; evaluations on a decorator's single evaluator are serialised"
    '; event data cannot replace trigger_type/event_type/context; data keys named like internal parameters are delivered; legacy trigger grouping (one task per round, guards on every task, None keywords dropped); webhook ids shared by several decorators are released one by one'
)
LEVEL_NOTE = "loss/duplication/reordering under bursts depends on asyncio queue scheduling and is not decided; Home Assistant's bus is trusted"
TECHNIQUE = "sibling agreement of argument builders, aliasing rule for queue fan-outs, def-use agreement filter/dispatch, flow counting of task creations per path, call-site rule for context passing"

SOURCES = {
    "event": ("event.py::Event.event_listener", "decorators/event.py::EventTriggerDecorator._event_callback"),
    "mqtt": ("mqtt.py::Mqtt.mqtt_message_handler_maker.mqtt_message_handler", "decorators/mqtt.py::MQTTTriggerDecorator._mqtt_message_handler"),
    "webhook": ("webhook.py::Webhook.webhook_handler", "decorators/webhook.py::WebhookTriggerDecorator._handler"),
}


def shared_webhook_rule(ctx, program, rid):
    # host fact, read from the installed library's source: a second registration of an id raises
    import inspect
    from homeassistant.components import webhook as ha_webhook
    src = inspect.getsource(ha_webhook.async_register)
    if "already defined" not in src and "ValueError" not in src:
        ctx.skip(rid, "decorators/webhook.py::WebhookTriggerDecorator.start", "the installed Home Assistant accepts several handlers per webhook id")
        return
    uid = "decorators/webhook.py::WebhookTriggerDecorator.start"

    def register(i, n, a, k, c, o):
        ids = c.heap.get("$registered", ListV((), "set"))
        wid = a[3] if len(a) > 3 else k.get("webhook_id")
        if wid in ids.items:
            o.add("raise", c.set("$exc", ExcV("ValueError", "Handler is already defined!")))
            return []
        return [(c.hset("$registered", ListV(ids.items + (wid,), "set")), NONE)]

    heap = {"$registered": ListV((), "set")}
    # registries that the class shares between its instances (class-level empty dict displays)
    for st in program.cls("decorators/webhook.py::WebhookTriggerDecorator").body:
        tgt = st.target if isinstance(st, ast.AnnAssign) else (st.targets[0] if isinstance(st, ast.Assign) and len(st.targets) == 1 else None)
        if isinstance(tgt, ast.Name) and isinstance(getattr(st, "value", None), ast.Dict) and not st.value.keys:
            heap[f"WebhookTriggerDecorator.{tgt.id}"] = DictV([])
    outcome = []
    for who in ("first", "second"):
        pol = FlowPolicy(program, may_raise_all=False, cancel=False, summaries={"webhook.async_register": register, "super().start": lambda i, n, a, k, c, o: [(c, NONE)]},
                         globals_={"WebhookTriggerDecorator": ClassV("WebhookTriggerDecorator")})
        h = dict(heap)
        h.update({"self.webhook_id": Const("hook1"), "self.local_only": Const(True), "self.methods": ListV((Const("POST"),), "set"), "self.dm": ObjV("dm_" + who, "FunctionDecoratorManager"),
                  "self._registered": Const(False)})
        ex = exits(run_flow(program, uid, pol, args={"self": ObjV("dec_" + who, "WebhookTriggerDecorator")}, heap={(k.replace("self.", f"dec_{who}.") if k.startswith("self.") else k): v for k, v in h.items()}))
        outcome.append([(k, getattr(c.env.get("$exc"), "cls", None)) for k, c, d in ex])
        rets = [c for k, c, d in ex if k == "return"]
        if rets:
            heap = {k: v for k, v in rets[0].heap.items() if k.startswith("$registered") or k.startswith("WebhookTriggerDecorator.")}
    ok = outcome and all(o == [("return", None)] for o in outcome)
    ctx.check(ok, rid, uid, "two decorators, one webhook id", msg=f"WebhookTriggerDecorator.start for two decorators with the id 'hook1' ends {outcome}: the second decorator's start fails "
              f"('Handler is already defined!'), its manager rolls back and the function never triggers - every webhook message for it is lost", key="shared webhook id", node=program.func(uid),
              rel="decorators/webhook.py")


def evaluator_lock_rule(ctx, program, rid):
    """Lock discipline on the shared expression evaluator of the new subsystem (ExpressionDecorator._ast_expression)."""
    uid = "decorators/base.py::ExpressionDecorator.check_expression_vars"
    fn = program.func(uid)
    cls = program.cls("decorators/base.py::ExpressionDecorator")
    evals = [n for n in body_walk(fn) if isinstance(n, ast.Await) and isinstance(n.value, ast.Call) and isinstance(n.value.func, ast.Attribute) and n.value.func.attr == "eval"]
    if not evals:
        raise AnalysisError("check_expression_vars: the evaluation call was not found")
    # attributes of the class that hold an asyncio.Lock (class level or assigned in a method)
    locks = set()
    for n in ast.walk(cls):
        val = getattr(n, "value", None)
        if isinstance(n, (ast.Assign, ast.AnnAssign)) and isinstance(val, ast.Call) and (call_name(val) or "").endswith("Lock"):
            for t in (n.targets if isinstance(n, ast.Assign) else [n.target]):
                locks.add(norm(t).replace("self.", ""))
    for ev in evals:
        recv = norm(ev.value.func.value)
        fresh = any(isinstance(a, ast.Assign) and norm(a.targets[0]) == recv and isinstance(a.value, ast.Call) and call_name(a.value) == "AstEval" for a in body_walk(fn))
        held = None
        p = getattr(ev, "_parent", None)
        while p is not None and p is not fn:
            if isinstance(p, ast.AsyncWith):
                for item in p.items:
                    nms = {norm(item.context_expr).replace("self.", "")}
                    if isinstance(item.context_expr, ast.Name):
                        # a local alias: `lock = self._eval_lock` / `lock = self._eval_lock = asyncio.Lock()` ... `async with lock:`
                        for a in body_walk(fn):
                            if isinstance(a, ast.Assign) and any(isinstance(t, ast.Name) and t.id == item.context_expr.id for t in a.targets):
                                nms.add(norm(a.value).replace("self.", ""))
                                nms |= {norm(t).replace("self.", "") for t in a.targets if isinstance(t, ast.Attribute)}
                    for nm in sorted(nms):
                        if nm in locks and not nm == getattr(item.context_expr, "id", None):
                            held = nm
            p = getattr(p, "_parent", None)
        ctx.check(fresh or held is not None, rid, uid, f"evaluation through {recv} is serialised or uses its own evaluator",
                  msg=f"check_expression_vars awaits `{short(ev.value)}` on the decorator's single evaluator without holding a lock (locks of the class: {sorted(locks) or 'none'}): "
                  f"occurrences are handled concurrently, and a second evaluation replaces the variables of one that is suspended - a matching message is lost or runs start out of order",
                  key="shared evaluator unlocked", node=ev, rel="decorators/base.py")


def _is_copied(name):
    """The occurrence of a dictionary name is the operand of one of Python's shallow-copy idioms: d.copy(), dict(d), dict(d, k=v), {**d}, d | {..}, copy.copy(d), copy.deepcopy(d)."""
    p = getattr(name, "_parent", None)
    if isinstance(p, ast.Attribute) and p.attr == "copy" and isinstance(getattr(p, "_parent", None), ast.Call) and p._parent.func is p:
        return True
    if isinstance(p, ast.Call) and name in p.args and call_name(p) in ("dict", "copy.copy", "copy.deepcopy", "deepcopy"):
        return True
    if isinstance(p, ast.Dict) and any(k is None and v is name for k, v in zip(p.keys, p.values)):
        return True
    if isinstance(p, ast.BinOp) and isinstance(p.op, ast.BitOr):
        return True
    return False


def fanout_copy_rule(ctx, program, rid):
    """Each subscriber queue of a source receives its own copy of the occurrence's arguments (waits and triggers mutate / return what they receive)."""
    for uid in ("state.py::State.update", "event.py::Event.update", "mqtt.py::Mqtt.update", "webhook.py::Webhook.update"):
        f = program.func(uid)
        puts = [n for n in body_walk(f) if isinstance(n, ast.Call) and isinstance(n.func, ast.Attribute) and n.func.attr in ("put", "put_nowait")]
        if not puts:
            raise AnalysisError(f"{uid}: queue.put not found")
        for p in puts:
            inloop = False
            q = getattr(p, "_parent", None)
            while q is not None and q is not f:
                if isinstance(q, (ast.For, ast.AsyncFor)):
                    inloop = True
                q = getattr(q, "_parent", None)
            shared = [m for m in ast.walk(p.args[0]) if isinstance(m, ast.Name) and m.id == "func_args" and not _is_copied(m)]
            ctx.check(inloop and not shared, rid, uid, "per-subscriber put passes func_args.copy()",
                      msg=f"{uid}: `{short(p)}` hands the same func_args dictionary to every subscriber: one function's decorator kwargs (merged in place by the trigger loop) leak into "
                      f"the other functions triggered by the same message", key="fan-out shares func_args", node=p, rel=uid.split("::")[0])
    f = program.func("state.py::State.notify_var_get")
    ctx.check(any(isinstance(n, ast.Name) and n.id == "new_vars" and _is_copied(n) for n in ast.walk(f)), rid, "state.py::State.notify_var_get",
              "per-subscriber variable dictionary is a copy", msg="State.notify_var_get no longer copies new_vars: subscribers would share (and extend) one dictionary", key="notify_var_get copies",
              node=f, rel="state.py")


def filter_scope_rule(ctx, program, rid):
    """Two messages through the same filter evaluator: the scope the expression is evaluated in (AstEval.local_sym_table at the aeval call) after the second."""
    m1 = DictV([(Const("trigger_type"), Const("event")), (Const("arg1"), Const(20)), (Const("arg2"), Const(30))])
    m2 = DictV([(Const("trigger_type"), Const("event")), (Const("arg2"), Const(31))])
    for uid, args, inl in (
        ("trigger.py::TrigInfo._call_expression", lambda m: {"self": ObjV("self", "TrigInfo"), "ast_expr": ObjV("expr", "AstEval"), "notify_info": m},
         {"ast_expr.eval", "AstEval.eval"}),
        ("decorators/base.py::ExpressionDecorator.check_expression_vars", lambda m: {"self": ObjV("self", "ExpressionDecorator"), "state_vars": m},
         {"self._ast_expression.eval", "AstEval.eval"}),
    ):
        seen = []

        def aeval(i, n, a, k, c, o, seen=seen):
            seen.append(c.heap.get("expr.local_sym_table"))
            return [(c, Const(True))]

        pol = FlowPolicy(program, may_raise_all=False, cancel=False, inline=inl,
                         summaries={"self.aeval": aeval, "self.has_expression": lambda i, n, a, k, c, o: [(c, Const(True))]})
        heap = {"expr.local_sym_table": DictV([]), "expr.ast": ObjV("tree", "Expression"), "self._ast_expression": ObjV("expr", "AstEval")}
        # the evaluator's own functions are installed the way Function.install_ast_funcs does it
        o0 = run_flow(program, "eval.py::AstEval.set_local_sym_table", FlowPolicy(program, may_raise_all=False, cancel=False),
                      args={"self": ObjV("expr", "AstEval"), "sym_table": DictV([(Const("print"), Sym(("fn", "print")))])}, heap=heap)
        r0 = [c for k, c, d in exits(o0) if k == "return"]
        if len(r0) != 1:
            raise AnalysisError("AstEval.set_local_sym_table: not a single normal exit")
        heap = dict(r0[0].heap)
        if "ExpressionDecorator" in uid:
            # class-level defaults (constants) are the instance's initial attribute values
            for st in program.cls("decorators/base.py::ExpressionDecorator").body:
                if isinstance(st, ast.AnnAssign) and isinstance(st.target, ast.Name) and isinstance(st.value, ast.Constant):
                    heap.setdefault(f"self.{st.target.id}", Const(st.value.value))
            pol.summaries["asyncio.Lock"] = lambda i, n, a, k, c, o: [(c, ObjV("lock", "Lock"))]
        bad = None
        for m in (m1, m2):
            out = run_flow(program, uid, pol, args=args(m), heap=heap)
            rets = [c for k, c, d in exits(out) if k == "return"]
            if len(rets) != 1:
                bad = f"{len(rets)} normal exits ({[d for k, c, d in exits(out)]})"
                break
            heap = dict(rets[0].heap)
        if bad is None:
            if len(seen) != 2 or not isinstance(seen[1], DictV):
                bad = f"the expression was evaluated {len(seen)} time(s) for two messages"
            else:
                scope = {k.v: v for k, v in seen[1].items if isinstance(k, Const)}
                stale = [k for k in ("arg1",) if k in scope]
                wrong = [k for k, v in m2.items if scope.get(k.v) != v]
                if stale:
                    bad = f"the second message (no arg1) is filtered with the earlier message's {stale} = {[scope[k] for k in stale]} still defined"
                elif wrong:
                    bad = f"the second message's {[k.v for k in wrong]} are not what the expression sees ({scope})"
        ctx.check(bad is None, rid, uid, "scope of the second of two messages",
                  msg=f"{uid}: {bad}: a message lacking a key is judged with a stale value (a non-matching message can start a run)",
                  key="filter scope per message", node=program.func(uid), rel=uid.split("::")[0])


def _arg_keys(program, uid):
    keys, updates = set(), []
    for n in program.walk_with_helpers(uid):
        if isinstance(n, ast.Dict) and any(isinstance(k, ast.Constant) and k.value == "trigger_type" for k in n.keys):
            keys |= {k.value for k in n.keys if isinstance(k, ast.Constant)}
            updates += [norm(v) for k, v in zip(n.keys, n.values) if k is None]  # {**data, ...}: a merge like func_args.update(data)
            vals = {k.value: norm(v) for k, v in zip(n.keys, n.values) if isinstance(k, ast.Constant)}
        if isinstance(n, ast.Assign) and isinstance(n.targets[0], ast.Subscript) and norm(n.targets[0].value) == "func_args" and isinstance(n.targets[0].slice, ast.Constant):
            keys.add(n.targets[0].slice.value)
        if isinstance(n, ast.Call) and call_name(n) == "func_args.update":
            # update(mapping) merges a payload, update(key=value, ..) sets the trigger's own keys
            updates += [norm(a) for a in n.args]
            keys |= {k.arg for k in n.keywords if k.arg is not None}
            updates += [norm(k.value) for k in n.keywords if k.arg is None]
        if isinstance(n, ast.Assign) and norm(n.targets[0]) == "func_args" and isinstance(n.value, ast.Call) and call_name(n.value) == "dict":
            updates += [norm(a) for a in n.value.args]   # dict(payload, key=value, ..)
            keys |= {k.arg for k in n.value.keywords if k.arg is not None}
    return keys, updates


def run(ctx):
    program = ctx.program
    ctx.rule("R08.1", "legacy listener and new decorator of a source build the same keyword arguments", floor=3)
    for src, (legacy, new) in SOURCES.items():
        kl, ul = _arg_keys(program, legacy)
        kn, un = _arg_keys(program, new)
        ctx.check(kl == kn and ul == un and "trigger_type" in kl, "R08.1", new, f"{src}: same keys and payload merge in both subsystems",
                  msg=f"{src} trigger arguments differ between subsystems: legacy keys {sorted(kl)} + update({ul}), new keys {sorted(kn)} + update({un})", key=f"{src} argument keys",
                  node=program.func(new), rel=new.split("::")[0], sample={"keys": sorted(kl)})

    ctx.rule("R08.12", "an event's data cannot pose as the trigger's own arguments: trigger_type is 'event', event_type the event's type and context the event's context whatever "
             "keys the payload carries (a `context` key in the data would cut the context chain of everything the run does; a forged trigger_type/trigger_time misleads the guards); "
             "all other data keys are delivered", floor=2)
    own_arguments_rule(ctx, program, "R08.12")

    ctx.rule("R08.13", "legacy subsystem: a function with several trigger decorators gets one trigger task per round, each with at most one trigger of each type - the ones "
             "not handed out yet - and every task with the function's @state_active / @time_active / @task_unique (a task that inherits an earlier round's event trigger runs "
             "the function twice per event; one that lacks the guards runs unguarded)", floor=3)
    legacy_grouping_table(ctx, program, "R08.13")

    ctx.rule("R08.14", "new subsystem: the decorators sharing a webhook id are each released at their own stop and the Home Assistant registration lives exactly as long as "
             "one of them does (either stop order)", floor=2)
    webhook_release_table(ctx, program, "R08.14")

    ctx.rule("R08.2", "every fan-out gives each subscriber a fresh copy of the argument dictionary", floor=4)
    fanout_copy_rule(ctx, program, "R08.2")

    ctx.rule("R08.3", "the filter expression sees exactly the dictionary that is dispatched; accepted => one task, rejected => none", floor=8)
    for src, (legacy, new) in SOURCES.items():
        f = program.func(new)
        chk = [n for n in body_walk(f) if isinstance(n, ast.Call) and call_name(n) == "self.check_expression_vars"]
        dsp = [n for n in body_walk(f) if isinstance(n, ast.Call) and call_name(n) == "DispatchData"]
        nu = program.unit(new)

        def arg0(c):
            a = program.call_args(nu, c)  # (positional or by the parameter's name)
            return norm(a[0]) if a else None
        ok = len(chk) == 1 and len(dsp) == 1 and arg0(chk[0]) == arg0(dsp[0]) == "func_args" and chk[0].lineno < dsp[0].lineno
        # the check happens after func_args is complete: no later store into func_args
        late = [n for n in body_walk(f) if chk and isinstance(n, (ast.Assign, ast.Call)) and getattr(n, "lineno", 0) > chk[0].lineno and
                (("func_args[" in norm(n) and isinstance(n, ast.Assign)) or (isinstance(n, ast.Call) and call_name(n) == "func_args.update"))]
        ctx.check(ok and not late, "R08.3", new, f"{src}: filter evaluated on the complete func_args that is dispatched",
                  msg=f"{new}: the filter is evaluated on `{arg0(chk[0]) if chk else '?'}` but `{arg0(dsp[0]) if dsp else '?'}` is dispatched (documented filter variables "
                  f"trigger_type/event_type/context would be undefined, or stale values of an earlier message used)", key=f"{src} filter input", node=f, rel=new.split("::")[0])
        pol = FlowPolicy(program, events=["self.dispatch"], may_raise_all=False, cancel=False)
        out = run_flow(program, new, pol)
        bad = None
        for kind, c, desc in exits(out):
            n_d = sum(1 for e in c.trace if e[0] == "call")
            rejected = any("check_expression_vars" in repr(a) and not v for a, v in c.assume)
            has_expr = [v for a, v in c.assume if "has_expression" in repr(a)]
            if rejected and n_d != 0:
                bad = "dispatch although the filter was falsy"
            if not rejected and kind == "return" and n_d != 1:
                bad = f"{n_d} dispatches for an accepted message"
        ctx.check(bad is None, "R08.3", new, f"{src}: exactly one dispatch per accepted message, none when filtered", msg=f"{new}: {bad}", key=f"{src} dispatch count", node=f, rel=new.split("::")[0])
    from ..legacy import WATCH, watch_occurrence
    tw = program.func(WATCH)
    for kind in ("event", "mqtt", "webhook"):
        uk = DictV([(Const("extra"), Const(1))])
        for fv in (True, False, 0, "yes"):
            recs, occ, _ = watch_occurrence(program, kind, filter_value=fv, user_kwargs=uk)
            bad = None if recs else "no exit"
            for r in recs:
                fin = [f[1] for f in r["filter_inputs"] if len(f) > 1]
                if fin != [occ]:
                    bad = f"the filter expression is evaluated on {fin!r}, the occurrence's arguments are {occ!r}"
                elif len(r["runs"]) != (1 if fv else 0):
                    bad = f"{len(r['runs'])} run(s) although the filter evaluated to {fv!r}"
            ctx.check(bad is None, "R08.3", WATCH, f"legacy {kind}: filter value {fv!r} evaluated on the occurrence's arguments, one run iff truthy",
                      msg=f"legacy trigger_watch, {kind} occurrence, filter value {fv!r}: {bad}", key=f"legacy {kind} filter {fv!r}", node=tw, rel="trigger.py")
        # an expression that raises for this message (a payload without the field it reads): no run, and the trigger goes on to the next message
        from ..legacy import RAISES
        recs, occ, _ = watch_occurrence(program, kind, filter_value=RAISES, user_kwargs=uk)
        bad = None if recs else "no exit"
        for r in recs:
            if r["runs"]:
                bad = f"{len(r['runs'])} run(s) although the expression raised"
            elif "end of scenario" not in r["ended"]:
                bad = f"the exception of the expression ends the trigger loop ({r['ended']}) instead of waiting for the next message: one bad message and the function is never triggered again"
        ctx.check(bad is None, "R08.3", WATCH, f"legacy {kind}: an exception of the filter expression rejects the message only",
                  msg=f"legacy trigger_watch, {kind} occurrence, filter expression raises: {bad}", key=f"legacy {kind} filter raises", node=tw, rel="trigger.py")
    # one task per occurrence
    for uid, n_exp in (("trigger.py::TrigInfo.call_action", 1), ("decorator.py::FunctionDecoratorManager.dispatch", 1)):
        f = program.func(uid)
        cs = [n for n in body_walk(f) if isinstance(n, ast.Call) and call_name(n) == "Function.create_task"]
        ctx.check(len(cs) == n_exp and not any(isinstance(getattr(c, "_parent", None), (ast.For, ast.While)) for c in cs), "R08.3", uid, "one Function.create_task per accepted occurrence",
                  msg=f"{uid} contains {len(cs)} Function.create_task call sites", key="one task per occurrence", node=f, rel=uid.split("::")[0])

    ctx.rule("R08.4", "event.fire emits the caller's keyword parameters unchanged (a Context-typed context is taken as the context)", floor=8)
    ef_uid = "function.py::Function.event_fire"
    f = program.func(ef_uid)
    user_ctx, task_ctx = ObjV("userctx", "Context"), ObjV("taskctx", "Context")
    for cval, clabel in ((None, "no context parameter"), (user_ctx, "a Context object"), (Const("hallway"), "a string called context"), (Const(None), "context=None")):
        for has_task_ctx in (True, False):
            kw = DictV(([(Const("context"), cval)] if cval is not None else []) + [(Const("level"), Const(5))])
            fired = []

            def fire(i, n, a, k, c, o, fired=fired):
                fired.append((tuple(a), dict(k)))
                return [(c, NONE)]

            pol = FlowPolicy(program, may_raise_all=False, cancel=False, globals_={"Context": ClassV("Context")},
                             summaries={"cls.hass.bus.async_fire": fire, "asyncio.current_task": lambda i, n, a, k, c, o: [(c, Const("T"))]})
            heap = {"Function.task2context": DictV([(Const("T"), task_ctx)] if has_task_ctx else [])}
            run_flow(program, ef_uid, pol, args={"cls": ClassV("Function"), "event_type": Const("my_event"), "kwargs": kw}, heap=heap)
            is_ctx = cval == user_ctx
            want_data = {"level": Const(5)}
            if cval is not None and not is_ctx:
                want_data["context"] = cval
            want_ctx = user_ctx if is_ctx else (task_ctx if has_task_ctx else NONE)
            bad = None
            if len(fired) != 1:
                bad = f"{len(fired)} events fired"
            else:
                a, k = fired[0]
                data = {kk.v: vv for kk, vv in a[1].items} if len(a) > 1 and isinstance(a[1], DictV) else None
                if a[:1] != (Const("my_event"),) or data != want_data:
                    bad = f"event {a[:1]} with data {data}, specified data {want_data}"
                elif k.get("context", NONE) != want_ctx:
                    bad = f"event context {k.get('context')!r}, specified {want_ctx!r}"
            ctx.check(bad is None, "R08.4", ef_uid, f"event.fire with {clabel}, task context {'known' if has_task_ctx else 'unknown'}",
                      msg=f"event.fire('my_event', level=5, ...) with {clabel}: {bad}: the caller's keyword parameters must arrive unchanged as event data (only a Context-typed `context` is taken as the event's context)",
                      key=f"event.fire {clabel} {has_task_ctx}", node=f, rel="function.py")

    ctx.rule("R08.5", "outward calls made for a script carry the run's context; the run's context is a child of the occurrence's and stored before the body runs", floor=8)
    OUT = ("async_fire", "async_call", "async_set", "async_remove")
    for u in program.functions():
        if u.rel.startswith("stubs/") or u.rel in ("jupyter_kernel.py", "config_flow.py"):
            continue
        for n in body_walk(u.node):
            if isinstance(n, ast.Call) and isinstance(n.func, ast.Attribute) and n.func.attr in OUT and "hass" in norm(n.func) \
                    and not norm(n.func).endswith("services.async_remove"):  # removing a service registration has no context parameter
                if u.uid in ("__init__.py::restore_state", "__init__.py::async_setup_entry.jupyter_kernel_start", "__init__.py::async_setup_entry.jupyter_kernel_start.state_var_remove"):
                    continue  # integration's own state, not on behalf of a script
                has_ctx = any(k.arg == "context" for k in n.keywords) or any(k.arg is None and ("hass_args" in norm(k.value) or "context_arg" in norm(k.value)) for k in n.keywords)
                ctx.check(has_ctx, "R08.5", u.uid, f"`{short(n, 50)}` passes context", msg=f"{u.uid}: `{short(n)}` is made without the run's Home Assistant context: the logbook cannot attribute it to the triggering occurrence",
                          key=f"outward call without context {n.func.attr}", node=n, rel=u.rel)
    occ = ObjV("occ_ctx", "Context")
    for uid, selfcls, argname in (("trigger.py::TrigInfo.call_action", "TrigInfo", "func_args"), ("decorator.py::FunctionDecoratorManager.dispatch", "FunctionDecoratorManager", None)):
        f = program.func(uid)
        for cval, clabel in ((occ, "a Context"), (Const("text"), "a non-Context value"), (None, "no context")):
            made = []

            def new_ctx(i, n, a, k, c, o, made=made):
                made.append((tuple(a), dict(k)))
                return [(c, ObjV(f"run_ctx{len(made)}", "Context"))]

            fa = DictV([(Const("trigger_type"), Const("event"))] + ([(Const("context"), cval)] if cval is not None else []))
            pol = FlowPolicy(program, may_raise_all=False, cancel=False, globals_={"Context": ClassV("Context")},
                             summaries={"Context": new_ctx, "self.get_decorators": lambda i, n, a, k, c, o: [(c, ListV((), "list"))]})
            pol.loop_unroll = 2
            heap = {"occ_ctx.id": Const("OCC-ID"), "self.task_unique": NONE, "self.task_unique_kwargs": NONE, "self.name": Const("file.x.f"), "self.action": ObjV("act", "EvalFunc"),
                    "act.global_ctx_name": Const("file.x"), "act.name": Const("f"), "self.eval_func": ObjV("act", "EvalFunc"), "data.func_args": fa, "data.trigger": NONE}
            args = {"self": ObjV("self", selfcls)}
            if argname:
                args.update({"notify_type": Const("event"), argname: fa, "run_task": Const(True)})
            else:
                args["data"] = ObjV("data", "DispatchData")
            run_flow(program, uid, pol, args=args, heap=heap)
            want = {"parent_id": Const("OCC-ID")} if cval == occ else {}
            ok = len(made) == 1 and made[0][0] == () and made[0][1] == want
            ctx.check(ok, "R08.5", uid, f"run context for an occurrence carrying {clabel}",
                      msg=f"{uid}: for an occurrence carrying {clabel} the run's Home Assistant context is created as {[('Context', a, k) for a, k in made]}, specified Context({', '.join(f'{k}={v!r}' for k, v in want.items())}): "
                      f"the logbook cannot link the run to the triggering occurrence", key=f"child context {clabel}", node=f, rel=uid.split("::")[0])
    context_owner_rule(ctx, program, "R08.5")
    ctx.rule("R08.6", "shared source listeners: one bus/broker/webhook registration per subscribed type - made when the first subscriber arrives, "
             "released (handle called) when the last one leaves, so re-subscription never doubles the deliveries; a subscriber overtaken by another one of the same type "
             "while its registration is awaited leaves exactly one registration behind", floor=33)
    listener_table(ctx, program, "R08.6")
    ctx.rule("R08.11", "an event is delivered with exactly its data as keyword arguments and event.fire() carries exactly the given parameters, whatever the keys are "
             "called: the functions the data passes through (event.fire, both subsystems' run wrappers, the interpreter's call) take their own parameters positional-only", floor=3)
    from .c03 import kwargs_namespace_rule
    kwargs_namespace_rule(ctx, program, "R08.11", only=("function.py::Function.event_fire", "trigger.py::TrigInfo.call_action.do_func_call", "eval.py::AstEval.call_func"))
    ctx.rule("R08.15", "legacy shared sources: a registration that Home Assistant refuses leaves no entry behind (an empty entry makes every later subscriber of that id skip the "
             "registration and wait for messages that never come)", floor=3)
    refused_registration_table(ctx, program, "R08.15")
    ctx.rule("R08.8", "the variables a filter expression sees are those of the current message only: a key carried by an earlier message and absent from this one is "
             "not visible (both subsystems' evaluation helpers)", floor=2)
    filter_scope_rule(ctx, program, "R08.8")
    ctx.rule("R08.10", "new subsystem: two @webhook_trigger decorators for one webhook id (on one function with different filters, or on two functions) are both served - "
             "as two @event_trigger of one event type are, and as the legacy subsystem does; Home Assistant accepts one handler per id (host fact), so the registration must be shared", floor=1)
    shared_webhook_rule(ctx, program, "R08.10")
    ctx.rule("R08.9", "a filter/guard expression is evaluated by one evaluator object whose variables are replaced per evaluation; occurrences are handled in tasks of their own, "
             "so the evaluation is serialised (held under the decorator's lock from the variable update to the result) - otherwise a filter that suspends is judged with the next "
             "message's variables (lost message, reordered runs)", floor=1)
    evaluator_lock_rule(ctx, program, "R08.9")
    ctx.rule("R08.7", "no event listener of a function outlives it: a manager stopped while its start loop is suspended registers no further listener (an old and a new "
             "definition would both run for each event)", floor=2)
    from .c15 import start_typestate
    start_typestate(ctx, program, "R08.7")
    return (
        "Static, source-only: sibling agreement of the six argument builders, aliasing rule on the four fan-out loops, def-use agreement between filter input and dispatched "
        "dictionary plus per-path dispatch counting (flow analysis), call-site rule for context=, ordering of context storage.  Not decided: loss, duplication or reordering under bursts."
    )


LISTENER_CLASSES = (("Event", "event.py"), ("Mqtt", "mqtt.py"), ("Webhook", "webhook.py"))
ACQUIRE_CALLS = ("async_listen", "async_subscribe", "async_register")


class _ListenerPolicy(FlowPolicy):
    raced_applied = False  # a synchronous registration cannot be overtaken: the scenario then degenerates to the plain first subscriber
    raced = None  # (heap key of the table, heap key of the handles, type, queue): what another subscriber did while the registration was awaited

    def call(self, interp, node, fname, fval, args, kwargs, cfg, out):
        if isinstance(fval, Sym) and fval.tag and fval.tag[0] == "handle":
            return [(cfg.emit(("call", "handle", fval.tag[1])), NONE)]
        if isinstance(fval, App) and fval.op == "res" and fval.args and isinstance(fval.args[0], Const) and str(fval.args[0].v).split(".")[-1] in ACQUIRE_CALLS:
            return [(cfg.emit(("call", "handle", "own")), NONE)]  # the un-listen handle this very call obtained
        return super().call(interp, node, fname, fval, args, kwargs, cfg, out)

    def on_await(self, interp, node, cfg):
        name = call_name(node.value) if isinstance(node.value, ast.Call) else None
        pending = bool(name) and name.split(".")[-1] in ACQUIRE_CALLS
        anc = getattr(node, "_parent", None)
        while pending and anc is not None:
            if isinstance(anc, ast.AsyncWith):
                pending = False  # the registration is serialised (async with <lock>): nobody completes notify_add meanwhile; the scenario degenerates to the plain case
            anc = getattr(anc, "_parent", None)
        cfg = super().on_await(interp, node, cfg)
        if pending and self.raced:
            self.raced_applied = True
            # the registration suspended this subscriber; meanwhile another one completed notify_add of the same type
            tab_key, rem_key, typ, q = self.raced
            tab, rem = cfg.heap.get(tab_key), cfg.heap.get(rem_key)
            if isinstance(tab, DictV) and isinstance(rem, DictV) and tab.get(Const(typ)) is None:
                cfg = cfg.hset(tab_key, DictV(list(tab.items) + [(Const(typ), _set(q))]))
                cfg = cfg.hset(rem_key, DictV(list(rem.items) + [(Const(typ), Sym(("handle", "other")))]))
        return cfg


def _set(*qs):
    return ListV(tuple(Const(q) for q in qs), "set")


def listener_table(ctx, program, rid):
    """notify_add / notify_del of the three shared sources interpreted on every small subscriber table (transition table)."""
    H = lambda t: Sym(("handle", t))  # noqa: E731
    # (label, table before {type: queues}, operation, type, queue, acquisitions expected, handles expected to be called, table after)
    cases = [
        ("first subscriber of a type", {}, "add", "t", "q0", 1, [], {"t": ["q0"]}),
        ("second subscriber of a type", {"t": ["q1"]}, "add", "t", "q0", 0, [], {"t": ["q1", "q0"]}),
        ("same subscriber again", {"t": ["q0"]}, "add", "t", "q0", 0, [], {"t": ["q0"]}),
        ("first subscriber, other type present", {"u": ["q2"]}, "add", "t", "q0", 1, [], {"u": ["q2"], "t": ["q0"]}),
        ("last subscriber leaves", {"t": ["q0"]}, "del", "t", "q0", 0, ["t"], {}),
        ("one of two leaves", {"t": ["q0", "q1"]}, "del", "t", "q0", 0, [], {"t": ["q1"]}),
        ("non-subscriber leaves", {"t": ["q1"]}, "del", "t", "q0", 0, [], {"t": ["q1"]}),
        ("unknown type", {}, "del", "t", "q0", 0, [], {}),
        ("last subscriber leaves, other type stays", {"t": ["q0"], "u": ["q2"]}, "del", "t", "q0", 0, ["t"], {"u": ["q2"]}),
        # two cooperating subscribers: while this one's registration is awaited, another task completes notify_add of the same type (queue q1, handle 'other').
        # Exactly one registration may remain: one of the two handles is released and the other one is the one kept for the type.
        ("first subscriber overtaken during the registration", {}, "add-raced", "t", "q0", 1, None, {"t": ["q0", "q1"]}),
        ("first subscriber overtaken during the registration, other type present", {"u": ["q2"]}, "add-raced", "t", "q0", 1, None, {"u": ["q2"], "t": ["q0", "q1"]}),
    ]
    for cls, rel in LISTENER_CLASSES:
        for label, before, op, typ, q, n_acq, handles, after in cases:
            raced = op == "add-raced"
            op = "add" if raced else op
            uid = f"{rel}::{cls}.notify_{op}"
            fn = program.func(uid)
            params = [a.arg for a in fn.args.args]
            pol = _ListenerPolicy(program, may_raise_all=False, cancel=False,
                                  events=[lambda l: "acquire" if l and l.split(".")[-1] in ACQUIRE_CALLS else None])
            heap = {f"{cls}.notify": DictV([(Const(t), _set(*qs)) for t, qs in before.items()]),
                    f"{cls}.notify_remove": DictV([(Const(t), H(t)) for t in before]), f"{cls}.hass": Sym(("hass",))}
            args = {"cls": ClassV(cls), params[1]: Const(typ), "queue": Const(q)}
            if raced:
                pol.raced = (f"{cls}.notify", f"{cls}.notify_remove", typ, "q1")
            pol.track_aliases = True  # the subscriber set of a type read into a local is still the element of the table
            out = run_flow(program, uid, pol, args=args, heap=heap)
            bad = None
            n = 0
            if raced and not pol.raced_applied:
                raced, after = False, {t: [x for x in qs if x != "q1"] for t, qs in after.items()}
                handles = []
            for kind, c, desc in exits(out):
                n += 1
                if kind != "return":
                    bad = f"leaves with {desc}"
                    continue
                acq = len([e for e in c.trace if e[0] == "call" and e[1] == "acquire"])
                called = [e[2] for e in c.trace if e[0] == "call" and e[1] == "handle"]
                tab = c.heap.get(f"{cls}.notify")
                rem = c.heap.get(f"{cls}.notify_remove")
                got_tab = {k.v: sorted(x.v for x in v.items) for k, v in tab.items} if isinstance(tab, DictV) and all(isinstance(v, ListV) for _, v in tab.items) else repr(tab)
                want_tab = {t: sorted(qs) for t, qs in after.items()}
                rem_keys = sorted(k.v for k, v in rem.items if v != NONE) if isinstance(rem, DictV) else repr(rem)
                if acq != n_acq:
                    bad = f"{acq} registration(s) with Home Assistant, expected {n_acq}"
                elif raced:
                    kept = rem.get(Const(typ)) if isinstance(rem, DictV) else None
                    kept = kept.tag[1] if isinstance(kept, Sym) and kept.tag and kept.tag[0] == "handle" else ("own" if isinstance(kept, App) and kept.op == "res" else repr(kept))
                    if sorted(called + [kept]) != ["other", "own"]:
                        bad = (f"two registrations of the type exist (this subscriber's and the one another subscriber made during the await); released: {called}, kept for the type: {kept!r} - "
                               f"exactly one of them has to be released and the other kept, or every message is delivered twice and one registration is never released")
                    elif got_tab != want_tab:
                        bad = f"subscriber table becomes {got_tab}, expected {want_tab} (the subscriber that registered during the await is lost)"
                    elif rem_keys != sorted(after):
                        bad = f"un-listen handles kept for {rem_keys}, expected {sorted(after)}"
                elif called != handles:
                    bad = f"un-listen handles called: {called}, expected {handles}"
                elif got_tab != want_tab:
                    bad = f"subscriber table becomes {got_tab}, expected {want_tab}"
                elif rem_keys != sorted(after):
                    bad = f"un-listen handles kept for {rem_keys}, expected {sorted(after)}"
            ctx.check(n > 0 and bad is None, rid, uid, f"{cls}.notify_{op}: {label}",
                      msg=f"{cls}.notify_{op}({typ!r}, {q}) on subscriber table {before}{' with notify_add(' + repr(typ) + ', q1) of another task completing during the registration await' if raced else ''}: {bad or 'no exit'} - a listener that outlives its last subscriber (or a missing one) "
                      f"makes every later occurrence start zero or several runs per trigger", key=f"{cls} {op} {label}", node=fn, rel=rel)


def own_arguments_rule(ctx, program, rid):
    legacy, new = SOURCES["event"] if "event" in SOURCES else next(v for k, v in SOURCES.items() if "event" in k.lower())
    ev_ctx = ObjV("event_context", "Context")
    data = DictV([(Const("n"), Const(1)), (Const("trigger_type"), Const("time")), (Const("event_type"), Const("other")), (Const("context"), Const("kitchen")),
                  (Const("trigger_time"), Const("forged"))])
    for uid in (legacy, new):
        seen = []

        def capture(i, n, a, k, c, o):
            d = next((x for x in a if isinstance(x, DictV)), None)
            seen.append(d)
            return [(c, d if n == "DispatchData" else NONE)]

        pol = FlowPolicy(program, may_raise_all=False, cancel=False,
                         summaries={"cls.update": capture, "DispatchData": capture, "self.dispatch": lambda i, n, a, k, c, o: [(c, NONE)], "self.has_expression": lambda i, n, a, k, c, o: [(c, Const(False))]})
        f = program.func(uid)
        args = {("cls" if f.args.args[0].arg == "cls" else "self"): (ClassV("Event") if f.args.args[0].arg == "cls" else ObjV("self", "EventTriggerDecorator")), "event": ObjV("event", "Event")}
        out = run_flow(program, uid, pol, args=args, heap={"event.event_type": Const("ev"), "event.context": ev_ctx, "event.data": data})
        ex = exits(out)
        bad = None
        if not ex or any(k != "return" for k, c, d in ex) or not seen or not all(isinstance(d, DictV) for d in seen):
            bad = f"exits {[d for k, c, d in ex]}, arguments {seen!r}"
        else:
            got = dict(seen[-1].items)
            want = {Const("trigger_type"): Const("event"), Const("event_type"): Const("ev"), Const("context"): ev_ctx, Const("n"): Const(1), Const("trigger_time"): Const("forged")}
            if got != want:
                bad = "the function is called with " + ", ".join(f"{k.v}={got.get(k)!r}" for k in want if got.get(k) != want[k]) + " (specified: " + \
                      ", ".join(f"{k.v}={want[k]!r}" for k in want if got.get(k) != want[k]) + ")"
        ctx.check(bad is None, rid, uid, "payload keys do not replace trigger_type / event_type / context",
                  msg=f"{uid} for an event 'ev' whose data is {{n: 1, trigger_type: 'time', event_type: 'other', context: 'kitchen', trigger_time: ...}}: {bad}",
                  key="event own arguments", node=f, rel=uid.split("::")[0])


def legacy_grouping_table(ctx, program, rid):
    """EvalFunc.trigger_init interpreted on concrete decorator lists: the argument dictionaries handed to get_trig_info, round by round."""
    uid = "eval.py::EvalFunc.trigger_init"
    glob = {"TRIG_SERV_DECORATORS": ListV(tuple(Const(x) for x in ("service", "state_trigger", "event_trigger", "time_trigger", "mqtt_trigger", "webhook_trigger", "state_active",
                                                                   "time_active", "task_unique")), "set"), "DOMAIN": Const("pyscript")}

    def dec(name, *args, **kw):
        return ListV((Const(name), ListV(tuple(Const(a) for a in args), "list"), DictV([(Const(k), Const(v)) for k, v in kw.items()]) if kw else Const(None)), "list")

    cases = [
        ("two state triggers, one event trigger, guards", [dec("state_trigger", "d.a == '1'"), dec("state_trigger", "d.b == '1'"), dec("event_trigger", "ev"), dec("state_active", "d.g == '1'"),
                                                           dec("task_unique", "n", kill_me=True), dec("time_active", "range(8:00, 9:00)")],
         [{"state_trigger": "d.a == '1'", "event_trigger": "ev", "state_active": "d.g == '1'", "task_unique": "n", "time_active": "range(8:00, 9:00)"},
          {"state_trigger": "d.b == '1'", "state_active": "d.g == '1'", "task_unique": "n", "time_active": "range(8:00, 9:00)"}]),
        ("three event triggers, one webhook trigger", [dec("event_trigger", "e1"), dec("event_trigger", "e2"), dec("webhook_trigger", "hook"), dec("event_trigger", "e3"), dec("task_unique", "n")],
         [{"event_trigger": "e1", "webhook_trigger": "hook", "task_unique": "n"}, {"event_trigger": "e2", "task_unique": "n"}, {"event_trigger": "e3", "task_unique": "n"}]),
        ("one trigger of each of two types", [dec("state_trigger", "d.a == '1'"), dec("time_trigger", "once(3:00)")], [{"state_trigger": "d.a == '1'", "time_trigger": "once(3:00)"}]),
        # keyword arguments given as None (accepted by the validation: None is every keyword's default) are the same as omitted ones
        ("keywords given as None", [dec("event_trigger", "ev", kwargs=None), dec("state_trigger", "d.a == '1'", kwargs=None, state_hold=None), dec("time_trigger", "shutdown", kwargs=None)],
         [{"event_trigger": "ev", "state_trigger": "d.a == '1'", "time_trigger": "shutdown"}]),
    ]
    for label, decs, want in cases:
        made = []

        nones = []

        def get_trig_info(i, n, a, k, c, o, made=made, nones=nones):
            d = a[1] if len(a) > 1 else None
            row = {}
            if isinstance(d, DictV):
                for kk, vv in d.items:
                    kws = vv.get(Const("kwargs")) if isinstance(vv, DictV) else None
                    if isinstance(kws, DictV):
                        nones.extend(f"@{kk.v}({k2.v}=None)" for k2, v2 in kws.items if v2 == Const(None))
            if isinstance(d, DictV):
                for kk, vv in d.items:
                    if kk.v in ("action", "global_sym_table"):
                        continue
                    args = vv.get(Const("args")) if isinstance(vv, DictV) else None
                    row[kk.v] = args.items[0].v if isinstance(args, ListV) and args.items and isinstance(args.items[0], Const) else (args.v if isinstance(args, Const) else repr(vv))
            made.append(row)
            return [(c, ObjV(f"trig{len(made)}", "TrigInfo"))]

        pol = FlowPolicy(program, may_raise_all=False, cancel=False, globals_=glob,
                         summaries={"trig_ctx.get_name": lambda i, n, a, k, c, o: [(c, Const("file.x"))], "trig_ctx.get_trig_info": get_trig_info,
                                    "trig_ctx.trigger_register": lambda i, n, a, k, c, o: [(c, Const(False))], "self.global_ctx.set_logger_name": lambda i, n, a, k, c, o: [(c, NONE)],
                                    "logging.getLogger": lambda i, n, a, k, c, o: [(c, Sym(("logger",)))]})
        pol.loop_unroll = 10
        heap = {"self.trigger_service": ListV((), "set"), "self.trigger": ListV((), "list"), "self.decorators": ListV(tuple(decs), "list"), "self.doc_string": Const("doc"),
                "self.global_ctx": ObjV("g", "GlobalContext"), "g.global_sym_table": DictV([])}
        out = run_flow(program, uid, pol, args={"self": ObjV("self", "EvalFunc"), "trig_ctx": ObjV("tctx", "GlobalContext"), "func_name": Const("f")}, heap=heap)
        ex = exits(out)
        bad = None
        if len(ex) != 1 or ex[0][0] != "return":
            bad = f"exits {[d for k, c, d in ex]}"
        elif made != want:
            bad = f"trigger tasks are built with {made}, specified {want}"
        elif nones:
            bad = (f"the trigger task is configured with {nones}: the loop merges the decorator's kwargs with func_args.update(None) at the first occurrence (TypeError - the task ends for good; "
                   "at removal it aborts the context's stop loop), where an omitted keyword works")
        ctx.check(bad is None, rid, uid, f"legacy grouping: {label}", msg=f"legacy trigger_init, {label}: {bad}", key=f"legacy grouping {label}", node=program.func(uid), rel="eval.py")


def context_owner_rule(ctx, program, rid):
    """The run's context is stored by the coroutine that runs in the run's own task (store_hass_context keys it by the current task), before the function body."""
    for uid, before, after in (("trigger.py::TrigInfo.call_action.do_func_call", "Function.store_hass_context", "ast_ctx.call_func"),
                               ("decorator.py::FunctionDecoratorManager._call", "Function.store_hass_context", "data.call_ast_ctx.call_func")):
        f = program.func(uid)
        names = [call_name(n) for n in body_walk(f) if isinstance(n, ast.Call)]
        ok = before in names and after in names and names.index(before) < names.index(after)
        ctx.check(ok, rid, uid, "context stored for the task before the function body runs",
                  msg=f"{uid} (the coroutine of the run's own task): order of {before} / {after} is {names}: Function.store_hass_context keys the context by the *current* task, so stored "
                  "anywhere else it belongs to the caller's task (the long-lived trigger task, whoever called stop()) - the run has none, and the entry is never forgotten", key="context stored before call",
                  node=f, rel=uid.split("::")[0])


def webhook_release_table(ctx, program, rid):
    """Two WebhookTriggerDecorator instances of one id (a trigger function and a task.wait_until, two waits ...): started one after the other, stopped in either order."""
    cls_uid = "decorators/webhook.py::WebhookTriggerDecorator"

    def register(i, n, a, k, c, o):
        ids = c.heap.get("$registered", ListV((), "list"))
        wid = a[3] if len(a) > 3 else k.get("webhook_id")
        return [(c.hset("$registered", ListV(ids.items + (wid,), "list")), NONE)]

    def unregister(i, n, a, k, c, o):
        ids = c.heap.get("$registered", ListV((), "list"))
        wid = a[1] if len(a) > 1 else None
        items = list(ids.items)
        if wid in items:
            items.remove(wid)
        else:
            items.append(Const("unregister of an id that is not registered"))
        return [(c.hset("$registered", ListV(tuple(items), "list")), NONE)]

    base = {"$registered": ListV((), "list")}
    for st in program.cls(cls_uid).body:
        tgt = st.target if isinstance(st, ast.AnnAssign) else (st.targets[0] if isinstance(st, ast.Assign) and len(st.targets) == 1 else None)
        if isinstance(tgt, ast.Name) and isinstance(getattr(st, "value", None), ast.Dict) and not st.value.keys:
            base[f"WebhookTriggerDecorator.{tgt.id}"] = DictV([])
    for who in ("first", "second"):
        base.update({f"dec_{who}.webhook_id": Const("hook1"), f"dec_{who}.local_only": Const(True), f"dec_{who}.methods": ListV((Const("POST"),), "set"),
                     f"dec_{who}.dm": ObjV("dm_" + who, "DecoratorManager"), f"dec_{who}._registered": Const(False)})
    summ = {"webhook.async_register": register, "webhook.async_unregister": unregister, "super().start": lambda i, n, a, k, c, o: [(c, NONE)], "super().stop": lambda i, n, a, k, c, o: [(c, NONE)]}
    for order in (("first", "second"), ("second", "first")):
        steps = [("start", "first"), ("start", "second")] + [("stop", w) for w in order]
        heap = dict(base)
        bad = None
        for op, who in steps:
            pol = FlowPolicy(program, may_raise_all=False, cancel=False, summaries=summ, globals_={"WebhookTriggerDecorator": ClassV("WebhookTriggerDecorator")})
            pol.loop_unroll = 4
            pol.track_aliases = True  # the class-level subscriber table read into a local is still that table
            ex = exits(run_flow(program, f"{cls_uid}.{op}", pol, args={"self": ObjV("dec_" + who, "WebhookTriggerDecorator")}, heap=heap))
            if len(ex) != 1 or ex[0][0] != "return":
                bad = f"{op}({who}) ends {[d for k, c, d in ex]}"
                break
            heap = dict(ex[0][1].heap)
            subs = heap.get("WebhookTriggerDecorator._subscribers")
            cur = [x.oid for x in (subs.get(Const("hook1")).items if isinstance(subs, DictV) and isinstance(subs.get(Const("hook1")), ListV) else ())]
            reg = [x.v for x in heap["$registered"].items]
            live = [w for o2, w in steps[:steps.index((op, who)) + 1] if o2 == "start" and ("stop", w) not in steps[:steps.index((op, who)) + 1]]
            if sorted(cur) != sorted("dec_" + w for w in live):
                bad = f"after {op}({who}) the id's subscribers are {cur}, specified {['dec_' + w for w in live]}: a decorator that was stopped keeps receiving (and evaluating its condition on) later messages"
                break
            if reg != (["hook1"] if live else []):
                bad = f"after {op}({who}) Home Assistant has the registrations {reg}, specified {['hook1'] if live else []}"
                break
        ctx.check(bad is None, rid, f"{cls_uid}.stop", f"two decorators of one webhook id, stopped {order[0]} then {order[1]}",
                  msg=f"WebhookTriggerDecorator, two decorators of the id 'hook1' started one after the other, stopped {order[0]} then {order[1]}: {bad}", key=f"webhook release {order}",
                  node=program.func(f"{cls_uid}.stop"), rel="decorators/webhook.py")


class _RefusingListenerPolicy(_ListenerPolicy):
    """The registration with Home Assistant is refused (id owned by somebody else, invalid methods, MQTT not set up)."""

    def call(self, interp, node, fname, fval, args, kwargs, cfg, out):
        if fname and fname.split(".")[-1] in ACQUIRE_CALLS:
            out.add("raise", cfg.set("$exc", ExcV("ValueError", "registration refused")))
            return []
        return super().call(interp, node, fname, fval, args, kwargs, cfg, out)


def refused_registration_table(ctx, program, rid):
    """notify_add when the registration fails: the subscriber table must not keep an (empty) entry - later subscribers of that id would skip the registration and never receive anything."""
    for cls, rel in LISTENER_CLASSES:
        uid = f"{rel}::{cls}.notify_add"
        fn = program.func(uid)
        params = [a.arg for a in fn.args.args]
        pol = _RefusingListenerPolicy(program, may_raise_all=False, cancel=False)
        heap = {f"{cls}.notify": DictV([(Const("u"), _set("q2"))]), f"{cls}.notify_remove": DictV([(Const("u"), Sym(("handle", "u")))]), f"{cls}.hass": Sym(("hass",))}
        out = run_flow(program, uid, pol, args={"cls": ClassV(cls), params[1]: Const("t"), "queue": Const("q0")}, heap=heap)
        ex = exits(out)
        bad = None
        for k, c, d in ex:
            tab = c.heap.get(f"{cls}.notify")
            keys = sorted(kk.v for kk, _ in tab.items) if isinstance(tab, DictV) else repr(tab)
            if k != "raise":
                bad = f"{d}: the refusal does not reach the caller"
            elif keys != ["u"]:
                bad = f"the subscriber table keeps the entries {keys} (specified ['u']): the next subscriber of 't' finds an entry, skips the registration and never receives a message; its clean-up then fails"
        ctx.check(bool(ex) and bad is None, rid, uid, f"{cls}.notify_add: registration refused", msg=f"{cls}.notify_add('t', q0) when the registration with Home Assistant fails: {bad or 'no exit'}",
                  key=f"{cls} add refused", node=fn, rel=rel)
