"""C01 - the interpreter evaluates expressions and assignments exactly like Python.

Decided clauses (DESIGN.md section 3, C01): dispatch exhaustiveness, per-handler evaluation order and
multiplicity, operator/result construction, assignment/delete effects, comprehension scope restore on every
exit, immutability of the interpreted AST.  Method: every handler of ``AstEval`` is *partially evaluated*
on a schematic node (absint + schematic) and the set of its paths (ordered evaluations, stores, calls,
result term) is compared with the set of paths of the reference semantics (the same abstract evaluator run
on the probe's own AST; order cross-checked with the host compiler's bytecode).
"""

from __future__ import annotations

import ast
import re

from ..absint import FALSE, NONE, TRUE, App, ClassV, Const, DictV, ListV, NodeV, ObjV, Out, Sym
from ..pyref import run_reference
from ..repo import AnalysisError, norm
from ..schematic import (
    MODULE_SCOPE, HandlerPolicy, cpython_load_order, run_handler, shape_expr, shape_stmt,
)

LEVEL_TEXT = (
    "decides structural clauses of C01, not the behaviour as a whole: for every supported expression/assignment node kind "
    "the interpreter's handler, partially evaluated on schematic nodes, has exactly the reference set of paths "
    "(each operand evaluated once, in CPython's order, result built with the denoted operation, same stores), "
    "dispatch is exhaustive over the running interpreter's operator universe, comprehension scopes are restored on "
    "every exit and the shared AST is never mutated"
    "; subscript reads are ordered against operand evaluation (augmented subscript assignment reads the element before evaluating the right-hand side)"
    "; no handler converts an exception raised by script-driven code into another class; a comprehension leaves the enclosing variable of the same name (also when it lives in a closure cell) exactly as it was; `**` operands, annotated assignments and dict-display key hashing follow CPython's order and errors"
    '; unpacking serves its targets from a fresh sequence; the target-name pre-pass accepts every target form; keyword values are evaluated before a duplicate is reported'
)
LEVEL_NOTE = (
    "trusted: the abstract evaluator's model of Python (cross-validated against compile()+dis for operand order), the "
    "catalogue of schematic shapes (finite: list lengths <= 3, one nesting level), name-binding helpers of the symbol "
    "table treated as module-scope; values of operations are delegated to the host operators"
)
TECHNIQUE = "schematic partial evaluation of interpreter handlers (abstract interpretation over ast) vs reference path sets; dis-derived order oracle"

# ---------------------------------------------------------------------------------------------
# catalogue: (probe source, mode).  a<N> = operand leaves, i<N> = iterable leaves (two items), x/y/z = variables
# ---------------------------------------------------------------------------------------------
BINOPS = {
    "Add": "+", "Sub": "-", "Mult": "*", "Div": "/", "Mod": "%", "Pow": "**", "LShift": "<<", "RShift": ">>",
    "BitOr": "|", "BitXor": "^", "BitAnd": "&", "FloorDiv": "//", "MatMult": "@",
}
UNOPS = {"Not": "not ", "Invert": "~", "UAdd": "+", "USub": "-"}
CMPOPS = {
    "Eq": "==", "NotEq": "!=", "Lt": "<", "LtE": "<=", "Gt": ">", "GtE": ">=", "Is": "is", "IsNot": "is not",
    "In": "in", "NotIn": "not in",
}

EXPR_SHAPES = [
    "a0 and a1", "a0 and a1 and a2", "a0 or a1", "a0 or a1 or a2",
    "a0 < a1 < a2", "a0 < a1 <= a2 == a3", "a0 in a1 not in a2",
    "a0 if a1 else a2",
    "[a0, a1, a2]", "[a0, *a1, a2]", "(a0, a1)", "(a0, *a1)", "[]", "()",
    "{a0, a1}", "{a0, *a1}",
    "{a0: a1}", "{a0: a1, a2: a3}", "{a0: a1, **a2, a3: a4}", "{}",
    "a0[a1]", "a0[a1:a2]", "a0[a1:a2:a3]", "a0[:a1]", "a0[a1:]", "a0[::a1]", "a0[a1, a2]", "a0[a1:a2, a3]",
    "a0.attr",
    "a0()", "a0(a1)", "a0(a1, a2)", "a0(a1, k=a2)", "a0(k=a1, j=a2)", "a0(*a1)", "a0(a1, *a2, a3)",
    "a0(**a1)", "a0(a1, k=a2, **a3)", "a0(a1, *a2, k=a3, **a4)", "a0(*a1, k=a2)",
    "f'{a0}'", "f'x{a0}y{a1}'", "f'{a0!r}'", "f'{a0!s}'", "f'{a0!a}'", "f'{a0:>5}'", "f'{a0:{a1}}'", "f'{a0!r:{a1}}'",
    "(x := a0)",
    "a0(k=a1, **{'k': a2})", "a0(**{'k': a1}, k=a2)", "a0(**[a1])", "a0(a1, **{'j': a2})", "{**[a0]}", "{a0: a1, **[a2]}",
    "[a0 for x in i1]", "[a0 for x in i1 if a2]", "[a0 for x in i1 if a2 if a3]",
    "[a0 for x in i1 for y in i2]", "[a0 for x in i1 if a2 for y in i3 if a4]",
    "{a0 for x in i1}", "{a0 for x in i1 if a2 if a3}", "{a0 for x in i1 for y in i2}",
    "{a0: a1 for x in i2}", "{a0: a1 for x in i2 if a3 if a4}", "{a0: a1 for x in i2 for y in i3}",
    "1", "'s'", "None", "True", "b'x'", "1.5",
]
STMT_SHAPES = [
    "x = a0", "x = y = a0", "x, y = (a0, a1)", "x, *y = (a0, a1, a2)", "*x, y = (a0, a1, a2)",
    "x, *y, z = (a0, a1, a2, a3)", "x, *y = [a0, a1, a2]", "(x, y), z = ((a0, a1), a2)",
    "[x, y] = (a0, a1)", "[x, *y] = (a0, a1, a2)",
    "a0[a1] = a2", "a0.attr = a1", "a0[a1], x = (a2, a3)", "a0[a1:a2] = a3",
    "x = a0[a1] = a2",
    "x, *a0[a1] = (a2, a3, a4)", "*a0.attr, x = (a1, a2)",
    "x: a0 = a1", "x: a0", "a2[a3]: a0 = a1", "a2.attr: a0 = a1", "(x): a0 = a1", "(x): a0",
    "x += a0", "x -= a0", "x *= a0", "a0[a1] += a2", "a0.attr += a1", "a0[a1:a2] += a3",
    "del x", "del a0[a1]", "del a0[a1], a2[a3]", "del a0.attr", "del x, y", "del a0[a1:a2]", "del (x, y)",
    "a0",
]


from ..hcompare import *  # noqa: F401,F403  (canon, path_set, compare_shape, fmt_path)
from ..hcompare import compare_shape


def run(ctx):
    program = ctx.program
    for uid in ("eval.py::AstEval.aeval", "eval.py::AstEval.ast_binop", "eval.py::AstEval.ast_unaryop",
                "eval.py::AstEval.ast_compare", "eval.py::AstEval.ast_boolop", "eval.py::AstEval.recurse_assign",
                "eval.py::AstEval.eval_elt_list", "eval.py::AstEval.ast_call", "eval.py::AstEval.call_func"):
        program.unit(uid)
    policy = HandlerPolicy(program)

    # R01.1 dispatch exhaustiveness over the running interpreter's operator universe ------------------
    ctx.rule("R01.1", "every operator class of the host ast module has a handler reachable through the repo's dispatch formula", floor=25)
    universe = []
    for cls in ast.operator.__subclasses__():
        if cls.__name__ in BINOPS:
            universe.append((cls.__name__, f"a0 {BINOPS[cls.__name__]} a1"))
        else:
            universe.append((cls.__name__, None))
    for cls in ast.unaryop.__subclasses__():
        universe.append((cls.__name__, f"{UNOPS[cls.__name__]}a0" if cls.__name__ in UNOPS else None))
    for cls in ast.cmpop.__subclasses__():
        universe.append((cls.__name__, f"a0 {CMPOPS[cls.__name__]} a1" if cls.__name__ in CMPOPS else None))
    for name, src in universe:
        if src is None:
            raise AnalysisError(f"operator class ast.{name} of the host interpreter is not in the checker's probe table")
        out = run_handler(program, shape_expr(src), policy)
        ni = [c for c in out.get("raise") if getattr(c.env.get("$exc"), "cls", "") == "NotImplementedError"]
        ctx.check(
            not ni, "R01.1", "eval.py::AstEval.aeval", f"operator {name} dispatches to a handler",
            msg=f"`{src}`: no handler for ast.{name} - the dispatch formula falls through to ast_not_implemented",
            key=f"operator {name}", rel="eval.py", node=program.func("eval.py::AstEval.ast_not_implemented"),
        )

    # R01.2 operator agreement + R01.4 order ------------------------------------------------------------
    ctx.rule("R01.2", "operator handlers evaluate left then right once each and apply the denoted host operator", floor=25)
    for name, src in universe:
        if name == "MatMult" and any(f.key == "operator MatMult" for f in ctx.findings):
            continue
        compare_shape(ctx, program, policy, "R01.2", src, "eval")

    ctx.rule("R01.4", "per node kind: operands evaluated once, in CPython order; result/stores built as Python does", floor=80)
    for src in EXPR_SHAPES:
        compare_shape(ctx, program, policy, "R01.4", src, "eval")
    for src in STMT_SHAPES:
        compare_shape(ctx, program, policy, "R01.4", src, "exec")

    # R01.6 comprehension scope restored on every exit ----------------------------------------------------
    ctx.rule("R01.6", "loop-variable scope saved by a comprehension handler is restored on every exit, including exceptions", floor=3)
    rpol = HandlerPolicy(program, raise_at_eval=True)
    for src, handler in (("[a0 for x in i1 if a2]", "ast_listcomp"), ("{a0 for x in i1 if a2}", "ast_setcomp"),
                         ("{a0: a1 for x in i2 if a3}", "ast_dictcomp")):
        unit = f"eval.py::AstEval.{handler}"
        fn = program.func(unit)
        out = run_handler(program, shape_expr(src), rpol)
        bad = None
        n = 0
        for kind in ("return", "raise"):
            for c in out.get(kind):
                saves = sum(1 for e in c.trace if e[0] == "call" and e[1] == "loopvar_scope_save")
                rest = sum(1 for e in c.trace if e[0] == "call" and e[1] == "loopvar_scope_restore")
                n += 1
                if saves != rest and bad is None:
                    exc = c.env.get("$exc")
                    bad = f"exit={kind} after {getattr(exc, 'origin', '')}: {saves} save(s), {rest} restore(s)"
        ctx.check(
            bad is None, "R01.6", unit, "scope save/restore balanced on all exits",
            msg=f"`{src}`: comprehension loop variable leaks into the enclosing scope when an operand raises ({bad})",
            key="loopvar_scope_save without restore on exceptional exit", node=fn, rel="eval.py", sample={"paths": n},
        )

    # R01.7 interpreted AST is never mutated ------------------------------------------------------------
    ctx.rule("R01.7", "no handler assigns to an attribute of the AST node it interprets (the tree is shared by all runs)", floor=80)
    seen = set()
    for src, mode in [(s, "eval") for s in EXPR_SHAPES] + [(s, "exec") for s in STMT_SHAPES]:
        shape = shape_expr(src) if mode == "eval" else shape_stmt(src)
        out = run_handler(program, shape, policy)
        muts = set()
        for kind in ("return", "raise", "normal"):
            for c in out.get(kind):
                for e in c.trace:
                    if e[0] == "ast_mutation":
                        muts.add((e[1], e[2], e[3]))
        handler = f"eval.py::AstEval.ast_{shape.cls.lower()}"
        if muts:
            for path, attr, line in sorted(muts):
                k = (handler, attr)
                if k in seen:
                    continue
                seen.add(k)
                ctx.fail("R01.7", handler, f"assignment to .{attr} of the interpreted node",
                         f"`{src}`: handler writes `{path}.{attr}` at line {line}: the AST is shared between concurrent runs of the same code",
                         rel="eval.py", node=type("N", (), {"lineno": line})())
        else:
            ctx.ok("R01.7", handler, f"no AST mutation on `{src}`")

    # R01.8 exceptions raised by script code keep their type ----------------------------------------------
    ctx.rule("R01.8", "no interpreter handler replaces an exception raised while it drives script code (operand evaluation, calls, iteration) "
                      "by one of another class", floor=3)
    cls_node = program.cls("eval.py::AstEval")
    n_try = 0
    for fn in [f for f in cls_node.body if isinstance(f, (ast.FunctionDef, ast.AsyncFunctionDef))]:
        unit = f"eval.py::AstEval.{fn.name}"
        for tr in [t for t in ast.walk(fn) if isinstance(t, ast.Try)]:
            drives = _drives_script(tr.body)
            for h in tr.handlers:
                n_try += 1
                caught = _caught_names(h)
                bound = h.name
                bad = None
                for r in [r for r in ast.walk(h) if isinstance(r, ast.Raise)]:
                    if r.exc is None or (isinstance(r.exc, ast.Name) and r.exc.id == bound):
                        continue  # re-raises what was caught
                    raised = _raised_class(r.exc)
                    if raised is not None and caught == {raised}:
                        continue  # same class (message only)
                    bad = (r, raised)
                    break
                if bad is None or not drives:
                    ctx.ok("R01.8", unit, f"try@{_stmt_key(tr)} except {'/'.join(sorted(caught)) or 'all'}: "
                                            f"{'keeps the exception' if bad is None else 'guards a single protocol query, not script code'}")
                else:
                    r, raised = bad
                    ctx.fail("R01.8", unit, f"except {'/'.join(sorted(caught)) or 'all'} -> raise {raised or ast.unparse(r.exc)[:40]}",
                             f"`{ast.unparse(h).splitlines()[0]}` covers `{drives}` (script code runs there) and raises {raised or 'another exception'} instead: "
                             "the exception the script raised is replaced (Python propagates it unchanged)", rel="eval.py", node=h)

    # R01.11 unpacking takes every item out of the right-hand side before the first store -------------------------------------------------
    ctx.rule("R01.11", "unpacking assignment: all items are taken out of the right-hand side before any target is stored (`x[1], y = x` must give y the old x[1]): the sequence the "
                       "targets are served from is a fresh list/tuple built from the iterator, on every path - never the assigned object itself", floor=1)
    ra = program.func("eval.py::AstEval.recurse_assign")
    served = set()
    for n in ast.walk(ra):
        if isinstance(n, ast.Call) and isinstance(n.func, ast.Attribute) and n.func.attr == "recurse_assign" and len(n.args) == 2 and isinstance(n.args[1], ast.Subscript) \
                and isinstance(n.args[1].value, ast.Name):
            served.add(n.args[1].value.id)
    if not served:
        raise AnalysisError("R01.11: recurse_assign no longer serves its targets from an indexed sequence")

    def fresh(e):
        if isinstance(e, (ast.List, ast.Tuple, ast.ListComp)):
            return True   # a display / list comprehension builds a new object (its elements are taken out at once)
        if isinstance(e, ast.Call) and isinstance(e.func, ast.Name) and e.func.id in ("list", "tuple"):
            return True
        if isinstance(e, ast.IfExp):
            return fresh(e.body) and fresh(e.orelse)
        return False

    for name in sorted(served):
        defs = [n for n in ast.walk(ra) if isinstance(n, ast.Assign) and any(isinstance(t, ast.Name) and t.id == name for t in n.targets)]
        bad = [d for d in defs if not fresh(d.value)]
        ctx.check(bool(defs) and not bad, "R01.11", "eval.py::AstEval.recurse_assign", f"`{name}` (the values handed to the targets) is a fresh sequence",
                  msg=f"recurse_assign serves the targets of an unpacking assignment from `{name}`, which `{norm(bad[0]) if bad else '?'}` can bind to the assigned object itself: a target that "
                  "writes into that object (`x[1], y = x`) changes what the later targets receive", key="unpack snapshot", node=bad[0] if bad else ra, rel="eval.py")

    # R01.10 the name pre-pass accepts the target forms the assignment handler accepts ------------------------------------------------------
    ctx.rule("R01.10", "target names: the pre-pass that collects the names a target binds (used for comprehension variables and function locals) handles every target form "
                       "recurse_assign handles - a starred element may be any target (`x, *d[0]`), not only a name", floor=5)
    from ..flow import FlowPolicy as _FP, exits as _exits, run_flow as _run_flow
    from ..schematic import to_nodev
    tn = "eval.py::AstEval.get_target_names"
    for src, want in (("a, *b = v", {"a", "b"}), ("a, *d[0] = v", {"a"}), ("[a, *o.attr] = v", {"a", "o.attr"}), ("(a, (b, *c)), e = v", {"a", "b", "c", "e"}), ("d[0] = v", set())):
        tgt = to_nodev(ast.parse(src).body[0].targets[0])
        polt = _FP(program, may_raise_all=False, cancel=False, inline={"self.get_target_names", "AstEval.get_target_names"},
                   summaries={"self.ast_attribute_collapse": lambda i, n, a, k, c, o: [(c, Const("o.attr"))]})
        polt.loop_unroll = 5
        polt.max_depth = 6
        outt = _run_flow(program, tn, polt, args={"self": ObjV("self", "AstEval"), "lhs": tgt})
        got = set()
        for k, c, d in _exits(outt):
            r = c.env.get("$ret")
            got.add(frozenset(x.v for x in r.items) if k == "return" and isinstance(r, ListV) and all(isinstance(x, Const) for x in r.items) else d)
        ctx.check(got == {frozenset(want)}, "R01.10", tn, f"names bound by `{src.rsplit(' = ', 1)[0]}`",
                  msg=f"get_target_names for the target `{src.rsplit(' = ', 1)[0]}`: {sorted(map(repr, got))}, specified {sorted(want)}: a comprehension or function using this target fails "
                  "before it starts (recurse_assign itself accepts the target)", key=f"target names {src}", node=program.func(tn), rel="eval.py")

    # R01.9 what a comprehension leaves of the enclosing scope's variable of the same name ---------------------------------------------
    ctx.rule("R01.9", "comprehension scope: after save -> (the loop assigns its variable) -> restore, a name bound before the comprehension has exactly its value back "
                      "(also None, 0, ''; also when it lives in a closure cell, whose content must be restored too), a name that was unbound is unbound again, other names are untouched", floor=6)
    save_u, rest_u = "eval.py::AstEval.loopvar_scope_save", "eval.py::AstEval.loopvar_scope_restore"
    fn = program.func(rest_u)
    cellx = ObjV("cell_x", "EvalLocalVar")
    cases = [
        ("outer value", {"x": Const("outer value"), "y": Sym("other")}, None),
        ("outer value None", {"x": NONE}, None), ("outer value 0", {"x": Const(0)}, None), ("outer value ''", {"x": Const("")}, None),
        ("unbound before", {"y": Sym("other")}, None),
        ("outer variable in a closure cell", {"x": cellx, "y": Sym("other")}, (True, Const("outer value"))),
        ("outer variable in a closure cell, not bound yet", {"x": cellx}, (False, None)),
    ]
    from ..flow import FlowPolicy, exits, run_flow
    for label, table, cell_state in cases:
        heap = {"self.sym_table": DictV(tuple((Const(k), v) for k, v in table.items()))}
        if cell_state is not None:
            heap["cell_x.defined"] = Const(cell_state[0])
            heap["cell_x.name"] = Const("x")
            if cell_state[0]:
                heap["cell_x.value"] = cell_state[1]

        def get_names(i, n, a, k, c, o):
            # the static scan of the generator targets finds the loop variable x (the scan itself is checked by R03.14)
            return [(c.set("lvars", ListV((Const("x"),), "set")), NONE)]

        pol = FlowPolicy(program, may_raise_all=False, cancel=False, summaries={"self.get_names": get_names}, inline={"EvalLocalVar.is_defined", "EvalLocalVar.set", "EvalLocalVar.set_undefined"},
                         globals_={"EvalLocalVar": ClassV("EvalLocalVar")})
        pol.loop_unroll = 4
        gens = ListV((NodeV("comprehension", {"target": NodeV("Name", {"id": Const("x")}, "g.target")}, "g"),), "list")
        o1 = run_flow(program, save_u, pol, args={"self": ObjV("self", "AstEval"), "generators": gens}, heap=heap)
        got = []
        for k1, c1, d1 in exits(o1):
            ret = c1.env.get("$ret")
            if k1 != "return" or not (isinstance(ret, ListV) and len(ret.items) == 2):
                got.append((f"save: {d1}", repr(ret)))
                continue
            h2 = dict(c1.heap)
            # the loop binds its variable: through the cell when the scope holds one, else in the scope dictionary (recurse_assign, checked by R03.9)
            tab = h2["self.sym_table"]
            if tab.get(Const("x")) == cellx:
                h2["cell_x.value"], h2["cell_x.defined"] = Sym("loop"), Const(True)
            else:
                h2["self.sym_table"] = tab.set(Const("x"), Sym("loop"))
            o2 = run_flow(program, rest_u, pol, args={"self": ObjV("self", "AstEval"), "var_names": ret.items[0], "save_vars": ret.items[1]}, heap=h2)
            for k2, c2, d2 in exits(o2):
                t2 = c2.heap.get("self.sym_table")
                state = {kk.v: vv for kk, vv in t2.items} if isinstance(t2, DictV) else repr(t2)
                cs = (c2.heap.get("cell_x.defined") == Const(True), c2.heap.get("cell_x.value") if c2.heap.get("cell_x.defined") == Const(True) else None) if cell_state is not None else None
                got.append((k2, state, cs))
        want = ("return", dict(table), cell_state)
        good = bool(got) and all(g == want for g in got)
        ctx.check(good, "R01.9", rest_u, f"comprehension over x, {label}",
                  msg=f"comprehension whose loop variable is x ({label}): afterwards (exit, scope, cell content) = {got}, Python leaves {want}",
                  key=f"restore:{label}", node=fn, rel="eval.py")

    return (
        "Static, source-only: each AstEval handler is partially evaluated (abstract interpretation over the ast of eval.py) "
        "on schematic nodes built from probe sources; its path set (ordered operand evaluations, loads, stores, calls, result term) "
        "is compared with the reference path set obtained by the same abstract evaluator on the probe's own AST. "
        "Rules: R01.1 dispatch exhaustiveness, R01.2 operator agreement, R01.4 order/multiplicity/result/stores per node kind, "
        "R01.6 comprehension scope restore on every exit, R01.7 AST immutability. Not decided: values of host operations, "
        "deep nestings beyond the per-handler induction, generator expressions."
    )


def _stmt_key(node):
    return ast.unparse(node.body[0]).splitlines()[0][:50]


def _caught_names(h):
    if h.type is None:
        return set()
    if isinstance(h.type, ast.Tuple):
        return {ast.unparse(e) for e in h.type.elts}
    return {ast.unparse(h.type)}


def _raised_class(exc):
    if isinstance(exc, ast.Call):
        exc = exc.func
    return ast.unparse(exc) if isinstance(exc, (ast.Name, ast.Attribute)) else None


SINGLE_QUERIES = {"iter", "len", "hash", "getattr", "hasattr", "isinstance", "type", "id", "callable"}


def _drives_script(body):
    """The first construct in ``body`` that runs script code: an await (operand evaluation / call of a script function), a loop or an
    unpacking over a value (drives its iterator), ``next``/``list``/``tuple``/... of a value.  ``iter(x)``/``len(x)`` alone are single protocol queries
    whose TypeError the interpreter may rephrase."""
    for st in body:
        for n in ast.walk(st):
            if isinstance(n, (ast.Await, ast.For, ast.AsyncFor, ast.Starred, ast.ListComp, ast.SetComp, ast.DictComp, ast.GeneratorExp, ast.YieldFrom)):
                return ast.unparse(n).splitlines()[0][:60]
            if isinstance(n, ast.Call):
                f = n.func
                if isinstance(f, ast.Name) and f.id in SINGLE_QUERIES:
                    continue
                if isinstance(f, ast.Name) and f.id[:1].isupper():
                    continue  # constructing an interpreter-side object
                return ast.unparse(n).splitlines()[0][:60]
    return None


def thorough(ctx):
    """Cross-validate the reference evaluator's operand order against the host compiler (dis)."""
    ctx.rule("R01.oracle", "reference evaluation order equals the LOAD order in CPython bytecode for the probe", floor=60)
    n = 0
    for src in EXPR_SHAPES + [s for _, s in _universe_srcs()]:
        if " for " in src or "if" in src.split() or " and " in src or " or " in src:
            continue  # branching probes: order on the longest path is checked below for the linear ones only
        rout = run_reference(src, "eval")
        # (a probe the language itself rejects at run time - `**` of a list display - has only raising paths: the operands are still loaded first)
        seqs = {tuple(e[1] for e in c.trace if e[0] == "eval") for c in rout.get("return") + rout.get("raise")}
        longest = max(seqs, key=len) if seqs else ()
        ref = tuple(cpython_load_order(src))
        ctx.check(longest == ref, "R01.oracle", "sa.pyref", f"order of `{src}`",
                  msg=f"checker self-test: reference order {longest} differs from CPython bytecode order {ref} for `{src}`",
                  key=f"oracle {src}")
        n += 1
    return f"Thorough: reference operand order cross-validated against dis for {n} linear probes."


def _universe_srcs():
    for k, v in BINOPS.items():
        yield k, f"a0 {v} a1"
    for k, v in CMPOPS.items():
        yield k, f"a0 {v} a1"
