"""C11 - each file has an isolated global context; modules are shared singletons (structural clauses)."""

from __future__ import annotations

import ast
import importlib.util

from ..absint import App, Cfg, ClassV, Const, DictV, FuncV, ListV, NodeV, ObjV, Out, Sym
from ..flow import FlowPolicy, exits, run_flow
from ..repo import AnalysisError, body_walk, call_name, const_set, enclosing_unit, norm, short
from ..schematic import MODULE_SCOPE, EventInterp, HandlerPolicy, to_nodev
from .c03 import _restore_rule

LEVEL_TEXT = (
    "decides structural clauses of C11, not symbol-table contents after arbitrary programs: a call switches the evaluator "
    "to the defining context's globals exactly when the context objects differ and restores the caller's name-resolution "
    "state on every exit; only the reviewed sites may write an evaluator's global table/context; a module is looked up in "
    "the context manager before the file system, marked loaded only after a successful load, and relative import levels "
    "resolve to the same context name as Python's importlib.util.resolve_name; import statements bind only into the "
    "current scope; evaluators that run a function's action are built on that function's own context"
    "; a loaded module is reused under any candidate name and the candidate files correspond to the context names; no importer of a re-loaded module stays loaded; set_global_ctx switches context, global table, current scope and scope stack together; legacy triggers are built in the decorating file's context; a module's globals hold classes as plain values, never closure cells"
    "; star imports copy public names only; calls through function variables and bound methods run on the caller's evaluator; the file-level evaluator of a function variable is never handed on to run callbacks"
    '; set_global_ctx is called from the script-level API only; single-file module candidates resolve relative imports against their own directory; `from m import *` honours __all__; pyscript modules named like allow-listed modules are still looked up'
)
LEVEL_NOTE = "trusted: host importlib.util.resolve_name as oracle for relative names; scenario objects are distinct opaque symbols; file-system lookups are not modelled"
TECHNIQUE = "scenario-based abstract interpretation of EvalFunc.call and module_import (heap snapshots at the body / concrete string evaluation), who-may-write table, ordered events"

WRITERS_OTHER = {  # functions that may write .global_sym_table / .global_ctx of an object other than self
    "eval.py::EvalFunc.call": "switches to the defining context for the duration of the call (restored in finally)",
    "eval.py::ast_eval_exec_factory.eval_func": "eval()/exec() with explicit globals: fresh evaluator",
}
WRITERS_SELF = {  # methods that may write their own attribute outside __init__
    "eval.py::AstEval.set_global_ctx": "pyscript.set_global_ctx(): documented context switch (Jupyter)",
}


def _call_scenario(program, same):
    """Run EvalFunc.call with evaluator context A and defining context A or B; return snapshots at the body."""
    fn = program.func("eval.py::EvalFunc.call")
    fdef = to_nodev(ast.parse("def f():\n    s0").body[0])
    pol = HandlerPolicy(program, stmt_markers=(None,))
    pol.snapshot = True
    pol.snapshot_attrs = ("global_sym_table", "global_ctx", "sym_table_stack")
    interp = EventInterp(pol, "eval.py")
    A, B = Sym(("object", "ctxA")), Sym(("object", "ctxB"))
    heap = dict(MODULE_SCOPE)
    heap.update({
        "self.global_ctx": A, "self.global_sym_table": Sym(("object", "globalsA")), "self.sym_table": Sym(("object", "localsCaller")),
        "self.sym_table_stack": ListV([Sym(("object", "globalsA"))]),
        "func.func_def": fdef, "func.num_posonly_arg": Const(0), "func.num_posn_arg": Const(0), "func.defaults": ListV(()),
        "func.kw_defaults": ListV(()), "func.local_sym_table": DictV(()), "func.name": Const("f"),
        "func.global_ctx": A if same else B, "func.global_ctx_name": Const("file.x"), "func.code_str": Const(""), "func.code_list": ListV(()),
    })
    interp.call_stack.append(fn)
    out = interp.run_function(fn, {"self": ObjV("func", "EvalFunc"), "ast_ctx": ObjV("self", "AstEval"), "args": ListV((), "tuple"), "kwargs": DictV(())}, Cfg(heap=heap))
    snaps = []
    for c in out.get("return") + out.get("raise"):
        for e in c.trace:
            if e[0] == "snapshot_attrs":
                snaps.append(e[1])
    return snaps, A, B


def defining_context_rule(ctx, program, rid):
    """A function's body - and so every import, name lookup and module lookup made from it - runs against the context object that defined it."""
    unit = "eval.py::EvalFunc.call"
    snaps, A, B = _call_scenario(program, same=False)
    if not snaps:
        raise AnalysisError("EvalFunc.call scenario: the function body was never reached")
    bad = None
    for s in snaps:
        d = dict(s)
        gst = d.get("global_sym_table")
        if d.get("global_ctx") != B or "get_global_sym_table" not in repr(gst) or "ctxB" not in repr(gst):
            bad = f"body evaluated with global_ctx={d.get('global_ctx')!r}, global_sym_table={gst!r}"
    ctx.check(bad is None, rid, unit, "cross-context call switches to the defining context's globals",
              msg=f"EvalFunc.call, evaluator in context A calling a function defined in context B (same file name, different context object): {bad}; "
              f"the function would read and write the caller's globals", key="switch on differing context objects", node=program.func(unit), rel="eval.py",
              sample={"snapshots": len(snaps)})
    snaps, A, B = _call_scenario(program, same=True)
    bad = None
    for s in snaps:
        d = dict(s)
        if d.get("global_ctx") != A or d.get("global_sym_table") != Sym(("object", "globalsA")):
            bad = f"body evaluated with global_ctx={d.get('global_ctx')!r}, global_sym_table={d.get('global_sym_table')!r}"
        st = d.get("sym_table_stack")
        if not (isinstance(st, ListV) and len(st.items) == 2 and st.items[1] == Sym(("object", "localsCaller"))):
            bad = f"scope stack {st!r}: the caller's locals must be pushed for closures/nonlocal resolution"
    ctx.check(bad is None and snaps, rid, unit, "same-context call keeps globals and pushes the caller's scope",
              msg=f"EvalFunc.call within one context: {bad}", key="same context call", node=program.func(unit), rel="eval.py")



def run(ctx):
    program = ctx.program
    # R11.1 restore on every exit (same engine instance as C03's R03.4) ----------------------------------------------
    ctx.rule("R11.1", "EvalFunc.call restores the caller's globals, locals, scope stack and context on every exit", floor=4)
    ast_ctx = ObjV("ast_ctx", "AstEval")
    init = {"global_sym_table": Sym(("init", "global_sym_table")), "sym_table": Sym(("init", "sym_table")),
            "sym_table_stack": ListV([Sym(("init", "stack0"))]), "global_ctx": Sym(("init", "global_ctx"))}
    _restore_rule(ctx, program, "R11.1", "eval.py::EvalFunc.call", "ast_ctx", "AstEval", list(init), init,
                  {"ast_ctx": ast_ctx, "self": ObjV("self", "EvalFunc")}, what="EvalFunc.call")

    ctx.rule("R11.1b", "the body of a function runs against the globals of its defining context whenever that context object differs from the evaluator's", floor=2)
    defining_context_rule(ctx, program, "R11.1b")

    # R11.2 who may write -----------------------------------------------------------------------------------------------
    ctx.rule("R11.2", "an evaluator's global symbol table / context is written only at the reviewed sites", floor=6)
    for u in program.functions():
        if u.rel.startswith("stubs/"):
            continue
        for n in body_walk(u.node):
            targets = []
            if isinstance(n, ast.Assign):
                for t in n.targets:
                    targets += list(t.elts) if isinstance(t, (ast.Tuple, ast.List)) else [t]
            for t in targets:
                if isinstance(t, ast.Attribute) and t.attr in ("global_sym_table", "global_ctx") and isinstance(t.value, ast.Name):
                    if t.value.id == "self":
                        ok = u.qual.endswith("__init__") or u.uid in WRITERS_SELF
                    else:
                        ok = u.uid in WRITERS_OTHER or program.only_reached_from(u.uid, set(WRITERS_OTHER))  # (or a helper only the reviewed sites call)
                    ctx.check(ok, "R11.2", u.uid, f"write `{short(t)}` at a reviewed site",
                              msg=f"{u.uid}: `{short(n)}` re-targets an evaluator's globals/context outside the reviewed sites "
                              f"{sorted(WRITERS_OTHER) + sorted(WRITERS_SELF)}: code of one file could run against another file's globals",
                              key=f"write {t.value.id}.{t.attr}", node=n, rel=u.rel)

    # the method that re-targets an evaluator in place (it also rewrites slot 0 of the scope stack *object*) is the implementation of pyscript.set_global_ctx() only:
    # used where the previous state is saved by reference and restored later (EvalFunc.call), it would corrupt what was saved
    callers = [(u.uid, n) for u in program.functions() for n in body_walk(u.node)
               if isinstance(n, ast.Call) and isinstance(n.func, ast.Attribute) and n.func.attr == "set_global_ctx" and not (isinstance(n.func.value, ast.Name) and n.func.value.id == "pyscript")]
    allowed = {u for u, _ in callers if u.endswith("set_global_ctx_factory.set_global_ctx")}
    if not allowed:
        raise AnalysisError("the implementation of pyscript.set_global_ctx() (set_global_ctx_factory.set_global_ctx) no longer calls AstEval.set_global_ctx: who-may-call table lost its anchor")
    for uid, n in callers:
        ctx.check(uid in allowed, "R11.2", uid, "AstEval.set_global_ctx called only by pyscript.set_global_ctx()",
                  msg=f"{uid}: `{short(n)}` re-targets an evaluator with set_global_ctx(), which also overwrites slot 0 of the scope-stack list in place: where the caller's scope stack was saved "
                  f"for a later restore (a cross-file call) the saved list itself is changed, and after the call the calling file's module level runs against the callee file's globals",
                  key="set_global_ctx caller", node=n, rel=uid.split("::")[0])

    # R11.3 module import ---------------------------------------------------------------------------------------------------
    ctx.rule("R11.3", "module_import: manager lookup before file lookup; module marked loaded only after success; relative levels resolve like importlib; a module loaded under any candidate name is reused", floor=30)
    uid = "global_ctx.py::GlobalContext.module_import"
    f = program.func(uid)
    pol = FlowPolicy(program, events=["self.manager.get", "Function.hass.async_add_executor_job", "self.manager.load_file", "self.imports.add", "global_ctx.stop"],
                     locals_={"self", "global_ctx", "mod", "mod_ctx"}, no_raise={"self.manager.get", "mod_ctx.get_name", "self.imports.add"})
    pol.emit_setitem = False
    out = run_flow(program, uid, pol)
    bad_order = bad_edge = None
    n = 0
    for kind, c, desc in exits(out):
        evs = [e[1] for e in c.trace if e[0] == "call"]
        n += 1
        if "Function.hass.async_add_executor_job" in evs and "self.manager.get" in evs:
            if evs.index("Function.hass.async_add_executor_job") < evs.index("self.manager.get"):
                bad_order = desc
        if kind == "return":
            ret = c.env.get("$ret")
            returns_module = not (isinstance(ret, Const) and ret.v is None)
            if returns_module and "self.imports.add" not in evs:
                bad_edge = desc
    ctx.check(bad_order is None and n > 0, "R11.3", uid, "already loaded modules are found before touching the file system",
              msg=f"module_import looks at the file system before asking the context manager [{bad_order}]: a second import would load a second instance", key="lookup before load",
              node=f, rel="global_ctx.py")
    ctx.check(bad_edge is None, "R11.3", uid, "every path returning a module records the import edge",
              msg=f"module_import returns a module without recording the import edge [{bad_edge}]: reload would not re-run the importer when the module changes", key="import edge recorded",
              node=f, rel="global_ctx.py")
    # module attribute set after successful load only
    sets = [n2 for n2 in body_walk(f) if isinstance(n2, ast.Assign) and any(norm(t) == "global_ctx.module" for t in n2.targets)]
    ok = False
    if sets:
        tries = [t for t in body_walk(f) if isinstance(t, ast.Try) and any((call_name(m) or "") == "self.manager.load_file" for m in ast.walk(t) if isinstance(m, ast.Call))]
        ok = bool(tries) and all(s.lineno > tries[0].end_lineno for s in sets) and all(any(isinstance(m, ast.Raise) for m in ast.walk(h)) for h in tries[0].handlers)
    ctx.check(ok, "R11.3", uid, "module marked loaded only after load_file returned", msg="module_import sets global_ctx.module before/without a successful load_file (a half-loaded module would be shared)",
              key="module set after success", node=f, rel="global_ctx.py")
    # relative import resolution vs importlib.util.resolve_name
    scen = [
        # (context name, rel_import_path, is package, file path)
        ("modules.pkg.sub", "modules/pkg/sub/__init__", True, "/cfg/pyscript/modules/pkg/sub/__init__.py"),
        ("modules.pkg", "modules/pkg/__init__", True, "/cfg/pyscript/modules/pkg/__init__.py"),
        ("apps.app1", "apps/app1/__init__", True, "/cfg/pyscript/apps/app1/__init__.py"),
        ("apps.app1.sub", "apps/app1/sub/__init__", True, "/cfg/pyscript/apps/app1/sub/__init__.py"),
        # packages and plain modules as loaded by module_import itself (rel_import_path is the package directory)
        ("modules.pkg", "modules/pkg", True, "/cfg/pyscript/modules/pkg/__init__.py"),
        ("modules.pkg.helper", "modules/pkg", False, "/cfg/pyscript/modules/pkg/helper.py"),
        ("modules.pkg.sub.leaf", "modules/pkg/sub", False, "/cfg/pyscript/modules/pkg/sub/leaf.py"),
        ("apps.app1.util", "apps/app1", False, "/cfg/pyscript/apps/app1/util.py"),
    ]
    for ctx_name, relpath, is_pkg, file_path in scen:
        for level in (1, 2):
            for mod in ("sib", "sib.deep"):
                package = ctx_name if is_pkg else ctx_name.rsplit(".", 1)[0]
                try:
                    exp = importlib.util.resolve_name("." * level + mod, package)
                except ImportError:
                    exp = None
                if exp is not None and exp.count(".") < 1 + mod.count("."):
                    exp = None
                if exp is not None and "." not in exp.rsplit("." + mod, 1)[0]:
                    exp = None  # would leave the modules/ or apps/ root: pyscript refuses (ImportError)
                got = _resolve(program, ctx_name, relpath, mod, level, file_path)
                ok = (exp is None and got == "ImportError") or (exp is not None and got != "ImportError" and set(got) == {exp})
                ctx.check(ok, "R11.3", uid, f"relative import level {level} of {mod} from {ctx_name}",
                          msg=f"module_import: `from {'.' * level}{mod} import ...` inside {ctx_name} looks up context name(s) {got}; Python resolves it to {exp}: "
                          f"the same file would be loaded as two module instances", key=f"relative level {level} {mod} from {ctx_name}", node=f, rel="global_ctx.py",
                          sample={"resolved": repr(got)})

    for case, got in import_reuse_cases(program):
        ctx.check(got == "ok", "R11.3", uid, f"reuse: {case}", msg=f"module_import: {case}: {got}: the same file would exist as two module instances",
                  key=f"reuse {case}", node=f, rel="global_ctx.py")

    for case, got in import_candidate_cases(program):
        ctx.check(got == "ok", "R11.3", uid, f"candidates: {case}", msg=f"module_import: {case}: {got}: the file that is loaded does not correspond to the context name it is registered under",
                  key=f"candidates {case}", node=f, rel="global_ctx.py")

    # R11.6 reload never leaves two instances of one module alive ----------------------------------------------------------
    ctx.rule("R11.6", "reload: every context that imports (directly or through other modules) a module that is re-loaded is discarded too, so no importer keeps the old instance", floor=6)
    from .c10 import LS, _model_run, scenarios
    for label, ex, fl, arg, exp_del, exp_load in scenarios():
        if not any(e["imports"] for e in ex.values()):
            continue
        res = _model_run(program, ex, fl, arg)
        stale = None
        for r in res:
            if r[0] != "return":
                stale = f"load_scripts leaves with {r[0]}"
                continue
            gone = set(r[1]) | (set(r[2]) & set(ex))
            # importer closure of the discarded modules
            for name, e in ex.items():
                if name in gone:
                    continue
                seen, todo = set(), list(e["imports"])
                while todo:
                    m = todo.pop()
                    if m in seen:
                        continue
                    seen.add(m)
                    todo += list(ex.get(m, {"imports": ()})["imports"])
                hit = sorted(m for m in seen if m in gone)
                if hit:
                    stale = f"{name} stays loaded although it imports {hit}, which {'is' if len(hit) == 1 else 'are'} discarded: it keeps the old module object while later importers get a new one"
        ctx.check(bool(res) and stale is None, "R11.6", LS, f"model: {label}", msg=f"reload model '{label}': {stale or 'no result'}", key=f"stale importer {label}",
                  node=program.func(LS), rel="__init__.py")

    # R11.7 pyscript.set_global_ctx switches all of the evaluator's global state together -------------------------------------------
    ctx.rule("R11.7", "set_global_ctx: context, global table and (at top level) the current scope switch together; inside a function the local scope is kept", floor=4)
    sg = "eval.py::AstEval.set_global_ctx"
    g_old, g_new, loc = DictV([(Const("old_global"), Const(1))]), DictV([(Const("new_global"), Const(2))]), DictV([(Const("local"), Const(3))])
    for where, cur, stack in (("top level", g_old, []), ("top level, scope stack in use", g_old, [g_old]), ("inside a function", loc, [g_old]),
                              ("inside a nested function", loc, [g_old, DictV([(Const("outer"), Const(4))])])):
        pol = FlowPolicy(program, may_raise_all=False, cancel=False, inline={"GlobalContext.get_global_sym_table"})
        heap = {"self.global_ctx": ObjV("gold", "GlobalContext"), "self.global_sym_table": g_old, "self.sym_table": cur, "self.sym_table_stack": ListV(tuple(stack), "list"),
                "gnew.global_sym_table": g_new, "gold.global_sym_table": g_old}
        out = run_flow(program, sg, pol, args={"self": ObjV("self", "AstEval"), "global_ctx": ObjV("gnew", "GlobalContext")}, heap=heap)
        bad = None
        ex = exits(out)
        for kind, c, desc in ex:
            h = c.heap
            want_cur = g_new if where.startswith("top level") else loc
            want_stack = ([g_new] + stack[1:]) if stack else []
            st = h.get("self.sym_table_stack")
            if kind != "return":
                bad = f"leaves with {desc}"
            elif h.get("self.global_ctx") != ObjV("gnew", "GlobalContext"):
                bad = "the evaluator's global context is not the new one"
            elif h.get("self.global_sym_table") != g_new:
                bad = f"global names resolve in {h.get('self.global_sym_table')!r} instead of the new context's table"
            elif h.get("self.sym_table") != want_cur:
                bad = f"the current scope is {h.get('self.sym_table')!r}, expected {want_cur!r}: names are read from / bound in the wrong context"
            elif not isinstance(st, ListV) or list(st.items) != want_stack:
                bad = f"scope stack is {st!r}, expected {want_stack!r}"
        ctx.check(bool(ex) and bad is None, "R11.7", sg, f"set_global_ctx {where}", msg=f"set_global_ctx called {where}: {bad or 'no exit'}", key=f"set_global_ctx {where}",
                  node=program.func(sg), rel="eval.py")

    ctx.rule("R11.8", "while a file is evaluated its context knows its own file path: relative imports are named consistently whoever imports the sibling", floor=1)
    from .c09 import load_file_identity_rule
    load_file_identity_rule(ctx, program, "R11.8")

    # R11.9 legacy triggers are built in (and registered with) the context of the file that applies the decorators -------------
    ctx.rule("R11.9", "legacy trigger_init builds the trigger and registers the function with the context that applied the decorators, not with the context the function body was defined in", floor=2)
    ti_uid = "eval.py::EvalFunc.trigger_init"
    seen = []

    class _RecvPolicy(FlowPolicy):
        def call(self, interp, node, fname, fval, args, kwargs, cfg, out):
            if isinstance(fval, FuncV) and fval.name.split(".")[-1] in ("get_trig_info", "trigger_register"):
                seen.append((fval.name.split(".")[-1], getattr(fval.recv, "oid", None)))
                return [(cfg, ObjV("ti", "TrigInfo") if "get_trig_info" in fval.name else Const(False))]
            return super().call(interp, node, fname, fval, args, kwargs, cfg, out)

    glob = {"TRIG_SERV_DECORATORS": ListV(tuple(Const(x) for x in ("service", "state_trigger", "event_trigger", "time_trigger", "mqtt_trigger", "webhook_trigger", "state_active",
                                                                   "time_active", "task_unique")), "set")}
    pol = _RecvPolicy(program, may_raise_all=False, cancel=False, globals_=glob, summaries={"trig_ctx.get_name": lambda i, n, a, k, c, o: [(c, Const("file.user"))]})
    pol.loop_unroll = 3
    dec = ListV((Const("state_trigger"), ListV((Const("d.e == limit"),), "list"), Const(None)), "list")
    heap = {"self.trigger_service": ListV((), "set"), "self.trigger": ListV((), "list"), "self.decorators": ListV((dec,), "list"), "self.doc_string": Const("doc"),
            "self.global_ctx": ObjV("defining_ctx", "GlobalContext"), "defining_ctx.global_sym_table": DictV([])}
    out = run_flow(program, ti_uid, pol, args={"self": ObjV("self", "EvalFunc"), "trig_ctx": ObjV("decorating_ctx", "GlobalContext"), "func_name": Const("f")}, heap=heap)
    for what in ("get_trig_info", "trigger_register"):
        recvs = sorted({r for w, r in seen if w == what})
        ctx.check(recvs == ["decorating_ctx"] and bool(exits(out)), "R11.9", ti_uid, f"{what} called on the decorating context",
                  msg=f"trigger_init calls {what} on {recvs} (scenario: the function was defined in a module - 'defining_ctx' - and is decorated in the user's file - 'decorating_ctx'): "
                  f"the trigger's expression strings are then evaluated against the other file's globals", key=f"trigger_init {what} receiver", node=program.func(ti_uid), rel="eval.py")

    # R11.10 a module's globals hold values, never closure cells ---------------------------------------------------------------
    ctx.rule("R11.10", "a class defined at module level (or declared global) is stored in the module's globals as the class itself, not as a closure cell: "
             "`from m import K` must not share a rebindable cell with m, and `m.K` is the class", floor=2)
    cd_uid = "eval.py::AstEval.ast_classdef"
    from ..schematic import to_nodev

    class _ScopePolicy(FlowPolicy):
        distinct_slots = True

        def __init__(self, *a, module_level=True, **k):
            super().__init__(*a, **k)
            self.module_level = module_level

        def attr(self, interp, base, attr, cfg):
            if isinstance(base, ObjV) and base.oid == "self" and attr in ("sym_table", "global_sym_table"):
                slot = "self.global_sym_table" if (attr == "global_sym_table" or self.module_level) else "self.sym_table"
                v = cfg.heap.get(slot)
                return DictV(v.items, slot) if isinstance(v, DictV) else None
            return None

    for module_level in (True, False):
        pol = _ScopePolicy(program, may_raise_all=False, cancel=False, module_level=module_level,
                           summaries={"inspect.iscoroutine": lambda i, n, a, k, c, o: [(c, Const(False))], "hasattr": lambda i, n, a, k, c, o: [(c, Const(False))],
                                      "self.aeval": lambda i, n, a, k, c, o: [(c, Const(None))]})
        pol.track_aliases = True
        pol.loop_unroll = 3
        node = to_nodev(ast.parse("class K:\n    pass").body[0])
        heap = {"self.global_sym_table": DictV([(Const("g"), Const(1))]), "self.sym_table": DictV([(Const("loc"), Const(2))]), "self.sym_table_stack": ListV((), "list"),
                "self.curr_func": Const(None)}
        out = run_flow(program, cd_uid, pol, args={"self": ObjV("self", "AstEval"), "arg": node}, heap=heap)
        bad = None
        ex = exits(out)
        for k, c, d in ex:
            tab = c.heap.get("self.global_sym_table" if module_level else "self.sym_table")
            v = tab.get(Const("K")) if isinstance(tab, DictV) else None
            is_cell = isinstance(v, App) and v.op == "new" and isinstance(v.args[0], ClassV) and v.args[0].name == "EvalLocalVar"
            if k != "return":
                bad = f"leaves with {d}"
            elif v is None:
                bad = "the class name is not bound"
            elif module_level and is_cell:
                bad = ("the module's globals hold a closure cell (EvalLocalVar) for K: `from m import K` hands the importer the same cell, a later `K = ...` in the importer rebinds m.K, "
                       "and `m.K` / isinstance(x, m.K) see the cell instead of the class")
            elif not module_level and not is_cell:
                bad = f"inside a function the class name must be a closure cell so that inner functions can capture it; bound to {v!r}"
        ctx.check(bool(ex) and bad is None, "R11.10", cd_uid, f"class statement at {'module level' if module_level else 'function level'}",
                  msg=f"ast_classdef at {'module level' if module_level else 'function level'}: {bad or 'no exit'}", key=f"class binding kind {module_level}", node=program.func(cd_uid), rel="eval.py")

    # R11.4 imports bind into the current scope only --------------------------------------------------------------------
    ctx.rule("R11.4", "import statements bind names only through the current scope (closure cell / global declaration aware)", floor=2)
    for h in ("ast_import", "ast_importfrom"):
        fu = program.func(f"eval.py::AstEval.{h}")
        bad = None
        for n2 in body_walk(fu):
            if isinstance(n2, ast.Assign):
                for t in n2.targets:
                    if isinstance(t, ast.Subscript) and norm(t.value) not in ("self.sym_table",):
                        bad = n2
                    if isinstance(t, ast.Attribute):
                        bad = n2
        ctx.check(bad is None, "R11.4", f"eval.py::AstEval.{h}", "binds only in the current symbol table",
                  msg=f"{h}: `{short(bad) if bad is not None else ''}` writes outside the current scope", key=f"{h} binding target", node=bad or fu, rel="eval.py")

    ctx.rule("R11.12", "calling a script function through its variable or as a bound method runs it on the evaluator of the calling task (the `ast_ctx` argument), "
             "never on the evaluator stored at definition time - concurrent calls each keep their own scope pointers", floor=2)
    tree = program.module("eval.py")
    n_sites = 0
    for cls in [c for c in tree.body if isinstance(c, ast.ClassDef) and c.name.startswith("EvalFuncVar")]:
        for fn in [f for f in cls.body if isinstance(f, (ast.FunctionDef, ast.AsyncFunctionDef)) and f.name == "call"]:
            params = [a.arg for a in fn.args.posonlyargs + fn.args.args]
            for site in [n for n in ast.walk(fn) if isinstance(n, ast.Call) and norm(n.func) == "self.func.call"]:
                n_sites += 1
                first = norm(site.args[0]) if site.args else None
                ctx.check(len(params) > 1 and first == params[1], "R11.12", f"eval.py::{cls.name}.call", "forwards the caller's evaluator",
                          msg=f"{cls.name}.call({', '.join(params)}) runs the function with `{first}` as evaluator instead of its `{params[1] if len(params) > 1 else '?'}` argument: "
                          f"every call made through it shares one evaluator, two tasks inside such calls overwrite each other's context/scope pointers", key=f"{cls.name}.call evaluator",
                          node=site, rel="eval.py")
    if n_sites < 2:
        raise AnalysisError(f"EvalFuncVar*.call: only {n_sites} forwarding sites found")

    ctx.rule("R11.13", "the evaluator stored in a function variable is the one that loaded the file - shared by everything defined there; it is used only when native code "
             "calls the variable directly (__call__), never handed to code that runs script functions later (done callbacks run on the finished task's own evaluator)", floor=1)
    n_get = 0
    getter = program.func("eval.py::EvalFuncVar.get_ast_ctx")
    users = []
    for u in program.functions():
        for n in body_walk(u.node):
            if isinstance(n, ast.Call) and isinstance(n.func, ast.Attribute) and n.func.attr == "get_ast_ctx":
                users.append((u.uid, n))
    allowed = {}  # uid -> reason; nobody needs it today
    for uid, n in users:
        ctx.check(uid in allowed, "R11.13", uid, "use of the file-level evaluator of a function variable",
                  msg=f"{uid}: `{short(getattr(n, '_parent', n))}` takes the evaluator that loaded the callback's file and keeps it for running the callback later: callbacks of that file "
                  f"finishing close together run concurrently on one evaluator - the second switches its globals under the first (a function then resolves names in another file's globals)",
                  key="file-level evaluator handed on", node=n, rel=uid.split("::")[0])
    ctx.check(getter is not None, "R11.13", "eval.py::EvalFuncVar.get_ast_ctx", f"accessor present, {len(users)} caller(s) outside the class reviewed", msg="accessor vanished", key="accessor", rel="eval.py")

    ctx.rule("R11.11", "`from m import *` copies exactly the module's public names (those not starting with an underscore): private globals of the two files stay separate", floor=1)
    star_import_rule(ctx, program, "R11.11")

    # R11.5 action evaluators use the function's own context ----------------------------------------------------------
    ctx.rule("R11.5", "evaluators created to run a function's action are built on that function's own global context", floor=5)
    action_evaluator_rule(ctx, program, "R11.5")
    return (
        "Static, source-only: EvalFunc.call is abstractly interpreted in two scenarios (defining context object equal / different from the evaluator's, "
        "same file name in both) and the evaluator's globals/context/scope stack are snapshotted where the body starts; heap-restore on all exits; "
        "who-may-write table for evaluator globals; module_import event order and concrete evaluation of its context-name computation against "
        "importlib.util.resolve_name for 16 (package, level, name) combinations.  Not decided: symbol-table contents after arbitrary programs."
    )


REUSE_SCEN = [
    # (importer context, rel_import_path, file path, module name, level, context names the module may already be loaded under:
    #  documented search order - an app looks in apps/ then modules/, everything else in modules/; relative names as importlib resolves them)
    ("apps.app1", "apps/app1/__init__", "/cfg/pyscript/apps/app1/__init__.py", "shared", 0, ["apps.shared", "modules.shared"]),
    ("apps.app1.util", "apps/app1", "/cfg/pyscript/apps/app1/util.py", "shared", 0, ["apps.shared", "modules.shared"]),
    ("apps.app1", "apps/app1/__init__", "/cfg/pyscript/apps/app1/__init__.py", "pkg.leaf", 0, ["apps.pkg.leaf", "modules.pkg.leaf"]),
    ("modules.pkg", "modules/pkg", "/cfg/pyscript/modules/pkg/__init__.py", "shared", 0, ["modules.shared"]),
    ("scripts.s1", None, "/cfg/pyscript/scripts/s1.py", "shared", 0, ["modules.shared"]),
    ("apps.app1", "apps/app1/__init__", "/cfg/pyscript/apps/app1/__init__.py", "sib", 1, ["apps.app1.sib"]),
    ("modules.pkg.helper", "modules/pkg", "/cfg/pyscript/modules/pkg/helper.py", "sib", 1, ["modules.pkg.sib"]),
]


def action_evaluator_rule(ctx, program, rid):
    """Each site that creates the evaluator a triggered/called function runs on hands it the function's own global context."""
    sites = {
        "trigger.py::TrigInfo.call_action": "self.action.global_ctx",
        "decorator.py::FunctionDecoratorManager.dispatch": "self.eval_func.global_ctx",
        "eval.py::EvalFunc.trigger_init.pyscript_service_factory.pyscript_service_handler": "self.global_ctx",
        "decorators/service.py::ServiceDecorator._service_callback": "self.dm.eval_func.global_ctx",
        "trigger.py::TrigTime.init.user_task_create_factory.user_task_create": "ast_ctx.get_global_ctx()",
    }
    for uid2, exp in sites.items():
        fu = program.func(uid2)
        calls = [n2 for n2 in body_walk(fu) if isinstance(n2, ast.Call) and call_name(n2) == "AstEval"]
        got = None
        if calls and len(calls[0].args) >= 2:
            from ..repo import expand_locals
            got = norm(expand_locals(fu, calls[0].args[1]))  # (sub-expressions that were bound to a local first are put back)
        ctx.check(got == exp, rid, uid2, f"AstEval built on {exp}", msg=f"{uid2}: the action evaluator is built on `{got}` instead of the function's own context `{exp}`",
                  key="action evaluator context", node=calls[0] if calls else fu, rel=uid2.split("::")[0])


def star_import_rule(ctx, program, rid):
    from ..flow import FlowPolicy, exits, run_flow
    uid = "eval.py::AstEval.ast_importfrom"
    base = {"public": Const(1), "_private": Const(2), "__dunder__": Const(3), "trailing_": Const(4), "_": Const(5), "a_b": Const(6)}
    for label, names, want_names in (
        ("no __all__: the public names", dict(base), [k for k in base if not k.startswith("_")]),
        ("__all__ = ['public', '_private']: exactly the listed names", dict(base, __all__=ListV((Const("public"), Const("_private")), "list")), ["public", "_private"]),
    ):
        mod = ObjV("mod", "module")
        pol = FlowPolicy(program, may_raise_all=False, cancel=False, summaries={"self.global_ctx.module_import": lambda i, n, a, k, c, o: [(c, mod)]})
        pol.loop_unroll = 10
        own = [(Const("_private"), Const("mine")), (Const("keep"), Const("mine")), (Const("a_b"), Const("mine"))]
        heap = {"mod.__dict__": DictV([(Const(k), v) for k, v in names.items()]), "self.sym_table": DictV(own), "self.global_ctx": ObjV("gctx", "GlobalContext")}
        for k, v in names.items():
            heap[f"mod.{k}"] = v
        out = run_flow(program, uid, pol, args={"self": ObjV("self", "AstEval"), "arg": to_nodev(ast.parse("from m import *").body[0])}, heap=heap)
        want = dict(own)
        want.update({Const(k): names[k] for k in want_names})
        bad = None
        ex = exits(out)
        for k, c, d in ex:
            tab = c.heap.get("self.sym_table")
            got = dict(tab.items) if isinstance(tab, DictV) else None
            if k != "return" or got != want:
                extra = sorted(x.v for x in (got or {}) if x not in want or (got or {}).get(x) != want.get(x))
                missing = sorted(x.v for x in want if x not in (got or {}))
                bad = f"{d}: the importing scope gets/overwrites {extra}, lacks {missing}"
        ctx.check(bool(ex) and bad is None, rid, uid, f"star import, {label}",
                  msg=f"`from m import *` with module globals {sorted(names)} ({label}): {bad or 'no exit'}: a global of the importer is overwritten by (and shared with) the module's, "
                  "or a listed name is missing", key="star import names" if "__all__" not in names else "star import __all__", node=program.func(uid), rel="eval.py")


def import_reuse_cases(program):
    """module_import on finite models: the module is already loaded under exactly one of the candidate context names
    (optionally an earlier candidate names a context that exists but is not a loaded module).  Expected: that module is
    returned, the import edge recorded, nothing is looked up on disk or loaded again."""
    res = []
    for ctx_name, relpath, file_path, mod, level, cands in REUSE_SCEN:
        for loaded in cands:
            for shadow in [None] + [c for c in cands if c != loaded]:
                got = _resolve(program, ctx_name, relpath, mod, level, file_path, loaded=loaded, shadow=shadow)
                res.append((f"`import {'.' * level}{mod}` in {ctx_name}: loaded as {loaded}" + (f", {shadow} exists without module" if shadow else ""), got))
    return res


def import_candidate_cases(program):
    """The (context name, file, package directory) candidates module_import hands to the file lookup, on finite models.
    Invariant: a candidate's file is its context name with '.' -> '/', plus '/__init__.py' (package directory = that path) or '.py'."""
    res = []
    scen = [(c, r, f, m, lv) for c, r, f, m, lv, _ in REUSE_SCEN] + [
        ("apps.app1", "apps/app1/__init__", "/cfg/pyscript/apps/app1/__init__.py", "pkg.sub.leaf", 0),
        ("scripts.s1", None, "/cfg/pyscript/scripts/s1.py", "pkg.sub", 0),
        ("modules.pkg.sub", "modules/pkg/sub", "/cfg/pyscript/modules/pkg/sub/__init__.py", "deep.leaf", 1),
        # a pyscript module may carry the name of an installed / allow-listed module: it is still looked for (and found) first
        ("scripts.s1", None, "/cfg/pyscript/scripts/s1.py", "random", 0),
        ("file.hello", None, "/cfg/pyscript/hello.py", "json", 0),
        ("apps.app1", "apps/app1/__init__", "/cfg/pyscript/apps/app1/__init__.py", "os", 0),
    ]
    for ctx_name, relpath, file_path, mod, level in scen:
        cands = _resolve(program, ctx_name, relpath, mod, level, file_path, want_files=True)
        label = f"`import {'.' * level}{mod}` in {ctx_name}"
        if not isinstance(cands, list) or not cands:
            res.append((label, f"no candidate list reaches the file lookup ({cands!r})"))
            continue
        bad = None
        kinds = set()
        for row in cands:
            if len(row) != 3 or not isinstance(row[0], str) or not isinstance(row[1], str):
                bad = f"candidate {row!r} is not (context name, file, package path)"
                continue
            name, path, pkg = row
            base = name.replace(".", "/")
            if path == base + "/__init__.py":
                kinds.add("package")
                if pkg != base:
                    bad = f"package candidate {name}: relative imports inside it would resolve against {pkg!r} instead of {base!r}"
            elif path == base + ".py":
                kinds.add("module")
                # a single-file module of a package resolves its own relative imports against the directory it lies in (None: not inside a package)
                inside_package = base.count("/") >= 2  # <root>/<package>/.../<file>: the file lies inside a package
                if (inside_package and pkg != base.rsplit("/", 1)[0]) or (not inside_package and pkg not in (None, base)):
                    bad = (f"single-file candidate {name} ({path}): its relative imports would resolve against {pkg!r} instead of its directory {base.rsplit('/', 1)[0]!r} - "
                           f"`from .sib import x` inside it then names a context that does not match the file loaded")
            else:
                bad = f"candidate context {name} is looked up in file {path!r}; expected {base + '/__init__.py'!r} or {base + '.py'!r}"
        if bad is None and kinds != {"package", "module"}:
            bad = f"only {sorted(kinds)} candidates; both the package form and the single-file form must be tried"
        res.append((label, bad or "ok"))
    return res


def _resolve(program, ctx_name, relpath, module_name, level, file_path=None, loaded=None, shadow=None, want_files=False):
    """Concrete abstract evaluation of module_import's candidate context names for a relative import."""
    uid = "global_ctx.py::GlobalContext.module_import"
    looked = []

    def mget(interp, node, args, kwargs, cfg, out):
        name = args[0].v if args and isinstance(args[0], Const) else repr(args[0] if args else None)
        looked.append(name)
        if loaded is not None and name == loaded:
            return [(cfg, ObjV("ctxL", "GlobalContext"))]
        if shadow is not None and name == shadow:
            return [(cfg, ObjV("ctxS", "GlobalContext"))]
        return [(cfg, Const(None))]

    disk = []
    files = []

    def lookup(interp, node, args, kwargs, cfg, out):
        disk.append(1)
        # the candidate rows are the list of lists among the arguments (the lookup function may take the base directory as well)
        cand = next((a for a in args[1:] if isinstance(a, ListV) and a.items and all(isinstance(r, ListV) for r in a.items)), None)
        if cand is None:
            cand = next((a for a in args[1:] if isinstance(a, ListV)), None)
        if cand is not None:
            for row in cand.items:
                files.append(tuple(x.v if isinstance(x, Const) else repr(x) for x in row.items) if isinstance(row, ListV) else repr(row))
        return [(cfg, Const(None))]

    allowed = const_set(program.module_const("const.py", "ALLOWED_IMPORTS")) or set()
    pol = FlowPolicy(program, may_raise_all=False, cancel=False, inline={"GlobalContext.get_name"}, globals_={"ALLOWED_IMPORTS": Const(frozenset(allowed))},
                     summaries={"self.manager.get": mget, "Function.hass.config.path": lambda i, n, a, k, c, o: [(c, Const("/cfg/pyscript"))],
                                "Function.hass.async_add_executor_job": lookup})
    pol.auto_inline_max_stmts = 150  # module_import may be split into helpers of any size: they are all interpreted
    heap = {"self.rel_import_path": Const(relpath), "self.name": Const(ctx_name), "self.manager": Sym(("mgr",)), "self.imports": ListV((), "set"),
            "self.auto_start": Const(False), "self.file_path": Const(file_path),
            "ctxL.module": ObjV("modL", "ModuleType"), "ctxL.name": Const(loaded), "ctxS.module": Const(None), "ctxS.name": Const(shadow)}
    out = run_flow(program, uid, pol, args={"self": ObjV("self", "GlobalContext"), "module_name": Const(module_name), "import_level": Const(level)}, heap=heap)
    if loaded is not None:
        rets = out.get("return")
        if out.get("raise") or not rets:
            return "raises or does not return"
        for c in rets:
            if c.env.get("$ret") != ObjV("modL", "ModuleType"):
                return f"returns {c.env.get('$ret')!r} instead of the loaded module" + (" after looking on disk" if disk else "")
            imp = c.heap.get("self.imports")
            if not (isinstance(imp, ListV) and Const(loaded) in imp.items):
                return f"import edge to {loaded} not recorded (imports={imp!r})"
        if disk:
            return "looks on disk although the module is loaded"
        return "ok"
    if out.get("raise") and not out.get("return"):
        excs = {getattr(c.env.get("$exc"), "cls", "?") for c in out.get("raise")}
        return "ImportError" if excs == {"ImportError"} else f"raise {sorted(excs)}"
    if want_files:
        n_exits = len(out.get("return")) + len(out.get("raise"))
        if len(disk) < n_exits:
            return f"{n_exits - len(disk)} of {n_exits} path(s) return without looking for the module's file"
        return list(dict.fromkeys(files))
    return sorted(set(looked))
