"""C14 - every run is an independent task whose exit always cleans up (structural clauses)."""

from __future__ import annotations

import ast

from ..absint import NONE, App, Cfg, ClassV, Const, DictV, ExcV, ListV, ObjV, Sym
from ..flow import FlowPolicy, exits, run_flow
from ..repo import AnalysisError, body_walk, call_name, dotted, enclosing_unit, norm, parent, short

LEVEL_TEXT = (
    "decides cleanup/ownership clauses of C14, not scheduling behaviour: every task-keyed registry of Function is emptied "
    "for the ending task on every exit of run_coro (return, exception, cancellation - including cancellation while a "
    "done-callback is awaited); every done-callback is attempted even if an earlier one fails; task-keyed registries are "
    "inserted into only at the reviewed owner sites (so nothing can re-create an entry after cleanup); tasks that run "
    "user code are created only through Function.create_task; task.executor rejects coroutine and pyscript functions"
    "; done callbacks that add/remove callbacks or claim names do not disturb the others; task.cancel hands a task to the reaper only once its wrapper registered it; the reaper and waiter loops survive a failing command"
    '; run_coro is only the outermost coroutine of a task made for it; every run (trigger, service, task.create) is started with its evaluator; bound methods compare by (function, instance); a raising done callback is reported once and stops nothing'
    "; done callbacks run on the run's own evaluator; awaits of tasks that may end cancelled do not end the service loops nor the caller of a service; a task cancelled during its done callbacks still runs the rest; the run's context is stored by its own task; re-registration replaces the arguments; legacy shutdown runs have a callback table"
)
LEVEL_NOTE = (
    "assumes every await may be cancelled and every non-reviewed call may raise; the raw task-creation sites listed in the "
    "checker were reviewed by hand (infrastructure coroutines only); interleavings and timing are not decided"
)
TECHNIQUE = "flow analysis with cancellation exits (must-release per registry), who-may-write / who-may-create-task tables over the whole package"

RUN_CORO = "function.py::Function.run_coro"

# reviewed: functions allowed to INSERT a key into a task-keyed registry (reason)
INSERT_SITES = {
    "our_tasks": {"function.py::Function.run_coro": "registers the current task on start"},
    "task2cb": {"function.py::Function.task_done_callback_ctx": "creates the callback record, guarded by a not-in test"},
    "task2context": {"function.py::Function.store_hass_context": "stores the context of the current task"},
    "unique_task2name": {"function.py::Function.task_unique_factory.task_unique": "creates the empty name set of the current task, guarded by a not-in test"},
}
# reviewed: functions allowed to REMOVE an entry of a task-keyed registry
REMOVE_SITES = {
    "our_tasks": {RUN_CORO},
    "task2cb": {RUN_CORO},
    "task2context": {RUN_CORO},
    "unique_task2name": {RUN_CORO},
}

# reviewed raw task-creation sites: (unit, callee suffix) -> why no user code / why acceptable
RAW_TASK_SITES = {
    ("function.py::Function.create_task", "loop.create_task"): "the wrapper itself: runs run_coro around the coroutine",
    ("__init__.py::async_setup", "async_create_task"): "config-flow import, no user code",
    ("decorator.py::FunctionDecoratorManager.__init__.on_func_var_deleted", "async_create_task"): "stops the manager from a finalizer (sync context)",
    ("global_ctx.py::GlobalContext.start", "async_create_task"): "starts decorator managers (infrastructure)",
    ("global_ctx.py::GlobalContext.stop", "async_create_task"): "stops decorator managers (infrastructure)",
    ("decorators/state.py::StateTriggerDecorator.start", "async_create_background_task"): "trigger cycle; user code runs via dm.dispatch -> Function.create_task",
    ("decorators/timing.py::TimeTriggerDecorator.start", "async_create_background_task"): "trigger cycle; user code runs via dm.dispatch -> Function.create_task",
    ("jupyter_kernel.py::Kernel.housekeep_run", "asyncio.create_task"): "kernel session shutdown (infrastructure, no user code)",
    ("jupyter_kernel.py::Kernel.session_start", "asyncio.create_task"): "kernel housekeeping / start-up timeout tasks (infrastructure)",
}
TASK_CREATORS = ("create_task", "ensure_future", "async_create_task", "async_create_background_task", "async_run_job", "async_add_job")


def task_registries(program):
    """Class-level registries of Function keyed by Task, read from the ClassVar annotations."""
    cls = program.cls("function.py::Function")
    regs = {}
    for s in cls.body:
        if isinstance(s, ast.AnnAssign) and isinstance(s.target, ast.Name):
            ann = norm(s.annotation)
            if "ClassVar" in ann and ("dict[Task" in ann or "set[Task" in ann):
                regs[s.target.id] = "set" if "set[Task" in ann else "dict"
    return regs


def _registry_of(node):
    """Name of the Function registry an expression denotes (cls.X / Function.X, or a local that was bound to it once), else None."""
    if isinstance(node, ast.Name):
        from ..repo import deref_local, enclosing_func
        fn = enclosing_func(node)
        if fn is not None:
            v = deref_local(fn, node)
            if v is not node:
                return _registry_of(v)
    d = dotted(node)
    if d and "." in d:
        head, attr = d.rsplit(".", 1)
        if head in ("cls", "Function"):
            return attr
    return None


def registry_writes(program, regs):
    """All insert/remove constructs on the registries across the package: (kind, reg, unit uid, node)."""
    found = []
    for u in program.functions():
        if u.rel.startswith("stubs/"):
            continue
        for n in body_walk(u.node):
            if isinstance(n, ast.Assign):
                for t in n.targets:
                    if isinstance(t, ast.Subscript) and _registry_of(t.value) in regs:
                        found.append(("insert", _registry_of(t.value), u.uid, n))
            elif isinstance(n, ast.Delete):
                for t in n.targets:
                    if isinstance(t, ast.Subscript) and _registry_of(t.value) in regs:
                        found.append(("remove", _registry_of(t.value), u.uid, n))
            elif isinstance(n, ast.Call) and isinstance(n.func, ast.Attribute) and _registry_of(n.func.value) in regs:
                reg = _registry_of(n.func.value)
                if n.func.attr in ("add", "setdefault", "update"):
                    found.append(("insert", reg, u.uid, n))
                elif n.func.attr in ("pop", "discard", "remove", "clear", "popitem"):
                    found.append(("remove", reg, u.uid, n))
    return found


def _guarded_by_not_in(node, reg):
    """The statement is dominated (inside the same function) by an `if <key> not in <reg>` test."""
    p = parent(node)
    child = node
    while p is not None and not isinstance(p, (ast.FunctionDef, ast.AsyncFunctionDef)):
        if isinstance(p, ast.If) and child in p.body:
            t = norm(p.test)
            if f"not in cls.{reg}" in t or f"not in Function.{reg}" in t:
                return True
        child = p
        p = parent(p)
    return False


def registries_emptied(ctx, program, rid, only=None):
    """run_coro abstractly interpreted with cancellation at every await: the ending task leaves every task-keyed registry on every exit."""
    fn = program.func(RUN_CORO)
    all_regs = task_registries(program)
    regs = all_regs
    ev = {}
    # locals of run_coro that are bound once to a registry (`task2name = cls.unique_task2name`) denote it
    aliases = {n.targets[0].id: _registry_of(n.value) for n in body_walk(fn) if isinstance(n, ast.Assign) and len(n.targets) == 1 and isinstance(n.targets[0], ast.Name)
               and _registry_of(n.value) in regs and _registry_of(n.targets[0]) in regs}
    heads = {f"cls.{reg}": reg for reg in regs}
    heads.update(aliases)
    for head, reg in heads.items():
        ev[f"{head}.pop"] = reg
        ev[f"{head}.discard"] = reg
        ev[f"{head}.remove"] = reg
    pol = FlowPolicy(program, events=[lambda l: ev.get(l) and f"remove:{ev[l]}", lambda l: "add" if l == "cls.our_tasks.add" else None],
                     locals_={"task", "cls"} | set(aliases), no_raise={"asyncio.current_task", "cls.task_done_callback_ctx"})
    pol.atom_attrs = set(regs)
    out = run_flow(program, RUN_CORO, pol)
    n = 0
    missing = {}
    for kind, c, desc in exits(out):
        calls = [e for e in c.trace if e[0] == "call"]
        if not any(e[1] == "add" for e in calls):
            continue  # the task was never registered on this path
        n += 1
        removed = {e[1].split(":", 1)[1] for e in calls if e[1].startswith("remove:")}
        removed |= {_reg_from_term(e[1]) for e in c.trace if e[0] == "delitem"} - {None}
        notin = set()
        for atom, val in c.assume:
            if isinstance(atom, tuple) and len(atom) == 2 and isinstance(atom[1], App) and atom[1].op == "in" and not val:
                r = _reg_from_term(atom[1].args[1])
                if r:
                    notin.add(r)
            # `reg.get(task) is None` (or a local holding that result tested): the task has no entry
            if isinstance(atom, tuple) and len(atom) == 2 and isinstance(atom[1], App) and atom[1].op in ("is", "isnot") and (atom[1].op == "is") == bool(val) \
                    and Const(None) in atom[1].args:
                for a in atom[1].args:
                    if isinstance(a, App) and a.op == "res" and a.args and isinstance(a.args[0], Const) and str(a.args[0].v).endswith(".get"):
                        r = heads.get(str(a.args[0].v)[:-4])
                        if r:
                            notin.add(r)
        for reg in regs:
            if reg not in removed and reg not in notin:
                missing.setdefault(reg, []).append(desc)
    if n == 0:
        raise AnalysisError("run_coro: no exit after task registration found")
    for reg in (r for r in regs if only is None or r in only):
        if reg in missing:
            ctx.fail(rid, RUN_CORO, f"{reg} emptied on every exit",
                     f"run_coro: the ending task stays in Function.{reg} on {len(missing[reg])} exit path(s), e.g. [{sorted(missing[reg])[0]}]",
                     node=fn, rel="function.py", detail={"exits": sorted(set(missing[reg]))[:6]})
        else:
            ctx.ok(rid, RUN_CORO, f"{reg} emptied on every exit ({n} exits after registration)")
    # inverse map of the unique names
    fin = [t for t in body_walk(fn) if isinstance(t, ast.Try) and t.finalbody]
    inv_ok = False
    for t in fin:
        for s in t.finalbody:
            nodes = list(ast.walk(s))
            for m in list(nodes):
                # a helper of the class called from the finally clause is part of it
                if isinstance(m, ast.Call) and isinstance(m.func, (ast.Name, ast.Attribute)):
                    hu = program.resolve_callable(program.unit(RUN_CORO), m.func)
                    if hu is not None and isinstance(hu.node, (ast.FunctionDef, ast.AsyncFunctionDef)) and hu.rel == "function.py":
                        nodes.extend(ast.walk(hu.node))
            for m in nodes:
                if isinstance(m, ast.Delete) and any(isinstance(x, ast.Subscript) and _registry_of(x.value) == "unique_name2task" for x in m.targets):
                    inv_ok = True
    ctx.check(inv_ok, rid, RUN_CORO, "inverse map unique_name2task released in the finally clause",
              msg="run_coro: the finally clause no longer deletes the ending task's names from unique_name2task", key="unique_name2task released",
              node=fn, rel="function.py")


class _ServiceLoopPolicy(FlowPolicy):
    def await_raises(self, interp, node, cfg):
        # awaiting a task or future object (not a call) re-raises whatever exception that task ended with
        return ("Exception",) if not isinstance(node.value, ast.Call) else ()


def run(ctx):
    program = ctx.program
    fn = program.func(RUN_CORO)
    regs = task_registries(program)
    if len(regs) < 4:
        raise AnalysisError(f"expected >= 4 task-keyed registries in Function, found {sorted(regs)}")

    ctx.rule("R14.1", "run_coro removes the ending task from every task-keyed registry on every exit (return, exception, cancellation at any await)", floor=4)
    registries_emptied(ctx, program, "R14.1")

    # R14.3 all done-callbacks attempted ---------------------------------------------------------------------------
    ctx.rule("R14.3", "a done callback that raises is reported once through the script logger and neither stops the remaining callbacks nor the cleanup (run_coro interpreted on three callbacks)", floor=2)
    callback_mutation_table(ctx, program, "R14.3", only=("raise", "raise-last"))

    # R14.5 who may insert / remove registry entries -----------------------------------------------------------------
    ctx.rule("R14.5", "task-keyed registries are inserted into / removed from only at the reviewed owner sites; accumulating entries are created under a not-in guard", floor=8)
    for kind, reg, uid, node in registry_writes(program, regs):
        if kind == "insert":
            ok = uid in INSERT_SITES.get(reg, {}) or program.only_reached_from(uid, set(INSERT_SITES.get(reg, {})))  # (or a helper only these sites call)
            ctx.check(ok, "R14.5", uid, f"insert into {reg}",
                      msg=f"{uid} inserts into Function.{reg} (`{short(node)}`): only {sorted(INSERT_SITES.get(reg, {}))} may create entries; "
                      f"an entry created elsewhere can outlive the cleanup in run_coro", key=f"insert into {reg}: {short(node, 60)}", node=node, rel=uid.split('::')[0])
            if ok and regs[reg] == "dict" and isinstance(node, ast.Assign) and reg in ("task2cb", "unique_task2name"):
                ctx.check(_guarded_by_not_in(node, reg), "R14.5", uid, f"creation of {reg} entry guarded by not-in",
                          msg=f"{uid}: `{short(node)}` replaces an existing entry of Function.{reg} (no `not in` guard): names/callbacks already recorded for the task are lost",
                          key=f"unguarded creation in {reg}", node=node, rel=uid.split('::')[0])
        else:
            # removing a member of the *value* (e.g. cls.task2cb[task]["cb"].pop) is not an entry removal: only direct calls counted
            ok = uid in REMOVE_SITES.get(reg, set()) or program.only_reached_from(uid, set(REMOVE_SITES.get(reg, set())))  # (or a helper only these sites call)
            ctx.check(ok, "R14.5", uid, f"remove from {reg}",
                      msg=f"{uid} removes an entry of Function.{reg} (`{short(node)}`): entries are released only by run_coro when the task ends",
                      key=f"remove from {reg}: {short(node, 60)}", node=node, rel=uid.split('::')[0])

    # R14.2 who may create tasks --------------------------------------------------------------------------------------
    ctx.rule("R14.2", "tasks are created through Function.create_task; raw task creation only at reviewed infrastructure sites", floor=6)
    for u in program.functions():
        if u.rel.startswith("stubs/"):
            continue
        for n in body_walk(u.node):
            if isinstance(n, ast.Call) and isinstance(n.func, ast.Attribute) and n.func.attr in TASK_CREATORS:
                d = dotted(n.func) or n.func.attr
                if d in ("Function.create_task", "cls.create_task"):
                    ctx.ok("R14.2", u.uid, f"task created through Function.create_task ({short(n, 50)})", node=n, rel=u.rel, nontrivial=True)
                    continue
                key = next((k for k in RAW_TASK_SITES if k[0] == u.uid and d.endswith(k[1])), None)
                ctx.check(key is not None, "R14.2", u.uid, f"raw task creation `{short(n, 60)}` is a reviewed infrastructure site",
                          msg=f"{u.uid}: `{short(n)}` creates a task outside Function.create_task: it is not registered in our_tasks and its exit "
                          f"skips the unique-name/context/callback cleanup", key=f"raw task creation {d}", node=n, rel=u.rel)

    # R14.4 task.executor --------------------------------------------------------------------------------------------
    ctx.rule("R14.9", "run_coro (whose exit forgets everything recorded for the *current* task) is only ever the outermost coroutine of a task made for it: its one caller is "
             "Function.create_task, which wraps it in loop.create_task - never awaited inside another run", floor=1)
    rc = "function.py::Function.run_coro"
    sites = []
    for u in program.functions():
        for n in body_walk(u.node):
            if isinstance(n, ast.Call) and (call_name(n) or "").split(".")[-1] == "run_coro":
                sites.append((u.uid, n))
    if not sites:
        raise AnalysisError("no call of run_coro found")
    for uid, n in sites:
        par = getattr(n, "_parent", None)
        wrapped = isinstance(par, ast.Call) and (call_name(par) or "").endswith("loop.create_task") and uid == "function.py::Function.create_task"
        ctx.check(wrapped, "R14.9", uid, f"run_coro is the coroutine of a new task ({short(par) if par is not None else ''})",
                  msg=f"{uid}: `{short(par if isinstance(par, (ast.Await, ast.Call)) else n)}` runs run_coro inside the caller's task: when it ends its cleanup removes the still-running "
                  f"caller from our_tasks, fires the caller's done callbacks early and forgets its unique names and context", key=f"run_coro caller {uid}", node=n, rel=uid.split("::")[0])

    ctx.rule("R14.10", "every run of a script function - trigger occurrence, service call, task.create - is started with its evaluator, so that the run has a done-callback "
             "table (task.add_done_callback on the current task works in all of them)", floor=5)
    RUN_SITES = ["trigger.py::TrigInfo.call_action", "decorator.py::FunctionDecoratorManager.dispatch",
                 "eval.py::EvalFunc.trigger_init.pyscript_service_factory.pyscript_service_handler", "decorators/service.py::ServiceDecorator._service_callback",
                 "trigger.py::TrigTime.init.user_task_create_factory.user_task_create"]
    for uid in RUN_SITES:
        f = program.func(uid)
        creates = [n for n in body_walk(f) if isinstance(n, ast.Call) and call_name(n) == "Function.create_task"]
        if not creates:
            ctx.fail("R14.10", uid, "the run is started in a task of its own", f"{uid}: no Function.create_task call: the script function is not run in a task of its own "
                     f"(its done callbacks, unique names and cancellation would be those of whatever task happens to call the handler)", rel=uid.split("::")[0], node=f)
            continue
        regs = [n for n in body_walk(f) if isinstance(n, ast.Call) and call_name(n) == "Function.task_done_callback_ctx"]
        for c in creates:
            kw = {k.arg: k.value for k in c.keywords}
            given = ("ast_ctx" in kw and not (isinstance(kw["ast_ctx"], ast.Constant) and kw["ast_ctx"].value is None)) or len(c.args) > 1 or bool(regs)
            ctx.check(given, "R14.10", uid, "the run's task is created with its evaluator", msg=f"{uid}: `{short(c)}` starts the run without an evaluator and nothing registers one: the task has no "
                      f"done-callback table, task.add_done_callback(task.current_task(), ...) inside the run raises KeyError and no callback runs when it ends", key="run without callback table",
                      node=c, rel=uid.split("::")[0])

    ctx.rule("R14.12", "the evaluator a run's done callbacks are evaluated on is the one created for that run: at every run site the evaluator handed to "
             "Function.create_task / Function.task_done_callback_ctx is the AstEval the site itself has just built (never the caller's, which is busy with the caller's own code)", floor=5)
    for uid in RUN_SITES:
        f = program.func(uid)
        built = [norm(n.targets[0]) for n in body_walk(f) if isinstance(n, ast.Assign) and isinstance(n.value, ast.Call) and call_name(n.value) == "AstEval" and len(n.targets) == 1]
        if len(built) != 1:
            raise AnalysisError(f"R14.12: {uid} builds {len(built)} evaluators, expected one")
        given = []
        for n in body_walk(f):
            if isinstance(n, ast.Call) and call_name(n) == "Function.create_task":
                given += [(n, norm(k.value)) for k in n.keywords if k.arg == "ast_ctx"] + [(n, norm(a)) for a in n.args[1:2]]
            elif isinstance(n, ast.Call) and call_name(n) == "Function.task_done_callback_ctx" and len(n.args) > 1:
                given.append((n, norm(n.args[1])))
        bad = [(n, g) for n, g in given if g != built[0]]
        ctx.check(bool(given) and not bad, "R14.12", uid, f"done callbacks of the run use its own evaluator `{built[0]}`",
                  msg=f"{uid}: " + "; ".join(f"`{short(n)}` registers evaluator `{g}`" for n, g in bad) + f" while the run was given its own evaluator `{built[0]}`: the done callbacks are "
                  f"evaluated on an evaluator that is executing other code at that moment (its symbol table, current function and exception state are overwritten)",
                  key="callback evaluator is the run's own", node=bad[0][0] if bad else f, rel=uid.split("::")[0])

    ctx.rule("R14.13", "the unique names of a task are forgotten at its exit without disturbing anybody else: the owner map and the per-task name sets stay mutually consistent "
             "over every task.unique transition (a name left in the old owner's set makes that owner's exit delete the new owner's entry, and the new owner's exit fail in its cleanup)", floor=16)
    from .c13 import unique_table
    unique_table(ctx, program, "R14.13")

    ctx.rule("R14.14", "task.create, task.executor and task.add_done_callback hand the given keyword arguments to the function / callback whatever they are called "
             "(func, task, callback, ...): their own parameters are positional-only", floor=5)
    from .c03 import kwargs_namespace_rule
    kwargs_namespace_rule(ctx, program, "R14.14", only=("function.py::Function.task_add_done_callback", "trigger.py::TrigTime."))

    ctx.rule("R14.11", "done callbacks are kept one per callback *function*: an object that is built anew on every access (the bound method made by a descriptor's __get__) "
             "compares and hashes by what it denotes (function, instance), so adding it twice keeps one entry and task.remove_done_callback finds it", floor=1)
    tree = program.module("eval.py")
    classes = {c.name: c for c in tree.body if isinstance(c, ast.ClassDef)}
    made = []
    for c in classes.values():
        for f in [f for f in c.body if isinstance(f, ast.FunctionDef) and f.name == "__get__"]:
            for n in ast.walk(f):
                if isinstance(n, ast.Return) and isinstance(n.value, ast.Call) and isinstance(n.value.func, ast.Name) and n.value.func.id in classes:
                    made.append((c.name, n.value.func.id, n))
    if not made:
        raise AnalysisError("no descriptor __get__ that builds a bound-method object was found in eval.py")
    for owner, clsname, node in made:
        own = {f.name for f in classes[clsname].body if isinstance(f, ast.FunctionDef)}
        ctx.check({"__eq__", "__hash__"} <= own, "R14.11", f"eval.py::{clsname}", f"{clsname} (made anew by {owner}.__get__) defines __eq__ and __hash__",
                  msg=f"{owner}.__get__ returns a new {clsname} on every `obj.method` access and {clsname} lacks {sorted({'__eq__', '__hash__'} - own)}: two accesses of one method are two "
                  f"different dictionary keys - task.add_done_callback(t, obj.m) twice runs it twice, task.remove_done_callback(t, obj.m) removes nothing",
                  key=f"bound method identity {clsname}", node=node, rel="eval.py")

    ctx.rule("R14.7", "done callbacks that add or remove callbacks of the finishing task do not disturb the others: every remaining callback still runs once, run_coro ends normally and forgets every name", floor=4)
    callback_mutation_table(ctx, program, "R14.7")

    ctx.rule("R14.17", "each done callback runs exactly once also when the finishing task is cancelled (task.cancel by another run) while one of its callbacks is suspended: "
             "the remaining callbacks still run, everything recorded for the task is forgotten, and the task ends cancelled", floor=1)
    callback_mutation_table(ctx, program, "R14.17", only=("cancel",))

    ctx.rule("R14.18", "the Home Assistant context of a run is recorded under the run's own task (so that it is forgotten when that task ends): it is stored inside the "
             "coroutine the task runs, before the function body", floor=2)
    from .c08 import context_owner_rule
    context_owner_rule(ctx, program, "R14.18")

    ctx.rule("R14.19", "task.add_done_callback for a function that is already registered replaces its arguments (one callback per function, run with the latest arguments); "
             "other callbacks keep theirs", floor=2)
    uid = "function.py::Function.task_add_done_callback"
    for first in (("A",), ()):
        heap = {"Function.task2cb": DictV([(Const("T"), DictV([(Const("ctx"), ObjV("actx", "AstEval")), (Const("cb"), DictV([(Const("other"), ListV((ObjV("actx", "AstEval"), ListV((Const("O"),), "tuple"), DictV([])), "list"))]))]))])}
        pol = FlowPolicy(program, may_raise_all=False, cancel=False)
        cur = [Cfg(heap=heap)]
        bad = None
        for args_ in (first, ("B",)):
            nxt = []
            for c0 in cur:
                o = run_flow(program, uid, pol, args={"cls": ClassV("Function"), "task": Const("T"), "ast_ctx": NONE, "callback": Const("cb_f"), "args": ListV(tuple(Const(x) for x in args_), "tuple"),
                                                      "kwargs": DictV([])}, heap=dict(c0.heap))
                for k, c, d in exits(o):
                    if k != "return":
                        bad = f"leaves with {d}"
                    nxt.append(c)
            cur = nxt
        for c in cur:
            cbs = c.heap["Function.task2cb"].get(Const("T")).get(Const("cb"))
            ent = cbs.get(Const("cb_f")) if isinstance(cbs, DictV) else None
            got = [x.v for x in ent.items[1].items] if isinstance(ent, ListV) and len(ent.items) > 1 and isinstance(ent.items[1], ListV) else repr(ent)
            oth = cbs.get(Const("other")) if isinstance(cbs, DictV) else None
            if got != ["B"]:
                bad = f"the callback is kept with the arguments {got}, specified ['B'] (the latest registration)"
            elif not (isinstance(oth, ListV) and [x.v for x in oth.items[1].items] == ["O"]):
                bad = f"another callback's entry changed to {oth!r}"
        ctx.check(bool(cur) and bad is None, "R14.19", uid, f"re-registration after arguments {list(first)}", msg=f"task.add_done_callback(t, f, {', '.join(first) or '<none>'}) then (t, f, 'B'): {bad or 'no exit'}",
                  key=f"re-registration {first}", node=program.func(uid), rel="function.py")

    ctx.rule("R14.20", "legacy runs that are started by the waiter (the shutdown occurrence: Function.waiter_await -> create_task without an evaluator) have a done-callback "
             "table too: the run's coroutine registers its evaluator for the current task before the function body, so task.add_done_callback(task.current_task(), ...) works in it", floor=1)
    uid = "trigger.py::TrigInfo.call_action.do_func_call"
    f = program.func(uid)
    names = [call_name(n) for n in body_walk(f) if isinstance(n, ast.Call)]
    body_call = next((i for i, nm in enumerate(names) if nm and nm.endswith(".call_func")), None)
    waiter_plain = any(isinstance(n, ast.Call) and call_name(n) == "cls.create_task" and len(n.args) == 1 and not n.keywords for n in body_walk(program.func("function.py::Function.init.task_waiter")))
    reg = [i for i, nm in enumerate(names) if nm == "Function.task_done_callback_ctx"]
    ctx.check(body_call is not None and (not waiter_plain or (reg and reg[0] < body_call)), "R14.20", uid, "the run registers its evaluator for its own task",
              msg=f"{uid}: the waiter starts shutdown runs with create_task(coro) (no evaluator) and the run's coroutine does not register one either (calls: {names}): the task has no "
              "done-callback table - task.add_done_callback(task.current_task(), cb) in a @time_trigger('shutdown') function raises KeyError, and no callback runs when it ends",
              key="legacy shutdown run callback table", node=f, rel="trigger.py")

    ctx.rule("R14.8", "the reaper and waiter service loops survive a failing command: after any exception of one iteration the next command is still taken from the queue", floor=2)
    for uid, q in (("function.py::Function.init.task_reaper", "reaper_q.get"), ("function.py::Function.init.task_waiter", "waiter_q.get")):
        pol = _ServiceLoopPolicy(program, may_raise_all=True, cancel=False, events=[q], record_atoms=False, no_raise={q})
        pol.trace_handlers = True
        pol.loop_unroll = 2
        out = run_flow(program, uid, pol)
        dead, n_handled = [], 0
        for k, c, d in exits(out):
            evs = [e for e in c.trace if (e[0] == "call" and e[1] == q) or (e[0] == "handler" and len(e) > 3 and e[3] == "Exception")]
            hs = [i for i, e in enumerate(evs) if e[0] == "handler"]
            if hs:
                n_handled += 1
                if not any(e[0] == "call" for e in evs[hs[0] + 1:]):
                    dead.append(f"{k} after the handler at line {evs[hs[0]][1]}")
            if k == "raise" and getattr(c.env.get("$exc"), "cls", "") == "Exception":
                dead.append(f"escapes: {d}")
        ctx.check(n_handled > 0 and not dead, "R14.8", uid, "the loop continues after a failing command",
                  msg=f"{uid}: an exception while processing one command ends the loop ({sorted(set(dead))[:2]}): no later task.cancel / task.unique / shutdown wait is ever served "
                  f"(callers asking to be cancelled sleep for ever)", key="service loop survives", node=program.func(uid), rel="function.py")

    ctx.rule("R14.15", "the reaper and waiter loops outlive the tasks they wait for: awaiting a task that ends cancelled (a shutdown run that cancels itself, the task the "
             "reaper has just cancelled) raises CancelledError in the loop, so each such await collects it (gather(return_exceptions=True)) or sits in a handler that "
             "absorbs it - otherwise the loop dies and every later unload/reload waits for ever", floor=2)
    for uid in ("function.py::Function.init.task_reaper", "function.py::Function.init.task_waiter"):
        f = program.func(uid)
        found = task_awaits(f)
        for n, ok in found:
            ctx.check(ok, "R14.15", uid, f"`{short(n)}` does not end the loop when the awaited task was cancelled",
                      msg=f"{uid}: `{short(n)}` raises CancelledError in the service loop when an awaited task ends cancelled, and the nearest handler re-raises it: the loop ends, "
                      f"pending and later requests (waiter_sync at unload/reload/shutdown) are never answered", key=f"await of tasks {norm(n.value)[:40]}", node=n, rel="function.py")
        if not found:
            raise AnalysisError(f"R14.15: {uid} awaits no task any more")

    ctx.rule("R14.16", "a service call waits for its run without sharing its fate: the handler awaits the run's task in a way that does not re-raise the run's cancellation "
             "(task.cancel / task.unique inside the service function) in the caller - a script that called the service with blocking=True would be terminated with it", floor=2)
    for uid in ("eval.py::EvalFunc.trigger_init.pyscript_service_factory.pyscript_service_handler", "decorators/service.py::ServiceDecorator._service_callback"):
        f = program.func(uid)
        found = task_awaits(f)
        for n, ok in found:
            ctx.check(ok, "R14.16", uid, f"`{short(n)}` keeps the run's cancellation out of the caller",
                      msg=f"{uid}: `{short(n)}` re-raises the CancelledError of the run's own task in the task that called the service: a run that is cancelled terminates the run "
                      f"that called it", key="service handler awaits its run", node=n, rel=uid.split("::")[0])
        if not found:
            ctx.ok("R14.16", uid, "the handler does not wait for the run")

    ctx.rule("R14.6", "task.cancel hands a task to the reaper only when its wrapper has registered it (a task cancelled before its first step never runs its cleanup)", floor=8)
    cancel_table(ctx, program, "R14.6")

    ctx.rule("R14.4", "task.executor rejects coroutine functions and pyscript functions and runs the callable in the executor", floor=3)
    uid = "trigger.py::TrigTime.user_task_executor"
    f = program.func(uid)
    pol = FlowPolicy(program, events=["cls.hass.async_add_executor_job"], may_raise_all=False, cancel=False, locals_={"func", "cls"})
    out = run_flow(program, uid, pol)
    ok_exec = True
    saw = {"coro": False, "evalfunc": False, "exec": False}
    for kind, c, desc in exits(out):
        used = any(e[0] == "call" for e in c.trace)
        for atom, val in c.assume:
            s = repr(atom)
            if "iscoroutinefunction" in s and val and used:
                ok_exec = False
            if "isinstance" in s and "EvalFuncVar" in s and val and used:
                ok_exec = False
            if "iscoroutinefunction" in s and val and kind == "raise":
                saw["coro"] = True
            if "EvalFuncVar" in s and val and kind == "raise":
                saw["evalfunc"] = True
        if used and kind == "return":
            saw["exec"] = True
    ctx.check(ok_exec and saw["coro"], "R14.4", uid, "coroutine functions rejected", msg="task.executor no longer raises for coroutine functions before using the executor",
              key="executor rejects coroutine functions", node=f, rel="trigger.py")
    ctx.check(ok_exec and saw["evalfunc"], "R14.4", uid, "pyscript functions rejected", msg="task.executor no longer raises for pyscript (interpreted) functions",
              key="executor rejects pyscript functions", node=f, rel="trigger.py")
    ctx.check(saw["exec"], "R14.4", uid, "plain callables run in the executor", msg="task.executor no longer hands the callable to hass.async_add_executor_job",
              key="executor used", node=f, rel="trigger.py")
    return (
        "Static, source-only.  R14.1: Function.run_coro is abstractly interpreted with cancellation possible at every await (including awaits inside "
        "its finally clause) and exceptions at every non-reviewed call; after the task is registered, every exit must have removed it from each registry "
        "read from Function's ClassVar annotations (or have tested it absent).  R14.3 callback loop; R14.5 who-may-insert/remove tables over the package; "
        "R14.2 who-may-create-task table; R14.4 executor guards.  Not decided: independence of concurrently running tasks, asyncio scheduling."
    )


def _reg_from_term(v):
    if isinstance(v, Sym) and v.tag and v.tag[0] == "clsattr":
        return v.tag[2]
    if isinstance(v, App):
        for a in v.args:
            r = _reg_from_term(a)
            if r:
                return r
    return None


def _wait_cancel(interp, node, args, kwargs, cfg, out):
    out.add("raise", cfg.set("$exc", ExcV("CancelledError", "wait to be cancelled")))
    return []


def cancel_table(ctx, program, rid):
    """user_task_cancel interpreted on every small registry model."""
    uid = "function.py::Function.user_task_cancel"
    fn = program.func(uid)
    for target in (None, "T_x"):
        for started in (True, False):
            for has_cb in (True, False):
                t = target or "T_cur"
                heap = {"Function.our_tasks": ListV(tuple(Const(x) for x in ([t] if started else []) + ["T_other"]), "set"),
                        "Function.task2cb": DictV([(Const(x), DictV([])) for x in ([t] if has_cb else [])]),
                        "Function.task2context": DictV([]), "Function.unique_task2name": DictV([])}
                pol = FlowPolicy(program, events=["cls.reaper_cancel"], may_raise_all=False, cancel=False,
                                 summaries={"asyncio.current_task": lambda i, n, a, k, c, o: [(c, Const("T_cur"))], "asyncio.sleep": _wait_cancel})
                out = run_flow(program, uid, pol, args={"cls": ClassV("Function"), "task": Const(target)}, heap=heap)
                label = f"{'the caller itself' if target is None else 'another task'}, {'started' if started else 'not started yet'}, {'has' if has_cb else 'no'} done-callback entry"
                bad = None
                paths = exits(out)
                for kind, c, desc in paths:
                    cancelled = [e[2][0].v if e[2] and isinstance(e[2][0], Const) else repr(e[2]) for e in c.trace if e[0] == "call" and e[1] == "cls.reaper_cancel"]
                    exc = getattr(c.env.get("$exc"), "cls", None) if kind == "raise" else None
                    if started:
                        if cancelled != [t]:
                            bad = f"hands {cancelled} to the reaper, specified [{t}]"
                        elif target is None and exc != "CancelledError":
                            bad = f"the caller continues after cancelling itself ({desc})"
                        elif target is not None and kind != "return":
                            bad = f"leaves with {desc}"
                    else:
                        if cancelled:
                            bad = f"hands {cancelled} to the reaper although the task is not in our_tasks: cancelled before its first step it never reaches run_coro's cleanup (callbacks never run, task2cb entry leaks)"
                        elif exc != "TypeError":
                            bad = f"does not refuse with TypeError ({desc})"
                ctx.check(bool(paths) and bad is None, rid, uid, f"task.cancel: {label}", msg=f"task.cancel of {label}: {bad or 'no exit'}", key=f"cancel {label}", node=fn, rel="function.py")


class _LivePolicy(FlowPolicy):
    live_lists = True  # containers iterated in place behave as Python's iterators do (a dict that changes size raises RuntimeError)
    on_callback = None  # summary of `<evaluator>.call_func(callback, ...)`, whatever the evaluator variable is called
    on_log = None

    def call(self, interp, node, fname, fval, args, kwargs, cfg, out):
        label = self.label(fname, fval) or ""
        if self.on_callback is not None and label.endswith(".call_func"):
            return self.on_callback(interp, node, args, kwargs, cfg, out)
        if self.on_log is not None and label.endswith(".log_exception"):
            return self.on_log(interp, node, args, kwargs, cfg, out)
        return super().call(interp, node, fname, fval, args, kwargs, cfg, out)


def callback_mutation_table(ctx, program, rid, only=None):
    from ..absint import NONE, ObjV
    fn = program.func(RUN_CORO)

    def info():
        return ListV((ObjV("actx", "AstEval"), ListV((), "tuple"), DictV([])), "list")

    for mutate in (None, "remove", "add", "claim", "raise", "raise-last", "cancel"):
        if (only is not None and mutate not in only) or (only is None and mutate in ("raise", "raise-last", "cancel")):
            continue

        def call_func(i, n, a, k, c, o, mutate=mutate):
            cb = a[0]
            c = c.hset("$ran", ListV(c.heap.get("$ran", ListV(())).items + (cb,)))
            if mutate in ("raise", "raise-last") and cb == Const("cb1" if mutate == "raise" else "cb3"):
                o.add("raise", c.set("$exc", ExcV("Exception", f"user code in {cb.v}")))
                return []
            if mutate == "cancel":
                if cb == Const("cb1"):   # task.cancel(this task) by another run while cb1 is suspended
                    o.add("raise", c.set("$exc", ExcV("CancelledError", "cancelled while cb1 is suspended")))
                    return []
                return [(c, NONE)]
            if cb == Const("cb1") and mutate:
                t2cb = c.heap["Function.task2cb"]
                ent = t2cb.get(Const("T"))
                cbs = ent.get(Const("cb"))
                if mutate == "remove":   # task.remove_done_callback(this_task, cb2) called by cb1
                    cbs2 = DictV([(k2, v) for k2, v in cbs.items if k2 != Const("cb2")])
                elif mutate == "claim":  # task.unique("x") called by cb1: the finishing task becomes the owner of a name
                    cbs2 = cbs
                    c = c.hset("Function.unique_task2name", c.heap["Function.unique_task2name"].set(Const("T"), ListV((Const("ctx.x"),), "set")))
                    c = c.hset("Function.unique_name2task", c.heap["Function.unique_name2task"].set(Const("ctx.x"), Const("T")))
                else:                    # task.add_done_callback(this_task, cb4) called by cb1
                    cbs2 = cbs.set(Const("cb4"), info())
                c = c.hset("Function.task2cb", t2cb.set(Const("T"), ent.set(Const("cb"), cbs2)))
            return [(c, NONE)]

        pol = _LivePolicy(program, may_raise_all=False, cancel=False, summaries={"asyncio.current_task": lambda i, n, a, k, c, o: [(c, Const("T"))]})
        pol.on_callback = call_func
        pol.track_aliases = True  # a registry read into a local (`name2task = cls.unique_name2task`) is still the registry
        pol.on_log = lambda i, n, a, k, c, o: [(c.hset("$logged", Const(c.heap.get("$logged", Const(0)).v + 1)), NONE)]
        heap = {"Function.task2cb": DictV([(Const("T"), DictV([(Const("ctx"), ObjV("actx", "AstEval")), (Const("cb"), DictV([(Const("cb1"), info()), (Const("cb2"), info()), (Const("cb3"), info())]))]))]),
                "Function.our_tasks": ListV((), "set"), "Function.unique_task2name": DictV([]), "Function.unique_name2task": DictV([]), "Function.task2context": DictV([])}
        out = run_flow(program, RUN_CORO, pol, args={"cls": ClassV("Function"), "coro": Sym(("coro",)), "ast_ctx": NONE}, heap=heap)
        bad = None
        ex = exits(out)
        for k, c, d in ex:
            ran = [x.v for x in c.heap.get("$ran", ListV(())).items if isinstance(x, Const)]
            if mutate == "cancel" and (k != "raise" or getattr(c.env.get("$exc"), "cls", "") != "CancelledError"):
                bad = f"run_coro ends with {d}: the cancellation is swallowed (the task must still end cancelled)"
            elif mutate != "cancel" and k != "return":
                bad = f"run_coro leaves with {d} after running {ran}"
            elif any(ran.count(x) != 1 for x in ("cb1", "cb3")) or ran.count("cb2") > 1 or (mutate != "remove" and ran.count("cb2") != 1):
                bad = f"callbacks run: {ran}"
            elif mutate in ("raise", "raise-last") and c.heap.get("$logged", Const(0)) != Const(1):
                bad = f"the failing callback is reported {c.heap.get('$logged', Const(0)).v} time(s) through log_exception (callbacks run: {ran})"
            elif c.heap.get("Function.task2cb") != DictV([]):
                bad = f"the task's callback table is not forgotten: {c.heap.get('Function.task2cb')!r}"
            elif c.heap.get("Function.unique_task2name") != DictV([]) or c.heap.get("Function.unique_name2task") != DictV([]):
                bad = (f"a finished task still owns unique names: {c.heap.get('Function.unique_name2task')!r} - names claimed by user code that runs for the task (a done callback) "
                       f"must be released too, so the release has to come after the last callback")
        what = {None: "callbacks leave the table alone", "remove": "the first callback removes the second one", "add": "the first callback adds a fourth one",
                "claim": "the first callback claims a unique name (task.unique) for the finishing task", "raise": "the first callback raises",
                "raise-last": "the last callback raises", "cancel": "the task is cancelled while its first callback is suspended"}[mutate]
        ctx.check(bool(ex) and bad is None, rid, RUN_CORO, f"three done callbacks, {what}", msg=f"run_coro with three done callbacks where {what}: {bad or 'no exit'} - "
                  f"the remaining callbacks are skipped and the task ends with an exception", key=f"callback mutation {mutate}", node=fn, rel="function.py")


def task_awaits(f):
    """(await node, protected?) for every await of task objects in f: protected when the awaited tasks' cancellation is collected (asyncio.wait, gather(return_exceptions=True))
    or absorbed by the nearest CancelledError handler."""
    res = []
    for n in body_walk(f):
        if not isinstance(n, ast.Await):
            continue
        v = n.value
        is_gather = isinstance(v, ast.Call) and call_name(v) in ("asyncio.gather", "asyncio.wait")
        if not (is_gather or not isinstance(v, ast.Call)):
            continue
        collected = is_gather and (call_name(v) == "asyncio.wait" or any(k.arg == "return_exceptions" and isinstance(k.value, ast.Constant) and k.value.value is True for k in v.keywords))
        absorbed = None
        cur = n
        while cur is not f and absorbed is None:
            par = parent(cur)
            if isinstance(par, (ast.With, ast.AsyncWith)) and any(cur is s or any(cur is d for d in ast.walk(s)) for s in par.body):
                # `with contextlib.suppress(asyncio.CancelledError):` is an empty handler for it
                for item in par.items:
                    ce = item.context_expr
                    if isinstance(ce, ast.Call) and (call_name(ce) or "").split(".")[-1] == "suppress" and any(
                            "CancelledError" in norm(a) or "BaseException" in norm(a) for a in ce.args):
                        absorbed = True
            if absorbed is None and isinstance(par, ast.Try) and any(cur is s or any(cur is d for d in ast.walk(s)) for s in par.body):
                for h in par.handlers:
                    names = norm(h.type) if h.type is not None else "BaseException"
                    if "CancelledError" in names or "BaseException" in names:
                        absorbed = not any(isinstance(x, ast.Raise) for s in h.body for x in ast.walk(s))
                        break
            cur = par
        res.append((n, bool(collected or absorbed is True)))
    return res
