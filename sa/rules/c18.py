"""C18 - script errors are contained and attributed to the right file, function, line (containment clauses)."""

from __future__ import annotations

import ast

from ..absint import Const, ListV, ObjV, Sym
from ..flow import FlowPolicy, exits, run_flow
from ..repo import AnalysisError, body_walk, call_name, norm, short
from .c03 import _restore_rule

LEVEL_TEXT = (
    "decides containment clauses of C18, not traceback text: at every infrastructure entry point that calls into user "
    "code (function calls, trigger / active / filter expressions, done callbacks, decorator evaluation, service handlers) "
    "an exception raised by the user code cannot leave the entry point - it is caught and reported through the script's "
    "log_exception/handle_exception; no user-code exception can reach the handler that terminates a trigger loop; one "
    "failing file does not stop the load loop; the attribution state (source text, function, file name fields) is set "
    "together and restored on every exit"
    "; every failure of reading a script file (not only OSError) skips that file only; an interpreter frame replaces the previous traceback frame only for the same function of the same file; raise statements build Python's cause/context chain"
    '; a raising done callback is reported and does not stop the others; native frames are positioned by the traceback entry, not by the frame object'
    "; service entry points are whatever coroutine the handler starts as the run's task (a run started directly on the script function escapes to run_coro's catch-all); every native frame is reported; a SyntaxError without position is reported"
)
LEVEL_NOTE = "which calls run user code is a reviewed table (eval/call_func/call on evaluators and functions); traceback line numbers and text are not decided statically"
TECHNIQUE = "flow analysis with exceptions injected at user-code call sites (escape analysis per entry point, handler reachability), sibling field agreement in the traceback builder, heap-restore"

USER_SUFFIXES = (".call_func", ".eval", "func.call", ".aeval")
LOGGERS = ("log_exception", "handle_exception")

# entry point -> user-code call labels that must be contained
ENTRY_POINTS = {
    "trigger.py::TrigInfo.call_action.do_func_call": ["ast_ctx.call_func"],
    "trigger.py::TrigInfo._call_expression": ["ast_expr.eval"],
    "trigger.py::TrigTime.init.user_task_create_factory.user_task_create.func_call": ["new_ast_ctx.call_func"],
    "decorators/base.py::ExpressionDecorator.check_expression_vars": ["self._ast_expression.eval"],
    "decorator.py::FunctionDecoratorManager._call": ["data.call_ast_ctx.call_func"],
    "function.py::Function.run_coro": ["ast_ctx.call_func"],
    "eval.py::AstEval.ast_functiondef": ["func.trigger_init"],
    "global_ctx.py::GlobalContext.create_decorator_manager": ["dm.validate", "dm.start"],
    "trigger.py::TrigInfo.trigger_watch": ["self.active_expr.eval"],
}


# service handlers: the entry point is whatever coroutine the handler starts as the run's task (resolved from the code, not named here)
SERVICE_HANDLERS = ("eval.py::EvalFunc.trigger_init.pyscript_service_factory.pyscript_service_handler", "decorators/service.py::ServiceDecorator._service_callback")


def _service_entry_points(ctx, program):
    found = {}
    for huid in SERVICE_HANDLERS:
        h = program.func(huid)
        starts = [n for n in body_walk(h) if isinstance(n, ast.Call) and call_name(n) == "Function.create_task" and n.args]
        if len(starts) != 1:
            raise AnalysisError(f"{huid}: expected one Function.create_task(<coroutine>) - found {[short(s) for s in starts]}")
        coro = starts[0].args[0]
        if isinstance(coro, ast.Name):
            # the coroutine was bound to a local first
            defs = [m.value for m in body_walk(h) if isinstance(m, ast.Assign) and len(m.targets) == 1 and isinstance(m.targets[0], ast.Name) and m.targets[0].id == coro.id]
            coro = defs[-1] if defs else coro
        if not isinstance(coro, ast.Call):
            raise AnalysisError(f"{huid}: the coroutine handed to Function.create_task could not be resolved (`{short(starts[0])}`)")
        cu = program.resolve_callable(program.unit(huid), coro.func)  # nested in the handler, in an enclosing factory, a method or a module-level coroutine
        cname = call_name(coro)
        if cu is not None and isinstance(cu.node, ast.AsyncFunctionDef):
            user = sorted({call_name(n) for n in body_walk(cu.node) if isinstance(n, ast.Call) and (call_name(n) or "").endswith(".call")})
            if not user:
                raise AnalysisError(f"{huid}.{cname}: no call of the script function found")
            found[cu.uid] = user
        else:
            ctx.fail("R18.1", huid, "the run's coroutine contains the function's exceptions",
                     f"{huid}: the task of a service run is started directly on `{short(coro)}`: an exception of the script function reaches only run_coro's catch-all, which reports it on the "
                     f"integration's own logger (custom_components.pyscript.function) without the script's logger, file, function or line", node=coro, rel=huid.split("::")[0])
    return found


def run(ctx):
    program = ctx.program
    ctx.rule("R18.1", "an exception raised by user code cannot leave the infrastructure entry point; it is logged through the script's logger", floor=10)
    entry_points = dict(ENTRY_POINTS)
    entry_points.update(_service_entry_points(ctx, program))
    work = list(entry_points.items())
    done = set()
    while work:
        uid, labels = work.pop(0)
        if uid in done:
            continue
        done.add(uid)
        f = program.func(uid)
        # the table names the user-code calls by method (the receiver's variable name is free to change)
        present = {call_name(n) for n in body_walk(f) if isinstance(n, ast.Call)} - {None}
        resolved = []
        for l in labels:
            meth = l.split(".")[-1]
            hits = sorted(p for p in present if p == l) or sorted(p for p in present if p.split(".")[-1] == meth and "." in p)
            if not hits:
                # the call was moved into a helper of the same class / module: the helper is then the entry point that has to contain the exception
                moved = []
                for n in body_walk(f):
                    if isinstance(n, ast.Call) and isinstance(n.func, (ast.Name, ast.Attribute)):
                        hu = program.resolve_callable(program.unit(uid), n.func)
                        if hu is not None and isinstance(hu.node, (ast.FunctionDef, ast.AsyncFunctionDef)) and hu.uid != uid:
                            inner = sorted({call_name(m) for m in body_walk(hu.node) if isinstance(m, ast.Call) and (call_name(m) or "").split(".")[-1] == meth and "." in (call_name(m) or "")})
                            if inner:
                                moved.append((hu.uid, inner))
                if not moved:
                    raise AnalysisError(f"{uid}: user-code call(s) [{l!r}] not found - the entry point table no longer matches the code")
                for huid, inner in moved:
                    if huid in entry_points or huid in done:
                        continue
                    work.append((huid, inner))
                continue
            resolved.extend(hits)
        labels = list(dict.fromkeys(resolved))
        if not labels:
            ctx.ok("R18.1", uid, "user-code calls of this entry point are made (and contained) in a helper that is an entry point of its own")
            continue
        pol = FlowPolicy(program, events=[lambda l: l if l and l.split(".")[-1] in LOGGERS else None], may_raise_all=False, cancel=False,
                         locals_={"self", "cls"}, record_atoms=False)
        pol.raising_labels = set(labels)
        pol.trace_handlers = True
        pol.loop_unroll = 1
        out = run_flow(program, uid, pol)
        escaped = []
        unlogged = []
        for kind, c, desc in exits(out):
            if kind == "raise":
                exc = c.env.get("$exc")
                if "user code via" in str(getattr(exc, "origin", "")):
                    escaped.append(exc.origin)
            handled = [e for e in c.trace if e[0] == "handler" and "user code via" in str(e[2])]
            if handled and kind == "return":
                logs = [e for e in c.trace if e[0] == "call"]
                if not logs:
                    unlogged.append(handled[0][2])
        for lab in labels:
            esc = sorted({o for o in escaped if f"via {lab} " in o})
            ctx.check(not esc, "R18.1", uid, f"exceptions from {lab} are contained",
                      msg=f"{uid}: an exception raised by user code ({esc[:1]}) propagates out of this entry point: it surfaces in Home Assistant's own task/logger "
                      f"without the script's traceback", key=f"escape from {lab}", node=f, rel=uid.split("::")[0])
            unl = sorted({o for o in unlogged if f"via {lab} " in o})
            ctx.check(not unl, "R18.1", uid, f"exceptions from {lab} are logged on the script logger",
                      msg=f"{uid}: an exception from {lab} is swallowed without log_exception/handle_exception", key=f"unlogged {lab}", node=f, rel=uid.split("::")[0])

    ctx.rule("R18.9", "an exception in a task's done callback is reported once on the script's logger and does not keep the task's other done callbacks from running", floor=2)
    from .c14 import callback_mutation_table
    callback_mutation_table(ctx, program, "R18.9", only=("raise", "raise-last"))

    ctx.rule("R18.10", "native frames (compiled helpers) are reported at the position recorded in the traceback entry (tb_lasti / tb_lineno): the frame object's own "
             "f_lasti / f_lineno moves on when the frame keeps running (finally blocks, handlers that raise again) and is never read by the formatter", floor=1)
    fmt = program.cls("eval.py::EvalExceptionFormatter")
    rf = program.func("eval.py::EvalExceptionFormatter.real_frame")
    reads = [n for n in ast.walk(fmt) if isinstance(n, ast.Attribute) and n.attr in ("f_lasti", "f_lineno")]
    uses_tb = [n for n in body_walk(rf) if isinstance(n, ast.Attribute) and n.attr in ("tb_lasti", "tb_lineno")]
    if not uses_tb:
        raise AnalysisError("EvalExceptionFormatter.real_frame no longer reads tb_lasti/tb_lineno: the position rule has lost its anchor")
    ctx.check(not reads, "R18.10", "eval.py::EvalExceptionFormatter.real_frame", "frame positions come from the traceback entry",
              msg=f"EvalExceptionFormatter reads `{short(reads[0]) if reads else ''}`: that is the last instruction the frame executed at all, not where the exception passed through it - "
              f"a fault inside try/finally (or re-raised from a handler) in a compiled helper is reported at the wrong line", key="frame position source", node=reads[0] if reads else rf, rel="eval.py")

    ctx.rule("R18.11", "every native frame of the traceback is reported, wherever its file lies: natively compiled script code (@pyscript_compile, @pyscript_executor, lambda) "
             "is compiled with the script's path - which is below the <config>/pyscript folder - and library frames name where the fault happened", floor=3)
    from ..absint import Const, DictV, ListV, ObjV
    for fname in ("/config/pyscript/hello.py", "/config/pyscript/modules/helper.py", "/usr/lib/python3.12/json/decoder.py"):
        polf = FlowPolicy(program, may_raise_all=False, cancel=False, events=["self.stack.append"],
                          summaries={"traceback.FrameSummary": lambda i, n, a, k, c, o: [(c, DictV([(Const(kk), vv) for kk, vv in k.items()]))],
                                     "code.co_positions": lambda i, n, a, k, c, o: [(c, ListV((), "list"))]})
        heapf = {"tb.tb_lineno": Const(7), "tb.tb_lasti": Const(-1), "tb.tb_frame": ObjV("frame", "frame"), "frame.f_code": ObjV("code", "code"), "code.co_filename": Const(fname),
                 "code.co_name": Const("native_div")}
        outf = run_flow(program, "eval.py::EvalExceptionFormatter.real_frame", polf, args={"self": ObjV("self", "EvalExceptionFormatter"), "tb": ObjV("tb", "traceback")}, heap=heapf)
        got = []
        for k, c, d in exits(outf):
            apps = [e for e in c.trace if e[0] == "call" and e[1] == "self.stack.append"]
            fs = apps[0][2][0] if apps and apps[0][2] else None
            got.append((k, len(apps), fs.get(Const("filename")) if isinstance(fs, DictV) else None, fs.get(Const("lineno")) if isinstance(fs, DictV) else None))
        ctx.check(got == [("return", 1, Const(fname), Const(7))], "R18.11", "eval.py::EvalExceptionFormatter.real_frame", f"native frame in {fname}",
                  msg=f"real_frame for a frame of {fname} (line 7): (exit, frames added, file, line) = {got}, specified [('return', 1, {fname!r}, 7)]: the traceback ends before the frame "
                  "where the fault happened", key=f"native frame {fname}", node=rf, rel="eval.py")

    ctx.rule("R18.12", "the report of a SyntaxError is built for every value the host gives its position fields: offset / end_offset / lineno are None for some errors "
             "(source with a NUL byte) - the formatter must not fail on them, or nothing reaches the script's logger (and a Jupyter session is shut down)", floor=1)
    bs = program.func("eval.py::EvalExceptionFormatter._build_stack")
    branch = None
    for n in ast.walk(bs):
        if isinstance(n, ast.If) and "SyntaxError" in norm(n.test) and any("self.exc.offset" in norm(s) for s in n.body):
            branch = n
    if branch is None:
        raise AnalysisError("R18.12: the SyntaxError branch of _build_stack was not found")
    from ..flow import FlowInterp
    from ..absint import Cfg, NONE, Out
    for label, off, end in (("both positions None", NONE, NONE), ("end_offset None", Const(3), NONE), ("both given", Const(3), Const(5))):
        polb = FlowPolicy(program, may_raise_all=False, cancel=False, summaries={"self.ast_frame": lambda i, n, a, k, c, o: [(c, NONE)], "frame.f_locals.get": lambda i, n, a, k, c, o: [(c, ObjV("ev", "AstEval"))],
                                                                                  "ctx.global_ctx.get_file_path": lambda i, n, a, k, c, o: [(c, Const("/config/pyscript/hello.py"))]})
        interp = FlowInterp(polb, "eval.py")
        interp.call_stack.append(bs)
        heapb = {"self.exc": ObjV("exc", "SyntaxError"), "exc.lineno": Const(1), "exc.offset": off, "exc.end_offset": end, "ev.code_list": ListV((), "list"), "ev.filename": Const("f")}
        ob = interp.exec_block(branch.body, [Cfg(env={"self": ObjV("self", "EvalExceptionFormatter"), "frame": ObjV("frame", "frame")}, heap=heapb)])
        raised = [getattr(c.env.get("$exc"), "cls", "?") for c in ob.get("raise")]
        ctx.check(not raised, "R18.12", "eval.py::EvalExceptionFormatter._build_stack", f"SyntaxError with {label}",
                  msg=f"_build_stack for a SyntaxError with {label}: the formatter itself raises {raised} ('Error while formatting ast exception' is all that is logged, on the integration's logger)",
                  key=f"syntax error positions {label}", node=branch, rel="eval.py")

    ctx.rule("R18.3", "no user-code exception reaches the handler that ends a trigger loop", floor=1)
    uid = "trigger.py::TrigInfo.trigger_watch"
    f = program.func(uid)
    outer = [t for t in f.body if isinstance(t, ast.Try)]
    if not outer:
        raise AnalysisError("trigger_watch: outer try not found")
    term = [h for h in outer[0].handlers if h.type is not None and norm(h.type) == "Exception"]
    pol = FlowPolicy(program, may_raise_all=False, cancel=False, locals_={"self"}, record_atoms=False)
    pol.raising_labels = {"self.active_expr.eval", "self._call_expression", "self.call_action"}
    pol.trace_handlers = True
    pol.loop_unroll = 1
    out = run_flow(program, uid, pol)
    bad = set()
    for kind, c, desc in exits(out):
        for e in c.trace:
            if e[0] == "handler" and term and e[1] == term[0].lineno and "user code via self.active_expr.eval" in str(e[2]):
                bad.add(e[2])
    ctx.check(not bad and bool(term), "R18.3", uid, "@state_active evaluation errors never terminate the trigger",
              msg=f"trigger_watch: an exception from the @state_active expression {sorted(bad)[:1]} reaches the outer handler that unsubscribes and ends the trigger", key="active expr reaches terminating handler",
              node=f, rel="trigger.py")

    ctx.rule("R18.6", "reading a script file: any failure (I/O error, undecodable bytes) skips that file only - it never leaves the reader", floor=4)
    for uid, labels in (("__init__.py::load_scripts.glob_read_files", ["open", "file_desc.read", "os.path.getmtime"]),
                        ("global_ctx.py::GlobalContextMgr.load_file.read_file", ["open", "file_desc.read", "os.path.getmtime"])):
        f = program.func(uid)
        present = {call_name(n) for n in body_walk(f) if isinstance(n, ast.Call)}
        missing = [l for l in labels if l not in present]
        if missing:
            raise AnalysisError(f"{uid}: file access call(s) {missing} not found")
        pol = FlowPolicy(program, may_raise_all=False, cancel=False, record_atoms=False, locals_={"file_desc"})
        pol.raising_labels = set(labels)
        pol.trace_handlers = True
        pol.loop_unroll = 1
        out = run_flow(program, uid, pol, args={"load_paths": Sym(("paths",)), "apps_config": Sym(("apps",))} if uid.endswith("glob_read_files") else None)
        escaped = sorted({str(c.env.get("$exc").origin) for kind, c, desc in exits(out) if kind == "raise" and "user code via" in str(getattr(c.env.get("$exc"), "origin", ""))})
        for lab in labels:
            esc = [o for o in escaped if f"via {lab} " in o]
            ctx.check(not esc, "R18.6", uid, f"failures of {lab} are contained",
                      msg=f"{uid}: an exception raised by {lab} that is not an OSError (e.g. UnicodeDecodeError for a file that is not valid UTF-8) leaves the reader "
                      f"({[e.replace('user code via ', '') for e in esc[:1]]}): set-up or reload fails as a whole and no script is loaded", key=f"reader escape {lab}", node=f, rel=uid.split("::")[0])

    ctx.rule("R18.7", "traceback reconstruction: an interpreter frame replaces the previous one only when it belongs to the same function of the same file, otherwise it is added", floor=4)
    uid = "eval.py::EvalExceptionFormatter.ast_frame"
    fa = program.func(uid)
    for label, last, want_len in (("same file and function", ("hello.py", "fetch"), 1), ("same name in another file", ("backend.py", "fetch"), 2),
                                  ("other function of the same file", ("hello.py", "other"), 2), ("empty stack", None, 1)):
        def frame_summary(i, n, a, k, c, o):
            oid = "newframe"
            for key in ("filename", "name", "lineno"):
                c = c.hset(f"{oid}.{key}", k.get(key, Const(None)))
            return [(c, ObjV(oid, "FrameSummary"))]

        pol = FlowPolicy(program, may_raise_all=False, cancel=False, summaries={"traceback.FrameSummary": frame_summary,
                         "ctx.get_global_ctx": lambda i, n, a, k, c, o: [(c, ObjV("gctx", "GlobalContext"))]})
        heap = {"self.stack": ListV((ObjV("last", "FrameSummary"),) if last else (), "list"), "self.current_code_list": ListV((Const("line1"), Const("line2")), "list"),
                "self.lineno": Const(1), "self.col_offset": Const(0), "self.end_col_offset": Const(3), "self.current_filename": Const("hello.py"), "self.current_func": Const("fetch"),
                "self.last_eval_frame": ObjV("last", "FrameSummary") if last else Const(None), "gctx.source": Const("line1\nline2"), "ctx.name": Const("file.hello.fetch")}
        if last:
            heap.update({"last.filename": Const(last[0]), "last.name": Const(last[1]), "last.lineno": Const(9)})
        out = run_flow(program, uid, pol, args={"self": ObjV("self", "EvalExceptionFormatter"), "ctx": ObjV("ctx", "AstEval")}, heap=heap)
        bad = None
        ex = exits(out)
        for kind, c, desc in ex:
            st = c.heap.get("self.stack")
            if kind != "return" or not isinstance(st, ListV):
                bad = f"leaves with {desc}"
            elif len(st.items) != want_len or st.items[-1] != ObjV("newframe", "FrameSummary"):
                kept = [f"{c.heap.get(x.oid + '.filename')!r}:{c.heap.get(x.oid + '.name')!r}" for x in st.items if isinstance(x, ObjV)]
                bad = f"the stack becomes {kept}; " + ("the caller's frame must stay and the new frame be added" if want_len == 2 else "the frame of the same function must be replaced by the deeper one")
        ctx.check(bool(ex) and bad is None, "R18.7", uid, f"new frame hello.py:fetch after {label}", msg=f"ast_frame, previous frame {last}: {bad or 'no exit'}: the logged traceback loses or duplicates a script frame",
                  key=f"frame merge {label}", node=fa, rel="eval.py")

    ctx.rule("R18.8", "raise statements build the exception chain Python builds (raise X, raise X from Y, raise X from None): the report on the script's logger shows the same causes and contexts", floor=3)
    from ..hcompare import compare_shape
    from ..schematic import HandlerPolicy
    hpol = HandlerPolicy(program, raise_at_eval=True)
    for src in ("raise a0", "raise a0 from a1", "raise a0 from None"):
        compare_shape(ctx, program, hpol, "R18.8", src, "exec", result="flow", ref_opts={"raise_at_eval": True})

    ctx.rule("R18.2", "a file that fails to load does not stop the other files", floor=1)
    f = program.func("__init__.py::load_scripts")
    ok = False
    for loop in body_walk(f):
        if isinstance(loop, ast.For) and "ctx2files" in norm(loop.iter):
            for t in ast.walk(loop):
                if isinstance(t, ast.Try) and any((call_name(m) or "") == "GlobalContextMgr.load_file" for m in ast.walk(t) if isinstance(m, ast.Call)):
                    ok = any(h.type is not None and norm(h.type) == "Exception" and not any(isinstance(m, ast.Raise) for m in ast.walk(h)) for h in t.handlers)
    ctx.check(ok, "R18.2", "__init__.py::load_scripts", "load loop catches per file", msg="load_scripts: a failing load_file is no longer caught inside the per-file loop", key="per-file isolation",
              node=f, rel="__init__.py")

    ctx.rule("R18.2b", "a file whose load fails is stopped and stays unregistered (nothing it registered while loading survives)", floor=3)
    from .c09 import load_file_rule
    load_file_rule(ctx, program, "R18.2b")

    ctx.rule("R18.4", "attribution state (code_str/code_list/curr_func) is restored on every exit", floor=4)
    ast_ctx = ObjV("ast_ctx", "AstEval")
    init = {"code_str": Sym(("init", "code_str")), "code_list": Sym(("init", "code_list")), "curr_func": Sym(("init", "curr_func"))}
    _restore_rule(ctx, program, "R18.4", "eval.py::EvalFunc.call", "ast_ctx", "AstEval", list(init), init, {"ast_ctx": ast_ctx, "self": ObjV("self", "EvalFunc")}, what="EvalFunc.call")
    init2 = {"code_str": Sym(("init", "code_str")), "code_list": Sym(("init", "code_list"))}
    _restore_rule(ctx, program, "R18.4", "eval.py::EvalFunc.eval_decorators", "ast_ctx", "AstEval", list(init2), init2, {"ast_ctx": ast_ctx, "self": ObjV("self", "EvalFunc")},
                  what="EvalFunc.eval_decorators")

    ctx.rule("R18.5", "the traceback builder takes function name, source lines and file name of a pyscript frame from the same function object", floor=3)
    f = program.func("eval.py::EvalExceptionFormatter._build_stack")
    branch = None
    for n in body_walk(f):
        if isinstance(n, ast.If) and "EvalFunc.call.__qualname__" in norm(n.test):
            branch = n
    if branch is None:
        raise AnalysisError("_build_stack: EvalFunc.call frame branch not found")
    assigned = {}
    for m in ast.walk(ast.Module(body=branch.body, type_ignores=[])):
        if isinstance(m, ast.Assign) and isinstance(m.targets[0], ast.Attribute) and norm(m.targets[0].value) == "self":
            assigned[m.targets[0].attr] = norm(m.value)
    for fld, src in (("current_func", "eval_func.get_name()"), ("current_code_list", "eval_func.code_list"), ("current_filename", "eval_func.global_ctx.get_file_path()")):
        ctx.check(assigned.get(fld, "").startswith("eval_func"), "R18.5", "eval.py::EvalExceptionFormatter._build_stack", f"{fld} taken from the frame's function",
                  msg=f"_build_stack: for an EvalFunc.call frame `{fld}` is {'set from ' + assigned[fld] if fld in assigned else 'not set'}; name, source and file of a frame must all come from the function "
                  f"being executed (a function defined in another file would be reported under the caller's file)", key=f"frame field {fld}", node=branch, rel="eval.py")
    # the generic aeval branch must not override what the function frame established
    gen = None
    for n in body_walk(f):
        if isinstance(n, ast.If) and "AstEval.aeval.__qualname__" in norm(n.test):
            gen = n
    ok = gen is not None
    if gen is not None:
        for m in ast.walk(ast.Module(body=gen.body, type_ignores=[])):
            if isinstance(m, ast.Assign) and isinstance(m.targets[0], ast.Attribute) and m.targets[0].attr in ("current_filename", "current_code_list"):
                p = getattr(m, "_parent", None)
                if not (isinstance(p, ast.If) and f"not self.{m.targets[0].attr}" in norm(p.test)):
                    ok = False
    ctx.check(ok, "R18.5", "eval.py::EvalExceptionFormatter._build_stack", "evaluator frames only fill in attribution that is still unknown",
              msg="_build_stack: an aeval/recurse_assign frame overwrites the file name/source lines established by the enclosing function frame", key="aeval branch guarded", node=gen or f, rel="eval.py")
    return (
        "Static, source-only: for 11 infrastructure entry points the function is abstractly interpreted with an exception injected at each call into user code; "
        "no such exception may appear at a raise exit, and the handling path must contain a log_exception/handle_exception call.  Handler reachability in trigger_watch, "
        "per-file isolation of the load loop, heap-restore of attribution state, sibling agreement of the three frame attribution fields.  Not decided: traceback text and line numbers."
    )
