"""C20 - requirements resolution is order-independent and never overrides the host (structural clauses)."""

from __future__ import annotations

import ast
import itertools

from packaging.version import Version  # host library, used only as the version-ordering oracle for the model

from ..absint import NONE, App, Cfg, ClassV, Const, DictV, ExcV, ListV, ObjV, Sym
from ..flow import FlowPolicy, exits, module_constants, run_flow
from ..repo import AnalysisError, body_walk, call_name, norm

LEVEL_TEXT = (
    "decides structural clauses of C20 on exhaustive finite models, not arbitrary file trees: the merge of requirement "
    "lines selects the highest '==' pin (else unpinned) for every multiset of up to three lines out of eight line kinds "
    "under every order and every split over two files; the install decision equals the specified table over "
    "installed x recorded x wanted versions (nothing installed without allow_all_imports, foreign packages untouched, "
    "pyscript's record equal to what it installed)"
    " (ten line kinds incl. versions whose lexicographic and numeric order disagree); the stored record is written through async_update_entry whenever it changes (never edited in place) and survives a yaml re-import; on reload the configuration is refreshed before the installer's gate is consulted"
    '; nameless lines and pins that are not versions are ignored wherever they occur, blanks around == do not make a different package; the options flow keeps the installed-packages record'
    '; one result for every order (equal pins written differently); unsupported forms are ignored, epoch pins honoured, a byte order mark tolerated; the installed version is looked up under the distribution name at every site; a failed installer run never updates the record'
)
LEVEL_NOTE = "packaging.version.Version of the host is the ordering oracle; file system, Home Assistant's installer and importlib.metadata are summarised; package names and more than two files are not modelled"
TECHNIQUE = "abstract interpretation of process_all_requirements / install_requirements on exhaustive finite models (decision tables, permutation invariance)"

PROC = "requirements.py::process_all_requirements"
INST = "requirements.py::install_requirements"
LINES = ["foo", "foo==1.0.0", "foo==2.0.0", "foo==2.0", "foo==10.0.0", "# just a comment", "", "foo>=1.5", "foo==1.5.0  # pin (see issue), works with >=1.5, <3", "foo~=1.0",
         # malformed lines: no package name; a pin that is not a version; (pip accepts blanks around ==)
         "==1.0", "foo==latest", "foo ==3.0.0",
         # forms pip knows and the '==' parser does not (one '=', an option, a direct reference): unsupported, ignored - never a package called like the whole line
         "foo=1.0", "-r other.txt", "foo @ file:///x.whl",
         # an epoch pin is a valid '==' pin (PEP 440) and orders above every version without epoch; '!=' is the unsupported specifier, not '!'
         "foo==1!0.5"]


def _version_summary(interp, node, args, kwargs, cfg, out):
    if args and isinstance(args[0], Const) and isinstance(args[0].v, str):
        try:
            return [(cfg, Const(Version(args[0].v)))]
        except Exception:  # noqa - InvalidVersion is a ValueError
            out.add("raise", cfg.set("$exc", ExcV("ValueError", "InvalidVersion")))
            return []
    return [(cfg, App("Version", tuple(args)))]


def _installed_version(interp, node, args, kwargs, cfg, out):
    """importlib.metadata.version: nothing is installed in the model; an empty distribution name is a ValueError (as the library documents)."""
    if args and isinstance(args[0], Const) and args[0].v == "":
        out.add("raise", cfg.set("$exc", ExcV("ValueError", "A distribution name is required.")))
    else:
        out.add("raise", cfg.set("$exc", ExcV("PackageNotFoundError", "not installed")))
    return []


def _merge(program, files, consts, bom=False, asked=None):
    """files: list of list of lines -> selected version string (or None) for package foo, or an error description."""
    paths = [f"/cfg/pyscript/req{i}.txt" for i in range(len(files))]

    def glob_glob(interp, node, args, kwargs, cfg, out):
        first = not cfg.heap.get("$globbed")
        return [(cfg.hset("$globbed", Const(True)), ListV([Const(p) for p in paths]) if first else ListV(()))]

    def open_(interp, node, args, kwargs, cfg, out):
        enc = kwargs.get("encoding", args[2] if len(args) > 2 else None)
        return [(cfg.hset("$enc:" + args[0].v, enc if enc is not None else Const(None)), ObjV("file:" + args[0].v, "file"))]

    def readlines(interp, node, args, kwargs, cfg, out):
        fp = cfg.env.get("requirements_fp")
        idx = paths.index(fp.oid[5:])
        enc = cfg.heap.get("$enc:" + fp.oid[5:])
        # a file saved as "UTF-8 with BOM": only the utf-8-sig codec drops the mark, str.strip() keeps U+FEFF
        mark = "\ufeff" if bom and not (isinstance(enc, Const) and str(enc.v).lower().replace("_", "-") == "utf-8-sig") else ""
        return [(cfg, ListV([Const((mark if j == 0 else "") + l + "\n") for j, l in enumerate(files[idx])]))]

    from ..absint import FuncV
    glob_ = dict(consts)
    glob_["get_installed_version"] = FuncV(program.func("requirements.py::get_installed_version"), name="get_installed_version")
    pol = FlowPolicy(program, may_raise_all=False, cancel=False, globals_=glob_,
                     summaries={"glob.glob": glob_glob, "open": open_, "requirements_fp.readlines": readlines, "Version": _version_summary,
                                "installed_version": _installed_version if asked is None else
                                (lambda i, n, a, k, c, o: (asked.append(a[0].v if a and isinstance(a[0], Const) else repr(a)), _installed_version(i, n, a, k, c, o))[1])},
                     inline={"get_installed_version"})
    pol.loop_unroll = 2
    out = run_flow(program, PROC, pol, args={"pyscript_folder": Const("/cfg/pyscript"), "requirements_paths": ListV([Const("")], "tuple"),
                                             "requirements_file": Const("requirements.txt")})
    res = set()
    for kind, c, desc in exits(out):
        if kind != "return":
            res.add(desc)
            continue
        ret = c.env.get("$ret")
        if not isinstance(ret, DictV):
            res.add(repr(ret))
            continue
        ent = ret.get(Const("foo"))
        if ent is None:
            res.add(None)
        else:
            v = ent.get(Const(consts["ATTR_VERSION"].v)) if isinstance(ent, DictV) else None
            res.add(v.v if isinstance(v, Const) else repr(v))
        others = [k for k, _ in ret.items if k != Const("foo")]
        if others:
            res.add(f"unexpected packages {others}")
    return res


def _expected_merge(lines, unpinned):
    pins = []
    has_unpinned = False
    for l in lines:
        l = l.split("#")[0].strip()
        if not l:
            continue
        if ">" in l or "<" in l or "," in l or l.count("==") > 1 or "~=" in l or "!=" in l:
            continue
        if "==" in l:
            name, pin = (x.strip() for x in l.split("=="))
            if name != "foo":
                continue  # no package name: not a requirement
            try:
                Version(pin)
            except Exception:  # noqa - not a version: an unsupported specifier, ignored
                continue
            pins.append(pin)
        elif l == "foo":
            has_unpinned = True
        # anything else without '==' is not a package name (PEP 508): unsupported, ignored
    if pins:
        best = max(pins, key=Version)
        return {p for p in pins if Version(p) == Version(best)}
    if has_unpinned:
        return {unpinned}
    return {None}


def run(ctx):
    program = ctx.program
    consts = module_constants(program, "const.py")
    for need in ("UNPINNED_VERSION", "ATTR_VERSION", "ATTR_SOURCES", "ATTR_INSTALLED_VERSION", "CONF_ALLOW_ALL_IMPORTS", "CONF_INSTALLED_PACKAGES", "DOMAIN"):
        if need not in consts:
            raise AnalysisError(f"const.py::{need} not found")
    unp = consts["UNPINNED_VERSION"].v

    ctx.rule("R20.4", "merge of requirement lines: highest '==' pin, else unpinned; identical for every order of lines and files", floor=100)
    n = 0
    seen = set()
    for k in (1, 2, 3):
        for combo in itertools.combinations_with_replacement(range(len(LINES)), k):
            lines = [LINES[i] for i in combo]
            if k == 3 and sum(1 for l in lines if _expected_merge([l], unp) != {None}) < 2:
                continue  # three lines of which at most one is a requirement at all: covered by the one- and two-line multisets
            exp = _expected_merge(lines, unp)
            results = {}
            for perm in set(itertools.permutations(lines)):
                for cut in range(len(perm) + 1):
                    files = [list(perm[:cut]), list(perm[cut:])]
                    got = _merge(program, files, consts)
                    results[(perm, cut)] = got
            bad = {k2: g for k2, g in results.items() if not (len(g) == 1 and next(iter(g)) in exp)}
            n += 1
            shown = [l for l in lines]
            distinct = {frozenset(g) for g in results.values()}
            if not bad and len(distinct) > 1:
                ctx.fail("R20.4", PROC, f"merge of {shown}: one result for every order",
                         f"requirement lines {shown}: the selected version text of foo depends on the order of lines/files: {sorted(sorted(map(repr, d)) for d in distinct)} "
                         f"(equal versions written differently: whichever comes first is passed to the installer and stored in the record)", node=program.func(PROC), rel="requirements.py")
            elif bad:
                (perm, cut), g = sorted(bad.items(), key=repr)[0]
                ctx.fail("R20.4", PROC, f"merge of {shown}",
                         f"requirement lines {shown}: with file 1 = {list(perm[:cut])} and file 2 = {list(perm[cut:])} the selected version of foo is {sorted(map(repr, g))}, specified {sorted(map(repr, exp))} "
                         f"({len(bad)} of {len(results)} orders deviate)", node=program.func(PROC), rel="requirements.py")
            else:
                ctx.ok("R20.4", PROC, f"merge of {shown}: {len(results)} orders agree", sample={"selected": sorted(map(repr, exp))} if n % 20 == 1 else None)

    ctx.rule("R20.8", "a requirements.txt saved with a byte order mark (what Windows editors write as 'UTF-8') is read like one without: its first line names the same "
             "package, no extra entry appears", floor=3)
    for lines in (["foo==1.0.0", "foo==2.0.0"], ["foo"], ["foo==1.0.0"]):
        for files in ([lines, []], [lines[:1], lines[1:]]) if len(lines) > 1 else ([lines, []],):
            got = _merge(program, files, consts, bom=True)
            exp = _expected_merge(lines, unp)
            ctx.check(len(got) == 1 and next(iter(got)) in exp, "R20.8", PROC, f"files {files} with a byte order mark",
                      msg=f"requirement files {files} saved with a byte order mark: foo -> {sorted(map(repr, got))}, specified {sorted(map(repr, exp))}: the first line's package is "
                      f"named '\\ufefffoo', handed to the installer and recorded under that name", key=f"bom {files}", node=program.func(PROC), rel="requirements.py")

    ctx.rule("R20.9", "the host's package is recognised under every spelling of the requirement: the installed version is looked up for the distribution name, "
             "without an [extras] suffix (a lookup that finds nothing makes the package 'not installed' and the host's copy is replaced)", floor=2)
    for line, dist in (("foo[extra]==2.0.0", "foo"), ("foo[extra]", "foo"), ("foo==2.0.0", "foo"),
                       # every place that looks the installed version up: the first sighting, and a pin replacing an unpinned entry (both orders, one and two files)
                       (["foo[extra]", "foo[extra]==2.0.0"], "foo"), (["foo[extra]==2.0.0", "foo[extra]"], "foo"), (["foo[extra]==1.0.0", "foo[extra]==2.0.0"], "foo")):
        asked = []
        if isinstance(line, list):
            _merge(program, [line, []], consts, asked=asked)
            _merge(program, [line[:1], line[1:]], consts, asked=asked)
        else:
            _merge(program, [[line], []], consts, asked=asked)
        ctx.check(bool(asked) and set(asked) == {dist}, "R20.9", PROC, f"installed version of `{line}` is looked up as {dist!r}",
                  msg=f"requirement `{line}`: the installed version is looked up under {sorted(set(asked))} instead of {dist!r}: importlib.metadata finds nothing, the package counts as "
                  f"not installed and is handed to the installer although the host has it", key=f"lookup name {line}", node=program.func(PROC), rel="requirements.py")

    # ... and when the record of a freshly installed unpinned package is completed with the version that was installed
    uu = "requirements.py::update_unpinned_versions"
    for pkg in ("foo[extra]", "foo"):
        asked = []

        def giv(i, n, a, k, c, o, asked=asked):
            asked.append(a[0].v if a and isinstance(a[0], Const) else repr(a))
            return [(c, Const("3.1.4") if a and a[0] == Const("foo") else Const(None))]

        polu = FlowPolicy(program, may_raise_all=False, cancel=False, globals_=dict(consts), summaries={"get_installed_version": giv})
        polu.loop_unroll = 3
        exu = exits(run_flow(program, uu, polu, args={"package_dict": DictV([(Const(pkg), Const(unp))])}))
        recs = [c.env.get("$ret") for k, c, d in exu if k == "return"]
        got = [dict((kk.v, vv.v if isinstance(vv, Const) else repr(vv)) for kk, vv in r.items) if isinstance(r, DictV) else repr(r) for r in recs]
        ctx.check(got == [{pkg: "3.1.4"}], "R20.9", uu, f"version of the freshly installed unpinned `{pkg}`",
                  msg=f"update_unpinned_versions for the just installed unpinned requirement `{pkg}`: looks up {asked}, record becomes {got}, specified [{{{pkg!r}: '3.1.4'}}]: the package pyscript "
                  "installed is dropped from its record ('wasn't able to be installed'), so later pins for it are ignored as if it were foreign", key=f"unpinned record {pkg}", node=program.func(uu), rel="requirements.py")

    ctx.rule("R20.2", "install decision table over installed x recorded x wanted; the record equals what pyscript installed", floor=40)
    for allow in (True, False):
        for installed in (None, "1.0.0", "2.0.0"):
            for recorded in (None, "1.0.0", "1.0", "2.0.0"):
                for wanted in (unp, "1.0.0", "2.0.0", "2.0"):
                    got = _install(program, consts, allow, installed, recorded, wanted)
                    pinned = wanted != unp
                    if not allow:
                        exp_install, exp_record = [], recorded
                    else:
                        if installed is None:
                            queue = True
                        elif not pinned:
                            queue = False
                        else:
                            queue = recorded is not None and Version(recorded) == Version(installed) and Version(wanted) != Version(installed)
                        if installed is not None and recorded is not None:
                            # "externally managed now" means another *version*, however the two are written (record 2.0.0, metadata 2.0)
                            differs = Version(recorded) != Version(installed)
                        else:
                            differs = False
                        exp_install = [f"foo=={wanted}" if pinned else "foo"] if queue else []
                        if queue:
                            exp_record = wanted if pinned else "<installed-now>"
                        elif differs:
                            exp_record = None
                        else:
                            exp_record = recorded
                    label = f"allow_all_imports={allow} installed={installed} recorded={recorded} wanted={'unpinned' if not pinned else wanted}"
                    ok = got == [(exp_install, exp_record)]
                    ctx.check(ok, "R20.2", INST, label, msg=f"install_requirements with {label}: installs/record {got}, specified {[(exp_install, exp_record)]}",
                              key=f"install {label}", node=program.func(INST), rel="requirements.py", sample={"result": repr(got)})

    ctx.rule("R20.7", "when the installer fails (Home Assistant raises RequirementsNotFound) the record does not claim the package: the failure propagates or the "
             "stored record keeps what it said before - a recorded version that was never installed lets pyscript 'update' a package someone else installs later", floor=6)
    for installed, recorded, wanted in ((None, None, "1.0.0"), (None, None, unp), (None, "1.0.0", "2.0.0"), ("1.0.0", "1.0.0", "2.0.0"), ("1.0.0", "1.0", "2.0"), (None, "2.0.0", unp)):
        got = _install(program, consts, True, installed, recorded, wanted, fail_install=True)
        label = f"installer fails: installed={installed} recorded={recorded} wanted={'unpinned' if wanted == unp else wanted}"
        bad = [g for g in got if isinstance(g[0], list) and g[1] != recorded]
        ctx.check(bool(got) and not bad, "R20.7", INST, label,
                  msg=f"install_requirements, {label}: continues and stores the record {[g[1] for g in bad]} for a package that was not installed (before: {recorded})",
                  key=f"failed install {installed} {recorded} {wanted}", node=program.func(INST), rel="requirements.py", sample={"result": repr(got)})

    ctx.rule("R20.5", "on reload the yaml configuration is refreshed before the installer's allow_all_imports gate is consulted; packages are installed before scripts are loaded", floor=1)
    uid = "__init__.py::async_setup_entry.reload_scripts_handler"
    pol = FlowPolicy(program, events=["update_yaml_config", "install_requirements", "load_scripts"], may_raise_all=False, cancel=False, record_atoms=False)
    out = run_flow(program, uid, pol)
    bad = None
    n_paths = 0
    for kind, c, desc in exits(out):
        evs = [e[1] for e in c.trace if e[0] == "call"]
        if "install_requirements" not in evs:
            continue
        n_paths += 1
        i = evs.index("install_requirements")
        if "update_yaml_config" not in evs[:i]:
            bad = f"install_requirements runs before update_yaml_config (order {evs}): after `allow_all_imports` was switched off in configuration.yaml the next reload still installs packages"
        elif "load_scripts" in evs[:i]:
            bad = f"scripts are loaded before their requirements are installed (order {evs})"
    ctx.check(n_paths > 0 and bad is None, "R20.5", uid, "update_yaml_config -> install_requirements -> load_scripts on every path", msg=f"reload handler: {bad or 'install_requirements is never called'}",
              key="reload order config/install/load", node=program.func(uid), rel="__init__.py")

    ctx.rule("R20.6", "re-importing the yaml configuration never drops the record of packages pyscript installed (it is not a configuration key)", floor=4)
    uid = "config_flow.py::PyscriptConfigFlow.async_step_import"
    CIP = consts["CONF_INSTALLED_PACKAGES"].v
    for source in ("import", "user"):
        for imp_has_flag in (True, False):
            rec = DictV([(Const("foo"), Const("1.0.0"))])
            data = DictV([(Const("allow_all_imports"), Const(True)), (Const("hass_is_global"), Const(False)), (Const(CIP), rec), (Const("apps"), DictV([]))])
            imp = DictV([(Const("allow_all_imports"), Const(False))] if imp_has_flag else [(Const("apps"), DictV([(Const("a"), Const(1))]))])
            stored = []

            def upd(i, n, a, k, c, o, stored=stored):
                stored.append(k.get("data"))
                return [(c, NONE)]

            pol = FlowPolicy(program, may_raise_all=False, cancel=False, globals_={**dict(consts), "SOURCE_IMPORT": Const("import"), "DOMAIN": Const("pyscript")},
                             summaries={"json.dumps": lambda i, n, a, k, c, o: [(c, a[0])], "json.loads": lambda i, n, a, k, c, o: [(c, a[0])],
                                        "self.hass.config_entries.async_entries": lambda i, n, a, k, c, o: [(c, ListV((ObjV("entry", "ConfigEntry"),), "list"))],
                                        "self.hass.config_entries.async_update_entry": upd, "self.async_abort": lambda i, n, a, k, c, o: [(c, Sym(("abort",)))]})
            pol.loop_unroll = 6
            out = run_flow(program, uid, pol, args={"self": ObjV("self", "PyscriptConfigFlow"), "import_config": imp}, heap={"entry.data": data, "entry.source": Const(source)})
            bad = None
            if not exits(out):
                bad = "no exit"
            for d in stored:
                if not isinstance(d, DictV) or d.get(Const(CIP)) != rec:
                    bad = f"the entry is updated to {d!r}: the installed-packages record {rec!r} is gone, pyscript then treats its own packages as installed by someone else and never updates them"
            ctx.check(bad is None, "R20.6", uid, f"entry created from {source}, imported config {'changes a flag' if imp_has_flag else 'changes apps'}",
                      msg=f"async_step_import (entry source {source!r}, imported config {imp!r}): {bad}", key=f"import keeps record {source} {imp_has_flag}", node=program.func(uid), rel="config_flow.py")

    # the options flow (UI entries) rewrites the entry data as well
    uid2 = "config_flow.py::PyscriptOptionsConfigFlow.async_step_init"
    bool_all = program.module_const("config_flow.py", "CONF_BOOL_ALL")
    flags = [consts[e.id].v for e in bool_all.elts if isinstance(e, ast.Name) and e.id in consts] if bool_all is not None and hasattr(bool_all, "elts") else []
    if not flags:
        raise AnalysisError("config_flow.CONF_BOOL_ALL not resolvable")
    rec = DictV([(Const("foo"), Const("1.0.0"))])
    data = DictV([(Const(f), Const(False)) for f in flags] + [(Const(CIP), rec), (Const("apps"), DictV([(Const("a"), Const(1))]))])
    user_input = DictV([(Const(f), Const(i == 0)) for i, f in enumerate(flags)])
    stored = []

    def upd2(i, n, a, k, c, o, stored=stored):
        stored.append(k.get("data"))
        return [(c, NONE)]

    pol = FlowPolicy(program, may_raise_all=False, cancel=False, globals_={**dict(consts), "SOURCE_IMPORT": Const("import"), "DOMAIN": Const("pyscript"),
                                                                          "CONF_BOOL_ALL": ListV(tuple(Const(f) for f in flags), "list")},
                     summaries={"self.hass.config_entries.async_update_entry": upd2, "self.async_create_entry": lambda i, n, a, k, c, o: [(c, Sym(("created",)))],
                                "PYSCRIPT_SCHEMA": lambda i, n, a, k, c, o: [(c, DictV(a[0].items) if a and isinstance(a[0], DictV) else Sym(("schema",)))]})
    pol.loop_unroll = 6
    out = run_flow(program, uid2, pol, args={"self": ObjV("self", "PyscriptOptionsConfigFlow"), "user_input": user_input},
                   heap={"self.config_entry": ObjV("entry", "ConfigEntry"), "entry.data": data, "entry.source": Const("user")})
    bad = None
    if not exits(out) or not stored:
        bad = f"the flag change is not stored ({len(stored)} updates)"
    for d in stored:
        if not isinstance(d, DictV) or d.get(Const(CIP)) != rec:
            bad = f"the entry is updated to {d!r}: the installed-packages record {rec!r} is gone"
        elif d.get(Const("apps")) != data.get(Const("apps")):
            bad = f"the entry is updated to {d!r}: the rest of the configuration (apps) is gone"
        elif any(d.get(k) != v for k, v in user_input.items):
            bad = f"the new flag values are not stored: {d!r}"
    ctx.check(bad is None, "R20.6", uid2, "options flow: a flag change keeps the record and the rest of the entry data",
              msg=f"PyscriptOptionsConfigFlow.async_step_init with a changed flag: {bad}; pyscript then treats its own packages as installed by someone else and never updates them",
              key="options flow keeps record", node=program.func(uid2), rel="config_flow.py")

    ctx.rule("R20.1", "nothing is installed without allow_all_imports (the packaging bootstrap excepted)", floor=1)
    f = program.func(INST)
    calls = [n2 for n2 in body_walk(f) if isinstance(n2, ast.Call) and call_name(n2) == "async_process_requirements"]
    boot = [c for c in calls if "packaging" in norm(c)]
    ctx.check(len(calls) - len(boot) == 1, "R20.1", INST, "one user install call site", msg=f"install_requirements has {len(calls) - len(boot)} install call sites besides the packaging bootstrap",
              key="install call sites", node=f, rel="requirements.py")
    return (
        "Static, source-only: process_all_requirements is abstractly interpreted on every multiset of up to three lines (eight line kinds incl. comments, "
        "unsupported specifiers and inline comments containing specifier characters), under every permutation and every split over two files; the selected version must be the "
        "Version-maximal pin, else unpinned.  install_requirements is interpreted on the full table allow_all_imports x installed x recorded x wanted (96 cases) and the install call "
        "and the stored record are compared with the specification.  Not decided: package name handling, more than two files, the installer itself."
    )


def _install(program, consts, allow, installed, recorded, wanted, fail_install=False):
    unp = consts["UNPINNED_VERSION"].v
    AV, AS, AI = consts["ATTR_VERSION"].v, consts["ATTR_SOURCES"].v, consts["ATTR_INSTALLED_VERSION"].v
    allreq = DictV([(Const("foo"), DictV([(Const(AV), Const(wanted)), (Const(AS), ListV([Const("req.txt")])), (Const(AI), Const(installed))]))])
    data = DictV([(Const(consts["CONF_ALLOW_ALL_IMPORTS"].v), Const(allow))] +
                 ([(Const(consts["CONF_INSTALLED_PACKAGES"].v), DictV([(Const("foo"), Const(recorded))]))] if recorded is not None else []))
    entry = ObjV("entry", "ConfigEntry")

    def executor(interp, node, args, kwargs, cfg, out):
        fn = repr(args[0]) if args else ""
        if "process_all_requirements" in fn:
            return [(cfg, allreq)]
        if "update_unpinned_versions" in fn:
            d = args[1]
            if isinstance(d, DictV):
                nd = DictV([(k, (Const("<installed-now>") if v == Const(unp) else v)) for k, v in d.items])
                return [(cfg, nd)]
            return [(cfg, d)]
        return [(cfg, Sym(("executor", fn)))]

    def update_entry(interp, node, args, kwargs, cfg, out):
        return [(cfg.hset("$stored", kwargs.get("data", NONE)), NONE)]

    CIP = consts["CONF_INSTALLED_PACKAGES"].v

    def data_get(interp, node, args, kwargs, cfg, out):
        # the stored record is one dictionary object inside entry.data: reads hand out an alias of it (slot entry.installed),
        # so an in-place change is visible to every later read - and is never persisted unless async_update_entry is called
        if args and args[0] == Const(CIP):
            cur = cfg.heap.get("entry.installed")
            if cur is None:
                return [(cfg, args[1] if len(args) > 1 else NONE)]
            return [(cfg, DictV(cur.items, "entry.installed"))]
        v = data.get(args[0]) if args else None
        return [(cfg, v if v is not None else (args[1] if len(args) > 1 else NONE))]

    def data_copy(interp, node, args, kwargs, cfg, out):
        cur = cfg.heap.get("entry.installed")
        items = [(k, v) for k, v in data.items if k != Const(CIP)] + ([(Const(CIP), DictV(cur.items, "entry.installed"))] if cur is not None else [])
        return [(cfg, DictV(items))]

    def failing_installer(interp, node, args, kwargs, cfg, out):
        out.add("raise", cfg.emit(("call", "async_process_requirements", tuple(args), ())).set("$exc", ExcV("RequirementsNotFound", "pip could not install the package")))
        return []

    pol = FlowPolicy(program, events=[] if fail_install else ["async_process_requirements"], may_raise_all=False, cancel=False, globals_=dict(consts),
                     summaries={**({"async_process_requirements": failing_installer} if fail_install else {}), "hass.async_add_executor_job": executor, "Version": _version_summary, "hass.config_entries.async_update_entry": update_entry,
                                "config_entry.data.get": data_get, "config_entry.data.copy": data_copy})
    heap = {"entry.data": ObjV("entrydata", "MappingProxy")}
    if recorded is not None:
        heap["entry.installed"] = DictV([(Const("foo"), Const(recorded))])
    out = run_flow(program, INST, pol, args={"hass": Sym(("hass",)), "config_entry": entry, "pyscript_folder": Const("/cfg/pyscript")}, heap=heap)
    res = []
    for kind, c, desc in exits(out):
        if kind != "return":
            res.append((desc, None))
            continue
        installs = []
        for e in c.trace:
            if e[0] == "call" and e[1] == "async_process_requirements":
                lst = e[2][2] if len(e[2]) > 2 else None
                if isinstance(lst, ListV):
                    installs += [x.v if isinstance(x, Const) else repr(x) for x in lst.items]
                else:
                    installs.append(repr(lst))
        stored = c.heap.get("$stored")
        if stored is None:
            rec = recorded
        else:
            pk = stored.get(Const(consts["CONF_INSTALLED_PACKAGES"].v)) if isinstance(stored, DictV) else None
            v = pk.get(Const("foo")) if isinstance(pk, DictV) else None
            rec = v.v if isinstance(v, Const) else (None if v is None else repr(v))
        item = (installs, rec)
        if item not in res:
            res.append(item)
    return res
