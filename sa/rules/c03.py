"""C03 - functions, scoping, closures and classes behave like Python."""

from __future__ import annotations

import ast
import inspect
import itertools
import symtable

from ..absint import NONE, App, Cfg, ClassV, Const, DictV, ExcV, FuncV, ListV, NodeV, ObjV, Out, Sym
from ..flow import FlowPolicy, exits, relevant_locals, run_flow
from ..hcompare import compare_shape
from ..repo import AnalysisError, body_walk, const_set, dotted, norm, short
from ..schematic import MODULE_SCOPE, EventInterp, HandlerPolicy, run_handler, shape_stmt, to_nodev

LEVEL_TEXT = (
    "decides structural clauses of C03, not the behaviour as a whole: argument binding of EvalFunc agrees with "
    "inspect.signature().bind on an exhaustive table of signatures x call shapes (modulo the documented reserved "
    "keywords); definition-time evaluation order of decorators/defaults/bases equals Python's; every construct that "
    "binds a local for CPython's symtable is known to the closure analysis; closure cells are never replaced by plain "
    "values; the interpreter state switched for a call / class body / decorator evaluation is restored on every exit; "
    "scope search is innermost-first; name lookup order and reserved-keyword table are as documented"
    "; a nested definition is found in every statement position and every parameter kind becomes a closure cell when an inner scope exists (host symtable as oracle)"
    "; the name pre-pass classifies locals / free variables / declared globals of probe functions as the host's symtable does (also through nonlocal declarations, defaults and base classes of nested definitions, and for declarations in branches never executed); name lookup follows Python's precedence on a table of scopes; a class statement keeps the closure cell of its name and hides no inherited __init__; captured cells are shared at call time whether or not they are bound yet"
    "; the interpreter's forwarding functions take their parameters positional-only next to **kwargs; module-level global/nonlocal as the host compiler; natively compiled definitions never see closure cells; call shapes with keyword/** arguments"
)
LEVEL_NOTE = (
    "trusted: host inspect/symtable as oracle for binding and local-name rules; the abstract evaluator; exceptions are "
    "assumed possible at every call/await outside a reviewed no-raise table"
)
TECHNIQUE = "abstract interpretation of EvalFunc/AstEval (binding tables vs inspect.signature oracle, heap-restore on all exits, cell-preservation invariant), symtable-oracle agreement, who-may-call"

SIGNATURES = [
    "def f(a, b='D', /, c='D', d='D', *args, e, g='D', **kw): pass",
    "def f(a, /, b, *, c): pass",
    "def f(a='D', b='D'): pass",
    "def f(*args, **kw): pass",
    "def f(): pass",
    "def f(a, *, c='D'): pass",
    "def f(a, b, c): pass",
    "def f(a, /, **kw): pass",
    "def f(a, *args): pass",
]
KWNAMES = ["a", "b", "c", "e", "g", "zz"]


def _bind_oracle(src, npos, kws):
    g = {}
    # the probe signature only (host compiler + host call protocol) - not repository code
    exec(compile(src.replace(": pass", ": return locals()"), "<probe>", "exec"), g)
    try:
        bound = g["f"](*[("arg", i) for i in range(npos)], **{k: ("kw", k) for k in kws})
    except TypeError:
        return "TypeError"
    res = {}
    for k, v in bound.items():
        if v == "D":
            res[k] = "default"
        elif isinstance(v, tuple) and v and v[0] in ("arg", "kw"):
            res[k] = v
        elif isinstance(v, tuple):
            res[k] = ("tuple", tuple(v))
        elif isinstance(v, dict):
            res[k] = ("dict", tuple(sorted(v.items())))
        else:
            res[k] = v
    return res


def _canon_bound(v):
    if isinstance(v, Sym):
        if v.tag[0] in ("arg", "kw"):
            return (v.tag[0], v.tag[1])
        if v.tag[0] == "val":
            return "default"
    if isinstance(v, ListV):
        return ("tuple", tuple(_canon_bound(x) for x in v.items))
    if isinstance(v, DictV):
        return ("dict", tuple(sorted((k.v, _canon_bound(x)) for k, x in v.items)))
    if isinstance(v, Const) and v.v is None:
        return "default"
    return repr(v)



_PROGRAM = None


def _bind_worker(sig_src):
    """Binding table of one signature: returns (n_ok, mismatches, sample)."""
    global _PROGRAM
    from ..repo import Program
    if _PROGRAM is None:
        _PROGRAM = Program()
    program = _PROGRAM
    fn_call = program.func("eval.py::EvalFunc.call")
    fn_init = program.func("eval.py::EvalFunc.__init__")
    fn_defaults = program.func("eval.py::EvalFunc.eval_defaults")
    items = []
    n_ok = 0
    sample = None
    if True:
        # replace default literals by leaves so that eval_defaults yields events/values
        leaf_src = sig_src
        n = 0
        while "'D'" in leaf_src:
            leaf_src = leaf_src.replace("'D'", f"a{n}", 1)
            n += 1
        leaf_src = leaf_src.replace(": pass", ":\n    s0")
        fdef = to_nodev(ast.parse(leaf_src).body[0])
        pol = HandlerPolicy(program)
        pol.snapshot = True
        interp = EventInterp(pol, "eval.py")
        func = ObjV("func", "EvalFunc")
        ctxo = ObjV("self", "AstEval")
        heap = dict(MODULE_SCOPE)
        heap["self.global_ctx"] = Sym(("gctx",))
        gc = Sym(("gctx",))
        interp.call_stack.append(fn_init)
        o = interp.run_function(fn_init, {"self": func, "func_def": fdef, "code_list": ListV(()), "code_str": Const(""),
                                          "global_ctx": gc, "async_func": Const(False)}, Cfg(heap=heap))
        cfgs = o.get("return")
        if len(cfgs) != 1:
            raise AnalysisError(f"EvalFunc.__init__ not summarisable for {sig_src}: {len(cfgs)} paths")
        o = interp.run_function(fn_defaults, {"self": func, "ast_ctx": ctxo}, cfgs[0].with_env({}))
        cfgs = o.get("return")
        if len(cfgs) != 1:
            raise AnalysisError(f"EvalFunc.eval_defaults not summarisable for {sig_src}: {len(cfgs)} paths")
        base = cfgs[0].with_env({})
        base = Cfg(heap=dict(base.heap))
        base.heap["func.local_sym_table"] = DictV(())
        for npos in range(0, 5):
            for r in range(0, 3):
                for kws in itertools.combinations(KWNAMES, r):
                    exp = _bind_oracle(sig_src, npos, kws)
                    args = ListV([Sym(("arg", i)) for i in range(npos)], "tuple")
                    kwargs = DictV([(Const(k), Sym(("kw", k))) for k in kws])
                    interp2 = EventInterp(pol, "eval.py")
                    interp2.call_stack.append(fn_call)
                    out = interp2.run_function(fn_call, {"self": func, "ast_ctx": ctxo, "args": args, "kwargs": kwargs}, base)
                    got = set()
                    for c in out.get("return"):
                        snaps = [e for e in c.trace if e[0] == "snapshot"]
                        if snaps:
                            st = snaps[0][1]
                            if isinstance(st, DictV):
                                got.add(tuple(sorted((k.v, _canon_bound(v)) for k, v in st.items if isinstance(k, Const))))
                            else:
                                got.add(("?", repr(st)))
                    for c in out.get("raise"):
                        got.add(getattr(c.env.get("$exc"), "cls", "?"))
                    if exp == "TypeError":
                        want = {"TypeError"}
                    else:
                        want = {tuple(sorted(exp.items()))}
                    if got != want:
                        desc = f"{sig_src.replace(': pass', '')} called with {npos} positional, keywords {list(kws)}"
                        items.append((desc, sorted(map(repr, want)), sorted(map(repr, got))))
                    else:
                        n_ok += 1
                        if sample is None and npos == 2 and len(kws) == 1:
                            sample = (f"{sig_src[4:-6]} npos={npos} kws={list(kws)}", repr(exp))
    return sig_src, n_ok, items, sample

def _binding_rule(ctx, program):
    ctx.rule("R03.1", "EvalFunc argument binding == inspect.signature(...).bind for every signature x call shape (reserved trigger keywords excepted)", floor=500)
    unit = "eval.py::EvalFunc.call"
    fn_call = program.func(unit)
    fn_init = program.func("eval.py::EvalFunc.__init__")
    fn_defaults = program.func("eval.py::EvalFunc.eval_defaults")
    trig_kwargs = const_set(program.module_const("eval.py", "TRIGGER_KWARGS")) or set()
    mismatches = {}
    from concurrent.futures import ProcessPoolExecutor
    import multiprocessing
    with ProcessPoolExecutor(max_workers=min(len(SIGNATURES), 12), mp_context=multiprocessing.get_context("fork")) as ex:
        results = list(ex.map(_bind_worker, SIGNATURES))
    for sig_src, n_ok, items, sample in results:
        for i in range(n_ok):
            ctx.ok("R03.1", unit, f"bind {sig_src[4:-6]} shape#{i}", nontrivial=True,
                   sample={"case": sample[0], "expected": sample[1]} if (i == 0 and sample) else None)
        if items:
            mismatches[sig_src] = items
    for sig_src, items in mismatches.items():
        desc, want, got = items[0]
        ctx.fail("R03.1", unit, f"binding of `{sig_src.replace(': pass', '')}` ({len(items)} call shapes)",
                 f"argument binding deviates from Python for {len(items)} call shapes, e.g. {desc}: Python {want}, pyscript {got}",
                 node=fn_call, rel="eval.py", detail={"examples": items[:5]})
    # reserved keywords: exactly TRIGGER_KWARGS are tolerated
    pol = HandlerPolicy(program)
    ctx.rule("R03.6", "only the reserved trigger keywords are silently dropped; the table equals the keys the trigger sources produce", floor=3)
    srcs = _trigger_arg_keys(program)
    ctx.check(srcs <= trig_kwargs, "R03.6", "eval.py::TRIGGER_KWARGS", "every key a trigger source passes is reserved",
              msg=f"trigger sources pass keyword(s) {sorted(srcs - trig_kwargs)} that are not in TRIGGER_KWARGS: a function without **kwargs "
              f"would fail with TypeError when triggered", key="trigger keys subset of TRIGGER_KWARGS", rel="eval.py",
              node=program.module_const("eval.py", "TRIGGER_KWARGS"), sample={"keys": sorted(srcs)})
    ctx.check(trig_kwargs <= srcs | {"context"}, "R03.6", "eval.py::TRIGGER_KWARGS", "no keyword is reserved without a trigger source producing it",
              msg=f"TRIGGER_KWARGS reserves {sorted(trig_kwargs - srcs)} which no trigger source produces: such unexpected keywords are silently dropped instead of raising TypeError",
              key="TRIGGER_KWARGS subset of trigger keys", rel="eval.py", node=program.module_const("eval.py", "TRIGGER_KWARGS"))
    # the tolerance test in call uses the constant and raises TypeError otherwise
    uses = [n for n in body_walk(fn_call) if isinstance(n, ast.Name) and n.id == "TRIGGER_KWARGS"]
    ctx.check(len(uses) >= 1, "R03.6", unit, "the unexpected-keyword test refers to TRIGGER_KWARGS",
              msg="EvalFunc.call no longer consults TRIGGER_KWARGS when deciding about unexpected keyword arguments",
              key="call consults TRIGGER_KWARGS", node=fn_call, rel="eval.py")


def _trigger_arg_keys(program):
    """Keys of the func_args dictionaries built by trigger sources (dict literals with a 'trigger_type' key + stores)."""
    keys = set()
    for rel, mod in program.modules.items():
        if rel.startswith("stubs/"):
            continue
        for n in ast.walk(mod):
            if isinstance(n, ast.Dict):
                ks = [k.value for k in n.keys if isinstance(k, ast.Constant) and isinstance(k.value, str)]
                if "trigger_type" in ks:
                    keys.update(ks)
                    # subscript stores into the variable the literal was assigned to
                    p = getattr(n, "_parent", None)
                    if isinstance(p, ast.Assign) and isinstance(p.targets[0], ast.Name):
                        var = p.targets[0].id
                        fn = p
                        while fn is not None and not isinstance(fn, (ast.FunctionDef, ast.AsyncFunctionDef)):
                            fn = getattr(fn, "_parent", None)
                        if fn is not None:
                            for m in ast.walk(fn):
                                if isinstance(m, ast.Subscript) and isinstance(m.ctx, ast.Store) and isinstance(m.value, ast.Name) \
                                        and m.value.id == var and isinstance(m.slice, ast.Constant):
                                    keys.add(m.slice.value)
    return keys


# ----------------------------------------------------------------------------------------------------
def _restore_rule(ctx, program, rid, uid, oid, cls, attrs, init, args, no_raise=(), what=""):
    """All exits of ``uid`` leave the listed attributes of object ``oid`` at their entry values."""
    fn = program.func(uid)
    locs = relevant_locals(fn, {oid, "self"}, set(attrs))
    pol = FlowPolicy(program, no_raise=no_raise, locals_=locs, record_atoms=False)
    heap = {f"{oid}.{a}": v for a, v in init.items()}
    out = run_flow(program, uid, pol, args=args, heap=heap)
    n = 0
    bad = {}
    for kind, c, desc in exits(out):
        n += 1
        for a in attrs:
            key = f"{oid}.{a}"
            if c.heap.get(key) != heap[key] and a not in bad:
                bad[a] = f"{desc}: {a} = {c.heap.get(key)!r}, was {heap[key]!r}"
    if n == 0:
        raise AnalysisError(f"{uid}: no exit found by the flow analysis")
    for a in attrs:
        if a in bad:
            ctx.fail(rid, uid, f"{a} restored on every exit", f"{what or uid}: interpreter state `{a}` is not restored on exit [{bad[a]}]",
                     node=fn, rel=uid.split("::")[0])
        else:
            ctx.ok(rid, uid, f"{a} restored on every exit ({n} exits)")


def _scope_rules(ctx, program):
    ctx.rule("R03.4", "interpreter state switched for a call / class body / decorator evaluation is restored on every exit (return, exception, cancellation)", floor=12)
    ast_ctx = ObjV("ast_ctx", "AstEval")
    init = {
        "global_sym_table": Sym(("init", "global_sym_table")), "sym_table": Sym(("init", "sym_table")),
        "sym_table_stack": ListV([Sym(("init", "stack0"))]), "global_ctx": Sym(("init", "global_ctx")),
        "curr_func": Sym(("init", "curr_func")), "user_locals": Sym(("init", "user_locals")),
        "code_str": Sym(("init", "code_str")), "code_list": Sym(("init", "code_list")),
    }
    _restore_rule(ctx, program, "R03.4", "eval.py::EvalFunc.call", "ast_ctx", "AstEval", list(init), init,
                  {"ast_ctx": ast_ctx, "self": ObjV("self", "EvalFunc")}, what="EvalFunc.call")
    init2 = {"code_str": Sym(("init", "code_str")), "code_list": Sym(("init", "code_list"))}
    _restore_rule(ctx, program, "R03.4", "eval.py::EvalFunc.eval_decorators", "ast_ctx", "AstEval", list(init2), init2,
                  {"ast_ctx": ast_ctx, "self": ObjV("self", "EvalFunc")}, what="EvalFunc.eval_decorators")
    init3 = {"sym_table": Sym(("init", "sym_table")), "sym_table_stack": ListV([Sym(("init", "stack0"))])}
    _restore_rule(ctx, program, "R03.4", "eval.py::AstEval.ast_classdef", "self", "AstEval", list(init3), init3,
                  {"self": ObjV("self", "AstEval")}, what="ast_classdef (class body scope)")
    init4 = {"dec_eval_depth": Const(0)}
    _restore_rule(ctx, program, "R03.4", "eval.py::AstEval.ast_functiondef", "self", "AstEval", list(init4), init4,
                  {"self": ObjV("self", "AstEval")}, what="ast_functiondef (decorator evaluation depth gates trigger creation)")


# ----------------------------------------------------------------------------------------------------
BINDING_PROBES = {
    "Assign": "x = 1", "AugAssign": "x += 1", "AnnAssign": "x: int = 1", "For": "for x in y: pass",
    "AsyncFor": "async for x in y: pass", "With": "with y as x: pass", "AsyncWith": "async with y as x: pass",
    "NamedExpr": "(x := 1)", "Import": "import x", "ImportFrom": "from y import x", "FunctionDef": "def x(): pass",
    "AsyncFunctionDef": "async def x(): pass", "ClassDef": "class x: pass", "Try": "try:\n        pass\n    except E as x:\n        pass",
    "Delete": "del x", "Tuple target": "(x, q) = y", "List target": "[x, q] = y", "Starred target": "q, *x = y",
    "Match": None,
}


def _binding_kinds_rule(ctx, program):
    """Every construct that makes a name local for CPython's symtable is treated as binding by the name pre-pass: resolve_nonlocals,
    interpreted for `def f(): <construct binding x>; def g(): return x`, gives x a closure cell of f's own."""
    ctx.rule("R03.3", "constructs that bind a local (per the host's symtable) are recognised by the closure/local-name analysis", floor=14)
    fn = program.func("eval.py::AstEval.get_names_set")
    for kind, probe in BINDING_PROBES.items():
        if probe is None:
            continue
        src = f"def f():\n    {probe}\n    def g():\n        return x\n    return g\n"
        try:
            st = symtable.symtable(src, "<probe>", "exec")
        except SyntaxError:
            continue
        f = st.get_children()[0]
        if not f.lookup("x").is_local():
            continue
        unit = "eval.py::AstEval.get_target_names" if kind.endswith("target") else "eval.py::AstEval.get_names_set"
        try:
            _cells, ex = _scope_run(program, src)
        except AnalysisError as exc:
            ctx.skip("R03.3", unit, f"`{probe.strip()}` not summarisable: {exc}")
            continue
        bad = []
        for k, c, d in ex:
            t = c.heap.get("self.local_sym_table")
            v = t.get(Const("x")) if isinstance(t, DictV) and k == "return" else None
            if not (isinstance(v, App) and v.op == "new"):
                bad.append(d if k != "return" else f"x is {v!r}")
        ok = bool(ex) and not bad
        ctx.check(ok, "R03.3", unit, f"{kind} binds a local",
                  msg=f"`{probe.strip()}` makes x a local variable in Python, but the interpreter's local-name analysis does not know {kind} "
                  f"({'; '.join(dict.fromkeys(map(str, bad))) or 'no completed path'}): an inner function cannot capture such a name (NameError where Python succeeds)",
                  key=f"binding construct {kind}", node=fn, rel="eval.py")


INNER_DEF_PROBES = {
    "function body": "def g():\n    pass",
    "class in the body": "class K:\n    pass",
    "async def": "async def g():\n    pass",
    "if branch": "if a:\n    def g():\n        pass",
    "else branch": "if a:\n    pass\nelse:\n    def g():\n        pass",
    "for body": "for i in a:\n    def g():\n        pass",
    "for else": "for i in a:\n    pass\nelse:\n    def g():\n        pass",
    "while body": "while a:\n    def g():\n        pass",
    "try body": "try:\n    def g():\n        pass\nexcept E:\n    pass",
    "except handler": "try:\n    pass\nexcept E:\n    def g():\n        pass",
    "try else": "try:\n    pass\nexcept E:\n    pass\nelse:\n    def g():\n        pass",
    "finally": "try:\n    pass\nfinally:\n    def g():\n        pass",
    "with body": "with a:\n    def g():\n        pass",
    "match case": "match a:\n    case 1:\n        def g():\n            pass",
    "handler nested in a loop": "for i in a:\n    try:\n        pass\n    except E:\n        class K:\n            pass",
    "no inner definition": "try:\n    x = a\nexcept E:\n    y = a",
}


def _inner_def_rule(ctx, program):
    """check_for_closure decides whether a function's locals need closure cells; it must find a nested def/class wherever Python allows one."""
    ctx.rule("R03.12", "the 'has an inner function or class' analysis finds a nested definition in every statement position (agrees with the host's symtable)", floor=14)
    uid = "eval.py::EvalFunc.check_for_closure"
    fn = program.func(uid)
    for label, probe in INNER_DEF_PROBES.items():
        src = "def f():\n" + "\n".join("    " + l for l in probe.splitlines()) + "\n"
        st = symtable.symtable(src, "<probe>", "exec").get_children()[0]
        want = len(st.get_children()) > 0
        stmt = ast.parse(src).body[0].body[0]
        pol = FlowPolicy(program, may_raise_all=False, cancel=False, inline={"EvalFunc.check_for_closure", "self.check_for_closure"})
        pol.inline_depth = 12
        out = run_flow(program, uid, pol, args={"self": ObjV("self", "EvalFunc"), "arg": to_nodev(stmt)})
        got = sorted({repr(c.env.get("$ret")) for k, c, d in exits(out) if k == "return"} | {d for k, c, d in exits(out) if k != "return"})
        ctx.check(got == [repr(Const(want))], "R03.12", uid, f"nested definition: {label}",
                  msg=f"check_for_closure on a function whose body is `{probe.splitlines()[0]} ...` ({label}) returns {got}, Python's symtable says an inner scope {'exists' if want else 'does not exist'}: "
                  f"the enclosing function's locals get no closure cells, the inner function cannot see them (NameError / reads a same-named global)", key=f"inner def {label}", node=fn, rel="eval.py")


def _param_cells_rule(ctx, program):
    """Every kind of parameter is a local of the function: with an inner function present each gets a closure cell."""
    ctx.rule("R03.13", "positional-only, ordinary, *args, keyword-only and **kwargs parameters all become closure cells when the function has an inner scope", floor=3)
    uid = "eval.py::EvalFunc.resolve_nonlocals"
    for sig in ("p, /, a, *va, k, **kw", "p, q, /", "a, b=1, *, k=2"):
        src = f"def f({sig}):\n    def g():\n        return 0\n    return g\n"
        st = symtable.symtable(src, "<probe>", "exec").get_children()[0]
        want = sorted(n for n in st.get_parameters())
        fd = to_nodev(ast.parse(src).body[0])
        pol = FlowPolicy(program, may_raise_all=False, cancel=False, inline={"EvalFunc.get_positional_args", "self.get_positional_args"},
                         summaries={"self.check_for_closure": lambda i, n, a, k, c, o: [(c, Const(True))], "ast_ctx.get_names": lambda i, n, a, k, c, o: [(c, ListV((), "set"))]})
        pol.loop_unroll = 8
        heap = {"self.func_def": fd, "self.has_closure": Const(False), "self.local_sym_table": DictV([]), "self.local_names": NONE,
                "ast_ctx.sym_table_stack": ListV((), "list"), "ast_ctx.sym_table": DictV([])}
        out = run_flow(program, uid, pol, args={"self": ObjV("self", "EvalFunc"), "ast_ctx": ObjV("ast_ctx", "AstEval")}, heap=heap)
        got = None
        ex = exits(out)
        for k, c, d in ex:
            t = c.heap.get("self.local_sym_table")
            got = sorted(x.v for x, _ in t.items if isinstance(x, Const)) if isinstance(t, DictV) and k == "return" else d
        ctx.check(bool(ex) and got == want, "R03.13", uid, f"parameters of def f({sig})", msg=f"resolve_nonlocals for `def f({sig})` with an inner function creates closure cells for {got}; "
                  f"Python's symtable lists the parameters {want} as locals: an inner function reading a missing one gets NameError or a same-named global",
                  key=f"param cells {sig}", node=program.func(uid), rel="eval.py")


SCOPE_PROBES = {
    "sibling scopes: one declares global x, one closes over f's x": "def f(n):\n    x = 1\n    def a():\n        global x\n        x = 99\n    def b():\n        return x\n    return a, b\n",
    "parameter rebound through nonlocal, sibling declares it global": "def f(n):\n    def inc():\n        nonlocal n\n        n += 1\n        return n\n    def g():\n        global n\n        n = 1000\n    return inc, g\n",
    "class body declares global x": "def f():\n    x = 'local'\n    class K:\n        global x\n        x = 'from-class'\n    def r():\n        return x\n    return r\n",
    "global declared two levels down": "def f():\n    x = 1\n    def a():\n        def b():\n            global x\n            x = 2\n        return b\n    return a, x\n",
    "free variable of the enclosing function used directly": "def f():\n    return ov + 1\n",
    "free variable used only by an inner function": "def f():\n    def g():\n        return ov\n    return g\n",
    "global declaration hides the enclosing variable": "def f():\n    global ov\n    ov = 3\n    def g():\n        return 0\n    return g\n",
    "nonlocal rebinding of the enclosing variable": "def f():\n    nonlocal ov\n    ov = 3\n",
    "inner local shadows the enclosing variable": "def f():\n    def g():\n        ov = 1\n        return ov\n    y = 2\n    return g\n",
    "nonlocal in an inner function refers to f's local": "def f():\n    c = 0\n    def g():\n        nonlocal c\n        c += 1\n    return g\n",
    "no inner scope": "def f(a):\n    b = a + ov\n    return b\n",
    "nonlocal declared (and assigned) two levels down": "def f():\n    def g():\n        def h():\n            nonlocal ov\n            ov = 1\n        return h\n    return g\n",
    "default value of a definition two levels down": "def f():\n    def g():\n        def h(a=ov):\n            return a\n        return h\n    return g\n",
    "keyword-only default and base class of nested definitions": "def f():\n    def g(*, k=ov):\n        class K(ow):\n            pass\n        return K\n    return g\n",
    "global declaration in a branch that is never executed": "def f():\n    if 0:\n        global ov\n    ov = 3\n    def g():\n        return 0\n    return g\n",
}


def _scope_run(program, src):
    """resolve_nonlocals interpreted for the function definition `src` nested in a function whose scope holds cells for ov and ow."""
    uid = "eval.py::EvalFunc.resolve_nonlocals"
    fd = to_nodev(ast.parse(src).body[0])
    pol = FlowPolicy(program, may_raise_all=False, cancel=False,
                     inline={"EvalFunc.get_positional_args", "self.get_positional_args", "ast_ctx.get_names", "self.get_names_set", "self.get_target_names",
                             "self.check_for_closure", "self.get_names"},
                     summaries={"self.ast_attribute_collapse": lambda i, n, a, k, c, o: [(c, NONE)]})
    pol.loop_unroll = 12
    pol.param_writeback = True
    pol.inline_depth = 60
    cells = {n: ObjV(f"cell_{n}", "EvalLocalVar") for n in ("ov", "ow")}
    heap = {"self.func_def": fd, "self.has_closure": Const(False), "self.local_sym_table": DictV([]), "self.local_names": NONE, "self.global_names": ListV((), "set"),
            "self.nonlocal_names": ListV((), "set"), "ast_ctx.sym_table_stack": ListV((DictV([]),), "list"),
            "ast_ctx.sym_table": DictV([(Const(n), c) for n, c in cells.items()])}
    out = run_flow(program, uid, pol, args={"self": ObjV("self", "EvalFunc"), "ast_ctx": ObjV("ast_ctx", "AstEval")}, heap=heap)
    return cells, exits(out)


def _scope_classes_rule(ctx, program):
    """The name pre-pass (get_names / get_names_set / get_target_names, interpreted through resolve_nonlocals) classifies the names of a
    function as the host's symtable does: locals get their own cell, free names the enclosing cell, declared globals neither."""
    ctx.rule("R03.14", "scope classification: a function's locals (per the host's symtable) get their own closure cell, its free variables the enclosing "
                       "function's cell, names it declares global neither - whatever global/nonlocal declarations nested scopes contain", floor=8)
    uid = "eval.py::EvalFunc.resolve_nonlocals"
    for label, src in SCOPE_PROBES.items():
        whole = "def outer():\n    ov = 0\n    ow = 0\n" + "".join("    " + ln + "\n" for ln in src.splitlines()) + "    return f\n"
        st = symtable.symtable(whole, "<probe>", "exec").get_children()[0].get_children()[0]
        assert st.get_name() == "f"
        syms = st.get_symbols()
        want_local = sorted(x.get_name() for x in syms if x.is_local())
        want_free = sorted(x.get_name() for x in syms if x.is_free())
        want_glob = sorted(x.get_name() for x in syms if x.is_declared_global())
        has_inner = any(ch.get_type() in ("function", "class") for ch in st.get_children())
        cells, ex = _scope_run(program, src)
        problems = []
        for k, c, d in ex:
            if k != "return":
                problems.append(f"ends with {d}")
                continue
            t = c.heap.get("self.local_sym_table")
            if not isinstance(t, DictV):
                problems.append(f"local table is {t!r}")
                continue
            own = sorted(x.v for x, v in t.items if isinstance(x, Const) and isinstance(v, App) and v.op == "new")
            enclosing = sorted(x.v for x, v in t.items if isinstance(x, Const) and v in cells.values())
            if has_inner and own != want_local:
                problems.append(f"own cells for {own}, Python's locals are {want_local}")
            if not has_inner and own:
                problems.append(f"own cells {own} although the function has no inner scope")
            missing = [n for n in want_free if n not in enclosing]
            if missing:
                problems.append(f"free variable(s) {missing} not bound to the enclosing function's cell")
            wrong = [n for n in enclosing if n in want_local or n in want_glob]
            if wrong:
                problems.append(f"{wrong} bound to the enclosing function's cell although local/global here")
            decl = c.heap.get("self.global_names")
            got_glob = sorted(x.v for x in decl.items if isinstance(x, Const)) if isinstance(decl, ListV) else None
            if got_glob != want_glob:
                problems.append(f"the function's set of names declared global is {got_glob} once it is defined, Python fixes it at compile time as {want_glob} "
                                f"(a `global` statement takes effect whether or not it is executed)")
        if not ex:
            problems.append("no completed path")
        ctx.check(not problems, "R03.14", uid, f"scope classes: {label}",
                  msg=f"`{' / '.join(x.strip() for x in src.splitlines())}` ({label}): {'; '.join(dict.fromkeys(problems))}: closures read or rebind a different "
                  f"variable than in Python (symtable: locals {want_local}, free {want_free}, global {want_glob})",
                  key=f"scope classes {label}", node=program.func("eval.py::AstEval.get_names_set"), rel="eval.py")


# ----------------------------------------------------------------------------------------------------
CELL_PROBES = [
    ("x = a0", "exec"), ("x, y = (a0, a1)", "exec"), ("x += a0", "exec"), ("(x := a0)", "eval"),
    ("for x in i0:\n    s0", "exec"), ("with a0 as x:\n    s0", "exec"),
    ("try:\n    s0\nexcept a0 as x:\n    s1", "exec"),
    ("def x():\n    s0", "exec"), ("@pyscript_compile\ndef x():\n    pass", "exec"),
    ("class x:\n    s0", "exec"), ("del x", "exec"),
    ("[a0 for x in i1]", "eval"), ("import x", "exec"), ("from y import x", "exec"),
]


def _cell_rule(ctx, program):
    """A name that is a closure cell (EvalLocalVar) in the current scope stays that very cell after any binding statement."""
    ctx.rule("R03.9", "binding statements update closure cells in place: the EvalLocalVar of a name is never replaced by a plain value", floor=10)
    from ..schematic import shape_expr

    cell = ObjV("cell_x", "EvalLocalVar")
    celly = ObjV("cell_y", "EvalLocalVar")
    heap = dict(MODULE_SCOPE)
    heap["self.sym_table"] = DictV(((Const("$symtab"), Const("local")), (Const("x"), cell), (Const("y"), celly)))
    heap["cell_x.defined"] = Const(True)
    heap["cell_x.value"] = Sym(("var", "x"))
    heap["cell_x.name"] = Const("x")
    heap["cell_y.defined"] = Const(True)
    heap["cell_y.value"] = Sym(("var", "y"))
    heap["cell_y.name"] = Const("y")
    heap["self.curr_func"] = ObjV("curfn", "EvalFunc")
    heap["curfn.global_names"] = ListV((), "set")
    heap["curfn.nonlocal_names"] = ListV((), "set")
    heap["curfn.local_names"] = ListV((Const("x"), Const("y")), "set")
    pol = HandlerPolicy(program, opaque_methods=("call_func", "log_exception", "get_names", "ast_attribute_collapse",
                                                 "loopvar_scope_save", "loopvar_scope_restore", "resolve_nonlocals",
                                                 "eval_decorators", "eval_defaults", "trigger_init", "trigger_stop", "check_for_closure"))
    pol.exec_havoc = True
    # the same policy with every operand evaluation a possible exception: the handler clauses of a try statement are entered
    rpol = HandlerPolicy(program, raise_at_eval=True, opaque_methods=pol.opaque_methods) if hasattr(pol, "opaque_methods") else None
    for src, mode in CELL_PROBES:
        shape = shape_expr(src) if mode == "eval" else shape_stmt(src)
        handler = f"eval.py::AstEval.ast_{shape.cls.lower()}"
        try:
            out = run_handler(program, shape, rpol if (src.startswith("try:") and rpol is not None) else pol, heap=heap)
        except AnalysisError as exc:
            ctx.skip("R03.9", handler, f"`{src}` not summarisable: {exc}")
            continue
        bad = None
        n = 0
        for c in out.get("return"):
            n += 1
            st = c.heap.get("self.sym_table")
            cur = st.get(Const("x")) if isinstance(st, DictV) else None
            if cur is not None and cur != cell:
                bad = f"after `{' '.join(src.split())}` the scope maps x to {cur!r} instead of its closure cell"
            elif cur is None:
                bad = (f"after `{' '.join(src.split())}` the closure cell of x is removed from the scope (a cell is unbound by marking it undefined): a later `x = ..` creates a plain "
                       f"local that inner functions defined afterwards cannot capture, and functions that captured the cell never see the new value")
        shown = " ".join(src.split())
        if n == 0:
            ctx.skip("R03.9", handler, f"`{shown}`: no normal completion path")
            continue
        ctx.check(bad is None, "R03.9", handler, f"cell of x preserved by `{shown}`",
                  msg=f"{bad}: functions that captured x keep seeing the old value",
                  key=f"cell preserved by `{shown}`", node=program.units[handler].node if handler in program.units else None, rel="eval.py")


def _scope_order_rule(ctx, program):
    """resolve_nonlocals, interpreted on a stack of enclosing scopes that all hold a cell for the name: the innermost one is captured;
    the outermost (module) table is searched for a free name but never for a `nonlocal` one."""
    ctx.rule("R03.10", "free/nonlocal names resolve to the innermost enclosing scope that binds them", floor=5)
    uid = "eval.py::EvalFunc.resolve_nonlocals"
    cells = {k: ObjV(f"cell_x_{k}", "EvalLocalVar") for k in ("global", "outer", "middle", "current")}
    free_src = "def f():\n    def g():\n        return x\n    return g\n"
    nonl_src = "def f():\n    nonlocal x\n    x = 1\n"
    cases = [
        ("free name, cell in every scope", free_src, ("global", "outer", "middle", "current"), "current"),
        ("free name, cell in the two outer functions", free_src, ("outer", "middle"), "middle"),
        ("free name, cell in the outermost function only", free_src, ("outer",), "outer"),
        ("free name, cell in the outermost table only", free_src, ("global",), "global"),
        ("nonlocal name, cell in every scope", nonl_src, ("global", "outer", "middle", "current"), "current"),
        ("nonlocal name, cells in the outermost table and one function", nonl_src, ("global", "outer"), "outer"),
        ("nonlocal name, cell in the outermost table only", nonl_src, ("global",), None),
    ]
    for label, src, holders, want in cases:
        fd = to_nodev(ast.parse(src).body[0])
        pol = FlowPolicy(program, may_raise_all=False, cancel=False,
                         inline={"EvalFunc.get_positional_args", "self.get_positional_args", "ast_ctx.get_names", "self.get_names_set", "self.get_target_names",
                                 "self.check_for_closure", "self.get_names"},
                         summaries={"self.ast_attribute_collapse": lambda i, n, a, k, c, o: [(c, NONE)]})
        pol.loop_unroll = 12
        pol.inline_depth = 60

        def tab(k):
            return DictV([(Const("x"), cells[k])] if k in holders else [])
        heap = {"self.func_def": fd, "self.has_closure": Const(False), "self.local_sym_table": DictV([]), "self.local_names": NONE, "self.global_names": ListV((), "set"),
                "self.nonlocal_names": ListV((), "set"), "ast_ctx.sym_table_stack": ListV((tab("global"), tab("outer"), tab("middle")), "list"),
                "ast_ctx.sym_table": tab("current")}
        out = run_flow(program, uid, pol, args={"self": ObjV("self", "EvalFunc"), "ast_ctx": ObjV("ast_ctx", "AstEval")}, heap=heap)
        got = set()
        for k, c, d in exits(out):
            if k != "return":
                got.add(None)
                continue
            t = c.heap.get("self.local_sym_table")
            v = t.get(Const("x")) if isinstance(t, DictV) else None
            got.add(next((n for n, cell in cells.items() if cell == v), None if v is None else repr(v)))
        ctx.check(got == {want}, "R03.10", uid, f"scope search: {label}",
                  msg=f"resolve_nonlocals ({label}; scopes holding a cell for x: {list(holders)}): x is bound to the cell of {sorted(map(str, got))}, Python binds it to "
                  f"{want or 'nothing (SyntaxError: no binding for nonlocal)'}: a free or nonlocal name binds to the wrong enclosing function when two of them define it",
                  key=f"scope search {label}", node=program.func(uid), rel="eval.py")


def _defn_order_rule(ctx, program):
    """Decorators are evaluated before defaults (functions) and before bases/body (classes), as CPython does."""
    ctx.rule("R03.2", "definition-time evaluation order: decorator expressions, then defaults / bases, keywords, body; decorators applied last in reverse", floor=2)
    pol = HandlerPolicy(program, opaque_methods=("call_func", "log_exception", "get_names", "ast_attribute_collapse",
                                                 "loopvar_scope_save", "loopvar_scope_restore", "resolve_nonlocals",
                                                 "trigger_init", "trigger_stop", "check_for_closure", "get_decorator_by_expr",
                                                 "create_decorator_manager"))
    pol.decorator_unknown = True
    # function: @a0 @a1 def f(p=a2, *, k=a3)
    src = "@a0\n@a1\ndef f(p=a2, *, k=a3):\n    s0"
    shape = shape_stmt(src)
    out = run_handler(program, shape, pol)
    seqs = set()
    for c in out.get("return"):
        seqs.add(tuple(e[1] for e in c.trace if e[0] == "eval"))
    exp = ("a0", "a1", "a2", "a3")
    unit = "eval.py::AstEval.ast_functiondef"
    ctx.check(seqs == {exp}, "R03.2", unit, "decorators, then defaults, then keyword-only defaults",
              msg=f"`@a0 @a1 def f(p=a2, *, k=a3)`: definition-time evaluation order is {sorted(seqs)}, Python evaluates {exp}",
              key="function definition evaluation order", node=program.func(unit), rel="eval.py", sample={"order": sorted(seqs)})
    src = "@a0\nclass K(a1, metaclass=a2):\n    s0"
    shape = shape_stmt(src)
    pol2 = HandlerPolicy(program, stmt_markers=(None,))
    out = run_handler(program, shape, pol2)
    seqs = set()
    for c in out.get("return"):
        seqs.add(tuple(e[1] for e in c.trace if e[0] == "eval"))
    exp = ("a0", "a1", "a2", "s0")
    unit = "eval.py::AstEval.ast_classdef"
    ctx.check(seqs == {exp}, "R03.2", unit, "decorators, bases, keywords, then the body",
              msg=f"`@a0 class K(a1, metaclass=a2): s0`: evaluation order is {sorted(seqs)}, Python evaluates {exp}",
              key="class definition evaluation order", node=program.func(unit), rel="eval.py", sample={"order": sorted(seqs)})


def _lookup_order_rule(ctx, program):
    """ast_name interpreted on a table of scopes: which binding a name denotes (precedence), and the NameError-family outcomes."""
    ctx.rule("R03.7", "name lookup: a name declared global denotes the module global (else the builtin); otherwise the local scope (plain value or closure cell), the "
                      "evaluator's own names, the module globals, then the restricted builtins; a local that is not bound yet hides globals and builtins (UnboundLocalError)", floor=9)
    fn = program.func("eval.py::AstEval.ast_name")
    pol = HandlerPolicy(program, opaque_methods=("call_func",))
    excl = const_set(program.module_const("eval.py", "BUILTIN_EXCLUDE")) or set()
    pol.mod_consts["BUILTIN_EXCLUDE"] = Const(frozenset(excl))
    pol.plain_ast_name = True
    L, C, E, G = Sym(("scope", "local")), Sym(("scope", "cell")), Sym(("scope", "evaluator")), Sym(("scope", "global"))
    cases = [
        # (label, name, local scope entry, evaluator-level entry, module global, declared global, in the function's static locals, expected)
        ("a local hides the global", "x", L, None, G, False, True, L),
        ("a closure cell hides the global", "x", "cell", None, G, False, True, C),
        ("evaluator-level names (trigger variables, print) come before module globals", "x", None, E, G, False, False, E),
        ("a module global hides the builtin", "len", None, None, G, False, False, G),
        ("builtin", "len", None, None, None, False, False, "builtin"),
        ("declared global: the module global, not the local of the same name", "x", L, None, G, True, True, G),
        ("declared global, not defined in the module: the builtin", "len", None, None, None, True, False, "builtin"),
        ("declared global, defined nowhere", "x", None, None, None, True, False, "NameError"),
        ("local not bound yet, a global of that name exists", "x", None, None, G, False, True, "UnboundLocalError"),
        ("local not bound yet, a builtin of that name exists", "len", None, None, None, False, True, "UnboundLocalError"),
    ]
    for label, name, loc, ev, glob, decl, is_local, want in cases:
        h = dict(MODULE_SCOPE)
        st = [(Const("$symtab"), Const("local"))]
        if loc == "cell":
            st.append((Const(name), ObjV("cell_n", "EvalLocalVar")))
            h["cell_n.defined"] = Const(True)
            h["cell_n.value"] = C
            h["cell_n.name"] = Const(name)
        elif loc is not None:
            st.append((Const(name), loc))
        h["self.sym_table"] = DictV(tuple(st))
        h["self.local_sym_table"] = DictV(((Const(name), ev),) if ev is not None else ())
        h["self.global_sym_table"] = DictV(((Const("$symtab"), Const("global")),) + (((Const(name), glob),) if glob is not None else ()))
        h["self.curr_func"] = ObjV("curfunc", "EvalFunc")
        h["curfunc.global_names"] = ListV((Const(name),) if decl else (), "set")
        h["curfunc.nonlocal_names"] = ListV((), "set")
        h["curfunc.local_names"] = ListV((Const(name),) if is_local else (), "set")
        node = NodeV("Name", {"id": Const(name), "ctx": NodeV("Load", {}, "ctx")}, f"name:{name}")
        out = run_handler(program, node, pol, method="ast_name", heap=h)
        got = set()
        for c in out.get("return"):
            v = c.env.get("$ret")
            if isinstance(v, App) and v.op == "getattr" and "builtins" in repr(v.args[0]) and v.args[1] == Const(name):
                got.add("builtin")
            elif isinstance(v, App) and v.op == "new" and "EvalName" in repr(v):
                got.add("NameError")  # the undefined-name marker: aeval turns it into NameError
            else:
                got.add(v)
        for c in out.get("raise"):
            got.add(getattr(c.env.get("$exc"), "cls", "?"))
        ctx.check(got == {want}, "R03.7", "eval.py::AstEval.ast_name", f"lookup: {label}",
                  msg=f"name lookup of `{name}` ({label}) gives {sorted(map(repr, got))}, Python's scoping gives {want!r}", key=f"lookup {label}", node=fn, rel="eval.py")


# Functions whose **kwargs carries a namespace chosen by the script (keyword arguments of a call, event data, service data).  Python binds a keyword to a
# named parameter before it reaches **kwargs, so every parameter of such a function that is not itself a documented keyword must be positional-only.
KWARGS_NAMESPACE = {
    "eval.py::AstEval.call_func": "keyword arguments of every interpreted call",
    "eval.py::EvalFunc.call": "keyword arguments of a call of an interpreted function",
    "eval.py::EvalFuncVar.call": "keyword arguments of a call of an interpreted function",
    "eval.py::EvalFuncVarClassInst.call": "keyword arguments of a call of an interpreted method",
    "function.py::Function.event_fire": "the data of event.fire",
    "function.py::Function.service_call": "the data of service.call",
    "function.py::Function.task_add_done_callback": "keyword arguments for the done callback",
    "trigger.py::TrigTime.init.user_task_add_done_callback": "keyword arguments for the done callback",
    "trigger.py::TrigTime.init.user_task_create_factory.user_task_create": "keyword arguments for the function task.create runs",
    "trigger.py::TrigTime.init.user_task_create_factory.user_task_create.func_call": "keyword arguments for the function task.create runs",
    "trigger.py::TrigTime.user_task_executor": "keyword arguments for the function task.executor runs",
    "trigger.py::TrigInfo.call_action.do_func_call": "the trigger's keyword arguments (event data included)",
}


def kwargs_namespace_rule(ctx, program, rid, only=None):
    n = 0
    for uid, what in KWARGS_NAMESPACE.items():
        if only is not None and not any(uid.startswith(o) for o in only):
            continue
        f = program.func(uid)
        n += 1
        if f.args.kwarg is None:
            ctx.ok(rid, uid, "no ** parameter: nothing to collide with")
            continue
        named = [a.arg for a in f.args.args] + [a.arg for a in f.args.kwonlyargs]
        ctx.check(not named, rid, uid, f"own parameters are positional-only next to **{f.args.kwarg.arg}",
                  msg=f"{uid}: **{f.args.kwarg.arg} carries {what}, but the function's own parameter(s) {named} can be bound by keyword: a script keyword / data key of that name "
                  f"raises TypeError ('got multiple values for argument') instead of being delivered", key="kwargs namespace collision", node=f, rel=uid.split("::")[0])
    return n


def _init_wrap_rule(ctx, program):
    ctx.rule("R03.8", "the async __init__ wrapper attribute written by ast_classdef is the one read by call_func", floor=1)
    w = {n.value for n in body_walk(program.func("eval.py::AstEval.ast_classdef"))
         if isinstance(n, ast.Constant) and isinstance(n.value, str) and "evalfunc_wrap" in n.value}
    r = {n.value for n in body_walk(program.func("eval.py::AstEval.call_func"))
         if isinstance(n, ast.Constant) and isinstance(n.value, str) and "evalfunc_wrap" in n.value}
    r |= {n.attr for n in body_walk(program.func("eval.py::AstEval.call_func")) if isinstance(n, ast.Attribute) and "evalfunc_wrap" in n.attr}
    ctx.check(len(w) == 1 and w == r, "R03.8", "eval.py::AstEval.call_func", "wrapper attribute names agree",
              msg=f"ast_classdef stores the renamed __init__ under {sorted(w)} but call_func reads {sorted(r)}",
              key="__init__ wrapper name", node=program.func("eval.py::AstEval.call_func"), rel="eval.py")


def _class_namespace_rule(ctx, program):
    """ast_classdef interpreted on a class statement inside a function whose name x already has a closure cell: what namespace reaches the metaclass, what happens to the cell."""
    ctx.rule("R03.15", "class statement: an existing closure cell of the class name is kept (set, not replaced); the namespace handed to the metaclass renames a script-defined "
                       "__init__ to the wrapper attribute and carries no wrapper entry at all otherwise (a None entry would hide the __init__ inherited from a script base class)", floor=2)
    uid = "eval.py::AstEval.ast_classdef"
    cell = ObjV("cell_x", "EvalLocalVar")
    initf = ObjV("init_fn", "EvalFuncVar")
    for with_init in (False, True):
        seen = []

        def body_stmt(i, n, a, k, c, o):
            return [(c, NONE)]

        # a namespace that holds a script-defined __init__ when the body is done is modelled by the metaclass preparing it that way
        prepared = DictV([(Const("__init__"), initf)]) if with_init else DictV([])

        def metaclass(i, n, a, k, c, o, seen=seen):
            return [(c.emit(("ns", a[2] if len(a) > 2 else None)), ObjV("the_class", "type"))]

        pol = FlowPolicy(program, may_raise_all=False, cancel=False, events=["self.call_func"],
                         summaries={"self.aeval": body_stmt, "metaclass": metaclass, "inspect.iscoroutine": lambda i, n, a, k, c, o: [(c, Const(False))],
                                    "hasattr": lambda i, n, a, k, c, o: [(c, Const(True))], "metaclass.__prepare__": lambda i, n, a, k, c, o, prepared=prepared: [(c, prepared)],
                                    "keywords.pop": lambda i, n, a, k, c, o: [(c, a[1] if len(a) > 1 else NONE)]},
                         globals_={"EvalLocalVar": ClassV("EvalLocalVar"), "EvalReturn": ClassV("EvalReturn"), "EvalStopFlow": ClassV("EvalStopFlow")})
        pol.loop_unroll = 3
        pol.track_aliases = True  # `sym_table_assign = self.sym_table`: stores through the local name reach the scope dictionary
        pol.distinct_slots = True  # the function scope and the module globals are two dictionaries
        node = NodeV("ClassDef", {"name": Const("x"), "decorator_list": ListV((), "list"), "bases": ListV((), "list"), "keywords": ListV((), "list"),
                                  "body": ListV((NodeV("Pass", {}, "arg.body[0]"),), "list")}, "arg")
        local = DictV([(Const("x"), cell), (Const("y"), Const(1))])
        heap = {"self.sym_table": local, "self.global_sym_table": DictV([(Const("g"), Const(0))]), "self.sym_table_stack": ListV((), "list"),
                "self.curr_func": ObjV("curfn", "EvalFunc"), "curfn.global_names": ListV((), "set"), "cell_x.defined": Const(True), "cell_x.value": Sym(("old", "x"))}
        out = run_flow(program, uid, pol, args={"self": ObjV("self", "AstEval"), "arg": node}, heap=heap)
        bad = None
        ex = exits(out)
        for k, c, d in ex:
            tab = c.heap.get("self.sym_table")
            if k != "return":
                bad = f"ends with {d}"
            elif not isinstance(tab, DictV) or tab.get(Const("x")) != cell:
                bad = (f"the scope afterwards maps x to {tab.get(Const('x')) if isinstance(tab, DictV) else tab!r} instead of the closure cell it had: functions that captured x "
                       f"(an earlier pass of a loop, a sibling function) never see the class defined now")
        for k, c, d in ([] if bad else ex):
            seen = [e[1] for e in c.trace if e[0] == "ns"]
            if len(seen) != 1 or not isinstance(seen[0], DictV):
                bad = f"the metaclass is called {len(seen)} time(s) with namespace {seen[:1]!r}"
            else:
                ns = {kk.v: vv for kk, vv in seen[0].items if isinstance(kk, Const)}
                if with_init and (ns.get("__init__evalfunc_wrap__") != initf or "__init__" in ns):
                    bad = f"namespace of a class defining __init__: {ns}"
                elif not with_init and "__init__evalfunc_wrap__" in ns:
                    bad = (f"namespace of a class without __init__ contains __init__evalfunc_wrap__ = {ns['__init__evalfunc_wrap__']!r}: it hides the wrapper inherited from a script-defined "
                           f"base class, whose __init__ is then not run (TypeError for its arguments)")
        ctx.check(bool(ex) and bad is None, "R03.15", uid, f"class x inside a function, {'with' if with_init else 'without'} its own __init__", msg=f"ast_classdef: {bad or 'no exit'}",
                  key=f"class namespace init={with_init}", node=program.func(uid), rel="eval.py")


def _captured_cell_rule(ctx, program):
    """EvalFunc.call: which cell object a name denotes inside the body - the enclosing function's (captured names) or a new one per call (own locals)."""
    ctx.rule("R03.16", "at every call a captured variable is the enclosing function's cell itself - also while that variable is still unbound there (a nonlocal write "
                       "made before the outer assignment must not be lost); the function's own locals get a new cell per call", floor=2)
    fn = program.func("eval.py::EvalFunc.call")
    fdef = to_nodev(ast.parse("def f():\n    s0").body[0])
    for outer_defined in (True, False):
        pol = HandlerPolicy(program, stmt_markers=(None,))
        pol.snapshot = True
        interp = EventInterp(pol, "eval.py")
        outer, tmpl = ObjV("outer_cell", "EvalLocalVar"), ObjV("own_template", "EvalLocalVar")
        heap = dict(MODULE_SCOPE)
        G = Sym(("object", "ctxA"))
        heap.update({
            "self.global_ctx": G, "func.global_ctx": G, "func.func_def": fdef, "func.num_posonly_arg": Const(0), "func.num_posn_arg": Const(0), "func.defaults": ListV(()),
            "func.kw_defaults": ListV(()), "func.name": Const("f"), "func.global_ctx_name": Const("file.x"), "func.code_str": Const(""), "func.code_list": ListV(()),
            "func.local_sym_table": DictV(((Const("cap"), outer), (Const("own"), tmpl))), "func.local_names": ListV((Const("own"),), "set"),
            "func.nonlocal_names": ListV((), "set"), "func.global_names": ListV((), "set"),
            "outer_cell.defined": Const(outer_defined), "outer_cell.value": Sym(("outer", "value")), "outer_cell.name": Const("cap"),
            "own_template.defined": Const(False), "own_template.name": Const("own"),
        })
        interp.call_stack.append(fn)
        out = interp.run_function(fn, {"self": ObjV("func", "EvalFunc"), "ast_ctx": ObjV("self", "AstEval"), "args": ListV((), "tuple"), "kwargs": DictV(())}, Cfg(heap=heap))
        bad = None
        n = 0
        for c in out.get("return") + out.get("raise"):
            for e in c.trace:
                if e[0] != "snapshot" or not isinstance(e[1], DictV):
                    continue
                n += 1
                cap, own = e[1].get(Const("cap")), e[1].get(Const("own"))
                if cap != outer:
                    bad = (f"inside the body the captured name denotes {cap!r}, not the enclosing function's cell: what the body assigns through `nonlocal` never reaches the "
                           f"enclosing function (and it never sees the value assigned there later)")
                elif own == tmpl or own == outer or not ((isinstance(own, App) and own.op == "new") or (isinstance(own, ObjV) and own.cls == "EvalLocalVar")):
                    bad = f"the function's own local denotes {own!r} instead of a cell created for this call: recursive or repeated calls share one variable"
        ctx.check(n > 0 and bad is None, "R03.16", "eval.py::EvalFunc.call", f"captured variable {'bound' if outer_defined else 'still unbound'} in the enclosing function at call time",
                  msg=f"EvalFunc.call (captured variable {'bound' if outer_defined else 'not bound yet'} in the enclosing function): {bad or 'the body was not reached'}",
                  key=f"captured cell shared defined={outer_defined}", node=fn, rel="eval.py")


def _who_may_call_rule(ctx, program):
    ctx.rule("R03.11", "defaults and decorators are evaluated at definition time only (eval_defaults/eval_decorators called only from ast_functiondef)", floor=2)
    for callee in ("eval_defaults", "eval_decorators"):
        callers = set()
        for u in program.functions():
            for n in body_walk(u.node):
                if isinstance(n, ast.Call) and isinstance(n.func, ast.Attribute) and n.func.attr == callee:
                    callers.add(u.uid)
        ctx.check(callers == {"eval.py::AstEval.ast_functiondef"}, "R03.11", f"eval.py::EvalFunc.{callee}", f"{callee} called only at definition time",
                  msg=f"{callee} is called from {sorted(callers)}: defaults/decorators must be evaluated exactly once, when the def statement executes",
                  key=f"callers of {callee}", node=program.func(f"eval.py::EvalFunc.{callee}"), rel="eval.py", sample={"callers": sorted(callers)})


def run(ctx):
    program = ctx.program
    _binding_rule(ctx, program)
    _defn_order_rule(ctx, program)
    _binding_kinds_rule(ctx, program)
    _inner_def_rule(ctx, program)
    _param_cells_rule(ctx, program)
    _scope_classes_rule(ctx, program)
    _scope_rules(ctx, program)
    _cell_rule(ctx, program)
    _scope_order_rule(ctx, program)
    _lookup_order_rule(ctx, program)
    ctx.rule("R03.17", "keyword arguments bind to the called function's parameters, whatever their names: the interpreter's own forwarding functions take their parameters "
             "positional-only, so a script keyword called func, func_name, ast_ctx or self reaches the callee", floor=4)
    kwargs_namespace_rule(ctx, program, "R03.17", only=("eval.py::",))
    ctx.rule("R03.18", "calls: positional, starred, keyword and ** arguments are evaluated once each in order and reach the callee; a keyword given twice (explicitly and "
             "through a ** mapping, in either order) is a TypeError, a ** operand that is no mapping too - the interpreter's call handler against the reference semantics", floor=10)
    from .c01 import EXPR_SHAPES
    from ..hcompare import compare_shape
    cpol = HandlerPolicy(program)
    for src in EXPR_SHAPES:
        if src.startswith("a0(") and src.endswith(")"):
            compare_shape(ctx, program, cpol, "R03.18", src, "eval")
    ctx.rule("R03.19", "declarations at module level: `global x` outside a function is legal (a no-op), `nonlocal x` is a SyntaxError - what the host's compiler says (asked with "
             "compile(), nothing is run) is what the interpreter's handlers do", floor=2)
    from ..flow import FlowPolicy, exits, run_flow
    for kw in ("global", "nonlocal"):
        try:
            compile(f"{kw} x\nx = 1\n", "<module>", "exec")
            host = "accepted"
        except SyntaxError:
            host = "SyntaxError"
        uid = f"eval.py::AstEval.ast_{kw}"
        polg = FlowPolicy(program, may_raise_all=False, cancel=False)
        exg = exits(run_flow(program, uid, polg, args={"self": ObjV("self", "AstEval"), "arg": to_nodev(ast.parse(f"def f():\n    {kw} x\n").body[0].body[0])}, heap={"self.curr_func": Const(None)}))
        got = sorted({"accepted" if k == "return" else getattr(c.env.get("$exc"), "cls", "?") for k, c, d in exg})
        ctx.check(got == [host], "R03.19", uid, f"`{kw} x` at module level: {host}", msg=f"`{kw} x` at module level: the interpreter gives {got}, Python {host}", key=f"module level {kw}",
                  node=program.func(uid), rel="eval.py")
    ctx.rule("R03.20", "defaults of natively compiled functions (lambda, @pyscript_compile): the local names their default expressions read are the variables' values - the "
             "interpreter's closure cells never reach exec() (`lambda i=i: i` in a function with nested definitions stored the cell object as default)", floor=2)
    from ..absint import ClassV
    for scope in ("function scope with cells", "module scope"):
        seen = []

        def exec_(i, n, a, k, c, o, seen=seen):
            seen.append(a[2] if len(a) > 2 else (a[1] if len(a) > 1 else None))
            return [(c, Const(None))]

        cell = ObjV("cell_i", "EvalLocalVar")
        poln = FlowPolicy(program, may_raise_all=False, cancel=False, summaries={"compile": lambda i, n, a, k, c, o: [(c, Sym(("code",)))], "exec": exec_},
                          inline={"EvalLocalVar.get", "EvalLocalVar.is_defined", "value.get", "value.is_defined"},
                          globals_={"COMP_DECORATORS": ListV((Const("pyscript_compile"), Const("pyscript_executor")), "set"), "EvalLocalVar": ClassV("EvalLocalVar")})
        poln.distinct_slots = True   # the function's table and the module's table are two dictionaries
        poln.loop_unroll = 4
        gt = DictV([(Const("i"), Const(3))], "self.global_sym_table")
        heapn = {"self.global_sym_table": gt, "cell_i.defined": Const(True), "cell_i.value": Const(3), "cell_i.name": Const("i"), "self.filename": Const("f.py"),
                 "self.sym_table": DictV([(Const("i"), cell), (Const("j"), Const(4))], "self.sym_table") if scope.startswith("function") else gt}
        outn = run_flow(program, "eval.py::AstEval.ast_functiondef", poln, args={"self": ObjV("self", "AstEval"), "arg": to_nodev(ast.parse("@pyscript_compile\ndef f(i=i):\n    return i").body[0]),
                                                                                 "async_func": Const(False)}, heap=heapn)
        exn = exits(outn)
        cells = [v for loc in seen if isinstance(loc, DictV) for _, v in loc.items if isinstance(v, ObjV) and v.cls == "EvalLocalVar"]
        vals = [dict(loc.items).get(Const("i")) for loc in seen if isinstance(loc, DictV)]
        ok = bool(exn) and all(k == "return" for k, c, d in exn) and seen and not cells and all(v == Const(3) for v in vals)
        ctx.check(ok, "R03.20", "eval.py::AstEval.ast_functiondef", f"native definition in {scope}",
                  msg=f"@pyscript_compile / lambda definition in {scope}: exec() is given locals in which `i` is {[repr(v) for v in vals]} (exits {[d for k, c, d in exn]}); specified the value 3: "
                  "the default expression `i=i` binds the interpreter's cell object", key=f"native locals {scope}", node=program.func("eval.py::AstEval.ast_functiondef"), rel="eval.py")
    _init_wrap_rule(ctx, program)
    _class_namespace_rule(ctx, program)
    _captured_cell_rule(ctx, program)
    _who_may_call_rule(ctx, program)
    return (
        "Static, source-only. R03.1: EvalFunc.__init__/eval_defaults/call are abstractly interpreted on schematic signatures and the "
        "resulting parameter table or TypeError is compared with inspect.signature(probe).bind for every call shape (<=4 positional, <=2 of 6 keywords). "
        "R03.2 definition-time evaluation order; R03.3 binding constructs vs host symtable; R03.4 heap-restore on every exit of call/class body/"
        "decorator evaluation; R03.6 reserved keyword table; R03.7 lookup order; R03.8 __init__ wrapper protocol; R03.9 closure-cell preservation "
        "by every binding statement; R03.10 innermost-first scope search; R03.11 who-may-call for definition-time evaluation. "
        "Not decided: recursion, host class machinery, results of calls."
    )
