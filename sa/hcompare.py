"""Comparison of handler path sets (schematic partial evaluation) with reference path sets (pyref)."""

from __future__ import annotations

import re

from .absint import FALSE, NONE, TRUE, App, ClassV, Const, DictV, ExcV, ListV, NodeV, ObjV, Out, Sym
from .pyref import run_reference
from .repo import AnalysisError
from .schematic import HandlerPolicy, run_handler, shape_expr, shape_stmt


def _mentions_user(v):
    if isinstance(v, Sym):
        return v.tag and v.tag[0] in ("val", "item", "var")
    if isinstance(v, App):
        return any(_mentions_user(a) for a in v.args)
    if isinstance(v, ListV):
        return any(_mentions_user(a) for a in v.items)
    if isinstance(v, DictV):
        return any(_mentions_user(k) or _mentions_user(x) for k, x in v.items)
    return False


def _is_symtab(v):
    return isinstance(v, DictV) and any(k == Const("$symtab") for k, _ in v.items)


def _is_annotations(v):
    return isinstance(v, DictV) and any(k == Const("$annotations") for k, _ in v.items)


def canon(v):
    """Canonical form of result/argument terms (string building, bookkeeping wrappers)."""
    if isinstance(v, App):
        if v.op in ("add", "fstr", "str", "format"):
            parts = _str_parts(v)
            if parts is not None:
                return ("fstr", tuple(parts))
        if v.op == "res" and v.args and v.args[0] == Const("call_func"):
            return ("callres",)
        if v.op == "excinfo" or (v.op == "star" and v.args and isinstance(v.args[0], App) and v.args[0].op == "excinfo"):
            return ("excinfo",)
        return (v.op, tuple(canon(a) for a in v.args))
    if isinstance(v, ListV):
        items = [canon(a) for a in v.items]
        if v.kind == "set":
            items = list(dict.fromkeys(items))  # a set holds each value once
        return (v.kind, tuple(items))
    if isinstance(v, DictV):
        return ("dict", tuple((canon(k), canon(x)) for k, x in v.items if k != Const("$symtab")))
    if isinstance(v, ObjV):
        return ("obj", v.cls)
    if isinstance(v, Sym):
        return ("sym",) + tuple(v.tag)
    if isinstance(v, Const):
        return ("const", type(v.v).__name__, v.v)
    if isinstance(v, NodeV):
        return ("node", v.cls, v.path)
    if isinstance(v, ClassV):
        return ("class", v.name)
    if isinstance(v, tuple):
        return tuple(canon(a) for a in v)
    return ("other", repr(v))


def _str_parts(v):
    """Flatten string-building terms into parts, or None when ``v`` is not a string-building term."""
    if isinstance(v, Const) and isinstance(v.v, str):
        return [("lit", v.v)] if v.v else []
    if not isinstance(v, App):
        return None
    if v.op == "add":
        l, r = _str_parts(v.args[0]), _str_parts(v.args[1])
        if l is None or r is None:
            return None
        return _merge(l + r)
    if v.op == "fstr":
        out = []
        for a in v.args:
            p = _str_parts(a)
            if p is None:
                return None
            out += p
        return _merge(out)
    if v.op == "str" and len(v.args) == 1:
        p = _str_parts(v.args[0]) if isinstance(v.args[0], App) and v.args[0].op in ("fstr", "format", "add") else None
        if p is not None:
            return p
        if isinstance(v.args[0], Const):
            return [("lit", str(v.args[0].v))]
        return [("format", canon(v.args[0]), None, 115)]
    if v.op == "format":
        val, spec, conv = v.args
        if conv == Const(-1) and isinstance(val, App) and val.op in ("repr", "str", "ascii") and len(val.args) == 1 \
                and not (isinstance(val.args[0], App) and val.args[0].op in ("add", "fstr", "format")):
            # format(repr(x), spec) is what the !r conversion denotes (likewise !s, !a)
            conv = Const({"repr": 114, "str": 115, "ascii": 97}[val.op])
            val = val.args[0]
        if spec == NONE and conv == Const(-1) and isinstance(val, App) and val.op in ("add", "fstr", "str"):
            inner = _str_parts(val)  # formatting a string with no spec/conversion is the identity
            if inner is not None:
                return inner
        sp = None
        if spec != NONE:
            sp = tuple(_str_parts(spec) or []) if not isinstance(spec, Sym) else (("format", canon(spec), None, -1),)
        return [("format", canon(val), sp, conv.v)]
    return None


def _merge(parts):
    out = []
    for p in parts:
        if out and p[0] == "lit" and out[-1][0] == "lit":
            out[-1] = ("lit", out[-1][1] + p[1])
        else:
            out.append(p)
    return out


def _fold_excinfo(args):
    """`type(err), err, err.__traceback__` of the exception being handled is what `*sys.exc_info()` passes."""
    args = list(args)
    for i in range(len(args) - 2):
        t, e, tb = args[i:i + 3]
        if isinstance(e, ExcV) and isinstance(t, App) and t.op == "type" and t.args == (e,) and isinstance(tb, Sym) and tb.tag == ("excattr", "__traceback__"):
            return tuple(args[:i]) + (App("star", (App("excinfo", ()),)),) + tuple(args[i + 3:])
    return tuple(args)


def canon_events(trace, ref=False):
    out = []
    for e in trace:
        k = e[0]
        if k in ("eval", "load"):
            out.append(e)
        elif k == "store":
            out.append(("store", e[1], canon(e[2])))
        elif k == "annotate":
            out.append(("annotate", e[1], canon(e[2])))
        elif k == "setitem":
            base, idx, val = e[1], e[2], e[3]
            if _is_annotations(base):
                out.append(("annotate", idx.v if isinstance(idx, Const) else canon(idx), canon(val)))
            elif _is_symtab(base) and idx == Const("__annotations__"):
                pass  # creation of the (empty) annotations dictionary is not an observable of the probes
            elif _is_symtab(base):
                name = idx.v if isinstance(idx, Const) else canon(idx)
                out.append(("store", name, canon(val)))
            elif ref or (_mentions_user(base) and not isinstance(base, (DictV, ListV))):
                out.append(("setitem", canon(base), canon(idx), canon(val)))
            elif isinstance(base, DictV) and _mentions_user(idx):
                out.append(("hash", canon(idx)))  # a script value used as a key of a dictionary being built: it is hashed here (and may be unhashable)
        elif k == "hash":
            if _mentions_user(e[1]):
                out.append(("hash", canon(e[1])))
        elif k == "getitem":
            base, idx = e[1], e[2]
            if ref or (_mentions_user(base) and not isinstance(base, (DictV, ListV))):
                out.append(("getitem", canon(base), canon(idx)))
        elif k == "delitem":
            base, idx = e[1], e[2]
            if _is_symtab(base):
                out.append(("delname", idx.v if isinstance(idx, Const) else canon(idx)))
            elif ref or (_mentions_user(base) and not isinstance(base, (DictV, ListV))):
                out.append(("delitem", canon(base), canon(idx)))
        elif k == "delname":
            out.append(e)
        elif k in ("setattr", "delattr"):
            out.append((k,) + tuple(canon(a) for a in e[1:]))
        elif k == "pycall":
            out.append(("pycall", canon(e[1]), tuple(canon(a) for a in e[2]), tuple((kk, canon(vv)) for kk, vv in e[3])))
        elif k == "call":
            label = e[1]
            if label == "call_func":
                args = _fold_excinfo(e[2])
                out.append(("pycall", canon(args[0]), tuple(canon(a) for a in args[2:]),
                            tuple(("**" if kk.startswith("**") else kk, canon(vv)) for kk, vv in e[3])))
            elif label in ("loopvar_scope_save", "loopvar_scope_restore", "ast_attribute_collapse", "get_names"):
                continue
            elif isinstance(label, str) and label.endswith(".keys"):
                continue  # the mapping protocol query made for a `**` operand (CPython's DICT_MERGE asks for keys() as well)
            else:
                out.append(("extcall", label))
        elif k == "ast_mutation":
            continue
        elif k == "raise_from":
            out.append(("raise_from", canon(e[1]), canon(e[2])))
    return tuple(out)


def is_argcheck(cfg):
    """Handler paths that reproduce Python's own checks of a `**` operand for opaque values: not a mapping / duplicate keyword -> TypeError.
    (For literal operands the reference raises these errors itself and the paths are compared.)"""
    exc = cfg.env.get("$exc")
    if getattr(exc, "cls", "") != "TypeError":
        return False
    for atom, val in cfg.assume:
        if isinstance(atom, tuple) and len(atom) == 2 and isinstance(atom[1], App):
            a = atom[1]
            if a.op == "hasattr" and len(a.args) == 2 and a.args[1] == Const("keys") and _mentions_user(a.args[0]) and not val:
                return True
            if a.op in ("bitand", "ibitand") and ".keys" in repr(a) and val:
                return True
    return False


def is_extension(cfg):
    """Paths that exist only because of pyscript's documented extensions (state variables as dotted names)."""
    for atom, val in cfg.assume:
        s = repr(atom)
        if "State." in s:
            return True
        if "ast_attribute_collapse" in s and isinstance(atom, tuple) and len(atom) == 2 and isinstance(atom[1], App):
            op = atom[1].op
            # the collapse helper returned a dotted state-variable name (not None)
            if (op == "isnot" and val) or (op == "is" and not val) or (op == "isinstance" and val):
                return True
    for e in cfg.trace:
        if e[0] == "call" and (str(e[1]).startswith("State.") or str(e[1]).startswith("Function.")):
            return True
    return False


_COND_OPS = {"eq", "noteq", "lt", "lte", "gt", "gte", "is", "isnot", "in", "notin", "not", "add", "sub", "mult", "div", "mod", "pow", "lshift", "rshift",
             "bitor", "bitxor", "bitand", "floordiv", "matmult", "usub", "uadd", "invert", "getitem", "getattr", "slice"}


def _user_term(v):
    """Terms built only from operand values and Python operators (conditions a script can observe)."""
    if isinstance(v, Sym):
        return bool(v.tag) and v.tag[0] in ("val", "item", "var")
    if isinstance(v, Const):
        return True
    if isinstance(v, App):
        if v.op == "res" and v.args and v.args[0] == Const("call_func"):
            return True  # result of a call made by the script (e.g. __exit__ deciding about suppression)
        return v.op in _COND_OPS and all(_user_term(a) for a in v.args)
    return False


def conditions(cfg):
    out = []
    for atom, val in cfg.assume:
        if isinstance(atom, tuple) and len(atom) == 2 and atom[0] == "truth" and _user_term(atom[1]) and not isinstance(atom[1], Const):
            out.append((canon(atom[1]), val))
    return tuple(sorted(out, key=repr))


def _flow(v):
    if isinstance(v, Sym) and v.tag and v.tag[0] == "val" and len(v.tag) > 2 and v.tag[2] is not None:
        return ("flow", v.tag[2], v.tag[1])
    if isinstance(v, App) and v.op == "new" and isinstance(v.args[0], ClassV) and v.args[0].name in ("EvalBreak", "EvalContinue", "EvalReturn"):
        return ("flow", v.args[0].name, "<new>")
    return ("flow", None)


def path_set(out: Out, ref=False, with_result=True):
    paths = {}
    for kind in ("return", "normal", "raise", "break", "continue"):
        for c in out.get(kind):
            if with_result == "flow" and kind != "raise":
                if kind in ("break", "continue"):
                    res = ("flow", "EvalBreak" if kind == "break" else "EvalContinue", c.env.get("$flow", Const("?")).v)
                elif kind == "return":
                    res = _flow(c.env.get("$ret", NONE))
                else:
                    res = ("flow", None)
                key = (canon_events(c.trace, ref=ref), res, conditions(c))
                ext = (not ref) and is_extension(c)
                if key not in paths or (paths[key] and not ext):
                    paths[key] = ext
                continue
            if kind in ("break", "continue"):
                continue
            if kind == "raise":
                exc = c.env.get("$exc")
                if not ref and is_argcheck(c):
                    continue
                res = ("raise", getattr(exc, "cls", "?"), getattr(exc, "origin", "") if getattr(exc, "cls", "") == "Exception" else "")
            elif kind == "return" and with_result:
                res = ("value", canon(c.env.get("$ret", NONE)))
            else:
                res = ("done",)
            conds = conditions(c)
            if res[0] == "value":
                # an extra truth test of the value that is returned anyway is unobservable for the quantified value kinds
                conds = tuple(cv for cv in conds if cv[0] != res[1])
            key = (canon_events(c.trace, ref=ref), res, conds)
            ext = (not ref) and is_extension(c)
            if key not in paths or (paths[key] and not ext):
                paths[key] = ext
    return paths


def fmt_path(p):
    ev, res = p[0], p[1]
    conds = p[2] if len(p) > 2 else ()
    parts = []
    for e in ev:
        if e[0] == "eval":
            parts.append(e[1])
        elif e[0] == "load":
            parts.append(f"load {e[1]}")
        elif e[0] == "store":
            parts.append(f"store {e[1]}:={_short(e[2])}")
        else:
            parts.append(_short(e))
    cs = (" when " + " and ".join(("" if v else "not ") + _short(c, 60) for c, v in conds)) if conds else ""
    return "[" + ", ".join(parts) + "] -> " + _short(res) + cs


def _short(x, n=110):
    s = repr(x)
    s = re.sub(r"\('sym', 'val', '(\w+)'\)", r"v(\1)", s)
    s = re.sub(r"\('sym', 'item', '(\w+)', (\d)\)", r"\1[\2]", s)
    return s if len(s) <= n else s[: n - 3] + "..."


# ---------------------------------------------------------------------------------------------
def compare_shape(ctx, program, policy, rid, src, mode, result="auto", ref_opts=None, unit=None, shape=None,
                  method=None, extra_args=None, heap=None, label=None):
    """Compare handler path set with reference path set for probe ``src``; record an obligation."""
    try:
        if shape is None:
            shape = shape_expr(src) if mode == "eval" else shape_stmt(src)
    except SyntaxError as exc:  # pragma: no cover - catalogue error
        raise AnalysisError(f"catalogue probe does not parse: {src!r}: {exc}") from exc
    handler = method or f"ast_{shape.cls.lower()}"
    unit = unit or f"eval.py::AstEval.{handler}"
    hout = run_handler(program, shape, policy, method=method, extra_args=extra_args, heap=heap)
    rout = run_reference(src, mode, **(ref_opts or {}))
    if result == "auto":
        result = True if mode == "eval" else False
    H = path_set(hout, ref=False, with_result=result)
    R = path_set(rout, ref=True, with_result=result)
    missing = sorted((p for p in R if p not in H), key=repr)
    extra = sorted((p for p, ext in H.items() if p not in R and not ext), key=repr)
    shown = " ".join(src.split()) if "\n" not in src else src.replace("\n", "; ")
    shown = re.sub(r";\s+", "; ", shown)
    what = f"handler paths == reference paths for `{shown}`" + (f" [{label}]" if label else "")
    if not missing and not extra:
        ctx.ok(rid, unit, what, sample={"probe": shown, "paths": [fmt_path(p) for p in list(R)[:3]], "n_paths": len(R)})
        return True
    detail = {
        "probe": src,
        "reference_paths_not_realised": [fmt_path(p) for p in missing[:6]],
        "handler_paths_not_in_reference": [fmt_path(p) for p in extra[:6]],
    }
    import hashlib
    digest = hashlib.sha1(repr((missing, extra)).encode()).hexdigest()[:8]
    msg = (
        f"`{shown}`: interpreter handler {handler} deviates from Python: "
        f"expected {detail['reference_paths_not_realised'][:2]} got {detail['handler_paths_not_in_reference'][:2]}"
    )
    node = program.units.get(unit)
    ctx.fail(rid, unit, f"probe `{shown}`" + (f" [{label}]" if label else "") + f" deviation {digest}", msg,
             node=node.node if node else None, rel=unit.split("::")[0], detail=detail)
    return False
